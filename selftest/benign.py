"""Edits for selftest/run.py (benign)."""

S = "jsonpath_rfc9535/"

BENIGN = [
    dict(id='c06-reorder-compare-branches', props=['C06'], file='jsonpath_rfc9535/filter_expressions.py',
         old='    if operator == "==":\n        return _eq(left, right)\n    if operator == "!=":\n        return not _eq(left, right)',
         new='    if operator == "!=":\n        return not _eq(left, right)\n    if operator == "==":\n        return _eq(left, right)'),
    dict(id='c06-lt-rename-and-helper', props=['C06'], file='jsonpath_rfc9535/filter_expressions.py',
         old='    if isinstance(left, (int, float)) and isinstance(right, (int, float)):\n        return left < right\n\n    return False',
         new='    numeric = (int, float)\n    both_numbers = isinstance(left, numeric) and isinstance(right, numeric)\n    return left < right if both_numbers else False'),
]

SEL = S + "selectors.py"
SEG = S + "segments.py"

BENIGN += [
    dict(id="c01-wildcard-keys-then-subscript", props=["C01", "C08"], file=SEL,
         old="            for name, val in members:\n                yield node.new_child(val, name)\n\n        elif isinstance(node.value, list):\n            for i, element in enumerate(node.value):\n                yield node.new_child(element, i)\n\n\nclass FilterSelector",
         new="            for name, val in members:\n                yield node.new_child(val, name)\n\n        elif isinstance(node.value, list):\n            for i in range(len(node.value)):\n                yield node.new_child(node.value[i], i)\n\n\nclass FilterSelector"),
    dict(id="c01-name-in-test", props=["C01", "C08"], file=SEL,
         old="            with suppress(KeyError):\n                yield node.new_child(node.value[self.name], self.name)",
         new="            if self.name in node.value:\n                yield node.new_child(node.value[self.name], self.name)"),
    dict(id="c01-child-helper-generator", props=["C01"], file=SEG,
         old="        for node in nodes:\n            for selector in self.selectors:\n                yield from selector.resolve(node)\n\n    def __str__(self) -> str:\n        return f\"[{",
         new="        for node in nodes:\n            yield from self._apply(node)\n\n    def _apply(self, node: JSONPathNode) -> Iterable[JSONPathNode]:\n        for selector in self.selectors:\n            yield from selector.resolve(node)\n\n    def __str__(self) -> str:\n        return f\"[{"),
    dict(id="c01-visit-rename-locals", props=["C01", "C18"], file=SEG,
         old="            for name, val in node.value.items():\n                if isinstance(val, (dict, list)):\n                    _node = node.new_child(val, name)\n                    yield from self._visit(_node, depth + 1)",
         new="            for member_name, member in node.value.items():\n                if isinstance(member, (list, dict)):\n                    yield from self._visit(node.new_child(member, member_name), 1 + depth)"),
    dict(id="c07-index-try-except", props=["C01", "C07", "C08"], file=SEL,
         old="            with suppress(IndexError):\n                yield node.new_child(node.value[self.index], norm_index)",
         new="            try:\n                element = node.value[self.index]\n            except IndexError:\n                return\n            yield node.new_child(element, norm_index)"),
    dict(id="c07-norm-index-rewrite", props=["C01", "C07", "C08"], file=SEL,
         old="        if self.index < 0 and len(obj) >= abs(self.index):\n            return len(obj) + self.index\n        return self.index",
         new="        size = len(obj)\n        if self.index >= 0 or -self.index > size:\n            return self.index\n        return size + self.index"),
]

FE = S + "filter_expressions.py"

BENIGN += [
    dict(id="c02-relative-scalar-shortcut", props=["C02"], file=FE,
         old="        # Start from the current node, but keep the root",
         new="        if not isinstance(context.current, (list, dict)) and not self.query.empty():\n            return JSONPathNodeList()\n\n        # Start from the current node, but keep the root"),
    dict(id="c02-truthy-reordered", props=["C02"], file=FE,
         old="    if isinstance(obj, JSONPathNodeList) and len(obj) == 0:\n        return False\n    if obj is NOTHING:\n        return False",
         new="    if obj is NOTHING:\n        return False\n    if isinstance(obj, JSONPathNodeList):\n        return not obj.empty()"),
]

PARSE = S + "parse.py"

BENIGN += [
    dict(id="c09-escape-table-as-dict", props=["C09"], file=PARSE,
         old='        if ch == \'"\':\n            return \'"\', index\n        if ch == "\\\\":\n            return "\\\\", index\n        if ch == "/":\n            return "/", index\n        if ch == "b":\n            return "\\x08", index\n        if ch == "f":\n            return "\\x0c", index\n        if ch == "n":\n            return "\\n", index\n        if ch == "r":\n            return "\\r", index\n        if ch == "t":\n            return "\\t", index\n',
         new='        simple = {\'"\': \'"\', "\\\\": "\\\\", "/": "/", "b": "\\x08", "f": "\\x0c", "n": "\\n", "r": "\\r", "t": "\\t"}\n        if ch in simple:\n            return simple[ch], index\n'),
    dict(id="c09-pair-arithmetic-linear", props=["C09"], file=PARSE,
         old="            codepoint = 0x10000 + (\n                ((codepoint & 0x03FF) << 10) | (low_surrogate & 0x03FF)\n            )",
         new="            codepoint = 0x10000 + (codepoint - 0xD800) * 0x400 + (low_surrogate - 0xDC00)"),
    dict(id="c09-surrogate-predicate-chained", props=["C09"], file=PARSE,
         old="        return codepoint >= 0xD800 and codepoint <= 0xDBFF", new="        return 0xD800 <= codepoint <= 0xDBFF"),
]

BENIGN += [
    dict(id="c14-key-determined-pattern-memo", props=["C14", "C16"], file=S + "function_extensions/match.py",
         old="        try:\n            # re.fullmatch caches compiled patterns internally\n            return bool(re.fullmatch(map_re(pattern), string))",
         new="        try:\n            mapped = self._mapped.get(pattern) if hasattr(self, '_mapped') else None\n            if mapped is None:\n                mapped = map_re(pattern)\n            return bool(re.fullmatch(mapped, string))"),
    dict(id="c14-local-accumulator", props=["C14", "C16"], file=S + "node.py",
         old="        return [node.value for node in self]", new="        out = []\n        for node in self:\n            out.append(node.value)\n        return out"),
]

BENIGN += [
    dict(id="c15-find-one-for-loop", props=["C15"], file=S + "query.py",
         old="        try:\n            return next(iter(self.finditer(value)))\n        except StopIteration:\n            return None",
         new="        for node in self.finditer(value):\n            return node\n        return None"),
    dict(id="c15-find-one-next-default", props=["C15"], file=S + "query.py",
         old="        try:\n            return next(iter(self.finditer(value)))\n        except StopIteration:\n            return None",
         new="        return next(iter(self.finditer(value)), None)"),
    dict(id="c15-apply-def", props=["C15"], file=S + "query.py",
         old="    apply = find\n", new="    def apply(self, value: JSONValue) -> JSONPathNodeList:\n        return self.find(value)\n"),
]

BENIGN += [
    dict(id="c19-position-prefix-slice", props=["C19"], file=S + "tokens.py",
         old='        line_number = self.query.count("\\n", 0, self.index) + 1\n        column_number = self.index - self.query.rfind("\\n", 0, self.index)',
         new='        before = self.query[: self.index]\n        line_number = before.count("\\n") + 1\n        column_number = self.index - before.rfind("\\n")'),
]

ENVF = S + "environment.py"
_CACHE_INIT = dict(file=ENVF, old="        self.function_extensions: Dict[str, FilterFunction] = {}\n",
                   new="        self._compiled: Dict[str, JSONPathQuery] = {}\n        self.function_extensions: Dict[str, FilterFunction] = {}\n")
BENIGN += [
    dict(id="c14-sound-query-cache-get", props=["C01", "C14", "C16", "C15", "C13"], edits=[
        _CACHE_INIT,
        dict(file=ENVF,
             old="        tokens = tokenize(query)\n        stream = TokenStream(tokens)\n        return JSONPathQuery(env=self, segments=tuple(self.parser.parse(stream)))",
             new="        cached = self._compiled.get(query)\n        if cached is not None:\n            return cached\n        tokens = tokenize(query)\n        stream = TokenStream(tokens)\n        compiled = JSONPathQuery(env=self, segments=tuple(self.parser.parse(stream)))\n        if len(self._compiled) > 100:\n            self._compiled.clear()\n        self._compiled[query] = compiled\n        return compiled")]),
    dict(id="c14-sound-query-cache-subscript", props=["C01", "C14", "C16"], edits=[
        _CACHE_INIT,
        dict(file=ENVF,
             old="        tokens = tokenize(query)\n        stream = TokenStream(tokens)\n        return JSONPathQuery(env=self, segments=tuple(self.parser.parse(stream)))",
             new="        if query in self._compiled:\n            return self._compiled[query]\n        tokens = tokenize(query)\n        stream = TokenStream(tokens)\n        compiled = JSONPathQuery(env=self, segments=tuple(self.parser.parse(stream)))\n        self._compiled[query] = compiled\n        return compiled")]),
]

BENIGN += [
    # a metacharacter-free pattern is a literal: skipping the engine is the same function
    dict(id="c11-literal-shortcut-match", props=["C11", "C13", "C10"], file=S + "function_extensions/match.py",
         old="        try:\n", new="        try:\n            if pattern.isalnum():\n                return pattern == string\n"),
    dict(id="c11-literal-shortcut-search-guarded", props=["C11", "C13"], file=S + "function_extensions/search.py",
         old="        try:\n", new="        try:\n            if isinstance(string, str) and pattern.isalnum():\n                return pattern in string\n"),
]

BENIGN += [
    dict(id="c13-str-format-constant-template", props=["C13", "C19"], file=S + "exceptions.py",
         old='        return f"{msg}, line {line}, column {column}"',
         new='        return "{}, line {}, column {}".format(msg, line, column)'),
    dict(id="c13-str-percent-constant-template", props=["C13", "C19"], file=S + "exceptions.py",
         old='        return f"{msg}, line {line}, column {column}"',
         new='        return "%s, line %d, column %d" % (msg, line, column)'),
]

BENIGN += [
    # the cache key (token equality) covers query and index: a hit is the same computation
    dict(id="c19-position-cached-faithfully", props=["C19", "C14", "C16", "C13"], edits=[
        dict(file=S + "tokens.py", old="from enum import auto\n", new="from enum import auto\nfrom functools import lru_cache\n"),
        dict(file=S + "tokens.py", old="    def position(self)", new="    @lru_cache(maxsize=128)\n    def position(self)")]),
]

BENIGN += [
    dict(id="c20-message-via-local-and-ascii", props=["C20", "C13", "C19"], file=S + "lex.py",
         old='    l.error(f"unexpected shorthand selector {c!r}")', new='    shown = ascii(c)\n    l.error("unexpected shorthand selector " + shown)'),
    dict(id="c20-message-int-interpolation", props=["C20", "C13"], file=S + "parse.py",
         old='f"invalid index {token.value!r}"', new='f"invalid index {token.value!r} at offset {token.index}"'),
]

BENIGN += [
    # a functools cache on a pure function of a string: a hit is the same computation (was wrongly listed as a mutant
    # while R14.3 rejected every caching decorator)
    dict(id="c14-lru-cache-on-pure-map-re", props=["C14", "C16", "C11"], file=S + "function_extensions/_pattern.py",
         old="def map_re(pattern: str) -> str:", new="import functools\n\n\n@functools.lru_cache(maxsize=64)\ndef map_re(pattern: str) -> str:"),
]

SELF = S + "selectors.py"
BENIGN += [
    # a value precomputed in the constructor and used at resolution time
    dict(id="c07-index-sign-precomputed-in-init", props=["C01", "C07", "C08", "C13", "C14", "C16"], edits=[
        dict(file=SELF, old='    __slots__ = ("index", "_as_key")', new='    __slots__ = ("index", "_as_key", "_negative")'),
        dict(file=SELF, old="        self._as_key = str(self.index)\n", new="        self._as_key = str(self.index)\n        self._negative = index < 0\n"),
        dict(file=SELF, old="        if self.index < 0 and len(obj) >= abs(self.index):", new="        if self._negative and len(obj) >= abs(self.index):")]),
]

_WS_OLD = "        if self.accept_match(RE_WHITESPACE):\n            self.ignore()\n            return True\n        return False"
_WS_LOOP = "        query = self.query\n        pos = self.pos\n        end = len(query)\n        while pos < end and query[pos] {PRED}:\n            pos += 1\n        if pos != self.pos:\n            self.pos = pos\n            self.ignore()\n            return True\n        return False"
BENIGN += [
    # blank space skipped by a character loop over exactly the RFC's four characters
    dict(id="c04-blank-scan-loop-same-class", props=["C03", "C04", "C13", "C19", "C20"], file=S + "lex.py",
         old=_WS_OLD, new=_WS_LOOP.replace("{PRED}", "in ' \\t\\n\\r'")),
    dict(id="c04-whitespace-constant-renamed", props=["C03", "C04"], edits=[
        dict(file=S + "lex.py", old="RE_WHITESPACE = ", new="RE_WS = "),
        dict(file=S + "lex.py", old="self.accept_match(RE_WHITESPACE)", new="self.accept_match(RE_WS)"),
        dict(file=S + "lex.py", old="l.accept_match(RE_WHITESPACE)", new="l.accept_match(RE_WS)")]),
]

_API_OLD = "compile = DEFAULT_ENV.compile  # noqa: A001\nfinditer = DEFAULT_ENV.finditer\nfind = DEFAULT_ENV.find\nfind_one = DEFAULT_ENV.find_one\n"
BENIGN += [
    # module-level entry points as plain delegating functions
    dict(id="c15-module-api-as-delegating-functions", props=["C15", "C14", "C13"], file=S + "__init__.py", old=_API_OLD,
         new="def compile(query):  # noqa: A001\n    return DEFAULT_ENV.compile(query)\n\n\ndef finditer(query, value):\n    return DEFAULT_ENV.finditer(query, value)\n\n\ndef find(query, value):\n    return DEFAULT_ENV.find(query, value)\n\n\ndef find_one(query, value):\n    return DEFAULT_ENV.compile(query).find_one(value)\n"),
]

_SER_OLD = "import json\n\n\ndef canonical_string(value: str) -> str:\n    \"\"\"Return _value_ as a canonically formatted string literal.\"\"\"\n    single_quoted = (\n        json.dumps(value, ensure_ascii=False)[1:-1]\n        .replace('\\\\\"', '\"')\n        .replace(\"'\", \"\\\\'\")\n    )\n    return f\"'{single_quoted}'\"\n"
_SER_TABLE = "_ESCAPES = {codepoint: f\"\\\\u{codepoint:04x}\" for codepoint in range({N})}\n_ESCAPES.update({0x08: \"\\\\b\", 0x09: \"\\\\t\", 0x0A: \"\\\\n\", 0x0C: \"\\\\f\", 0x0D: \"\\\\r\", 0x27: \"\\\\'\", 0x5C: \"\\\\\\\\\"})\n\n\ndef canonical_string(value: str) -> str:\n    \"\"\"Return _value_ as a canonically formatted string literal.\"\"\"\n    return f\"'{value.translate(_ESCAPES)}'\"\n"
BENIGN += [
    # the normalized-path writer as a translation table covering all 32 C0 controls, quote and backslash
    dict(id="c08-writer-as-translate-table", props=["C08", "C12", "C13", "C14"], file=S + "serialize.py", old=_SER_OLD, new=_SER_TABLE.replace("{N}", "0x20")),
]

BENIGN += [
    # UnicodeDecodeError is a ValueError: its own handler is subsumed by the (ValueError, RecursionError) one, same text
    dict(id="c20-unicode-handler-subsumed", props=["C20"], file=S + "cli.py",
         old="    except UnicodeDecodeError as err:\n        if args.debug:\n            raise\n        sys.stderr.write(f\"target document decode error: {err}\\n\")\n        sys.exit(1)\n", new=""),
]

# a correct recursive comparison of arrays / objects is silent in C06 (it also removes the known finding F8b; C18
# rightly objects to the unbounded recursion, see mutants.py)
_EQ_TAIL = "    if isinstance(left, bool):\n        return isinstance(right, bool) and left == right\n\n    return left == right\n"
BENIGN += [
    dict(id="c06-rec-eq-correct", props=["C06"], file=S + "filter_expressions.py", old=_EQ_TAIL,
         new="    if isinstance(left, bool):\n        return isinstance(right, bool) and left == right\n\n"
             "    if isinstance(left, list) and isinstance(right, list):\n        return len(left) == len(right) and all(_eq(a, b) for a, b in zip(left, right))\n\n"
             "    if isinstance(left, dict) and isinstance(right, dict):\n        return len(left) == len(right) and all(k in right and _eq(v, right[k]) for k, v in left.items())\n\n"
             "    return left == right\n"),
    dict(id="c06-rec-eq-correct-iterating-right", props=["C06"], file=S + "filter_expressions.py", old=_EQ_TAIL,
         new="    if isinstance(left, bool):\n        return isinstance(right, bool) and left == right\n\n"
             "    if isinstance(left, list) and isinstance(right, list):\n        return len(right) == len(left) and all(_eq(b, a) for a, b in zip(left, right))\n\n"
             "    if isinstance(left, dict) and isinstance(right, dict):\n        return len(left) == len(right) and all(k in left and _eq(left[k], v) for k, v in right.items())\n\n"
             "    return left == right\n"),
]


# ---- round 6
BENIGN += [
    # exact integer literals through Decimal, with its own failure class handled (the seeds r6E-5 / r6H-3 forget it)
    dict(id="c13-int-literal-decimal-handled", props=["C13", "C03", "C04", "C12"], file=S + "parse.py",
         old="            return IntegerLiteral(stream.current, value=int(float(value)))\n        except (ValueError, OverflowError) as err:",
         new="            import decimal\n\n            return IntegerLiteral(stream.current, value=int(decimal.Decimal(value)))\n        except (ValueError, OverflowError, decimal.InvalidOperation) as err:"),
    # vacuous all() on an emptiness-guarded list: equal results
    dict(id="c10-unpack-isinstance-first", props=["C10", "C02"], file=S + "filter_expressions.py",
         old="            if func.arg_types[idx] == ExpressionType.LOGICAL and isinstance(\n                arg, JSONPathNodeList\n            ):",
         new="            if isinstance(arg, JSONPathNodeList) and func.arg_types[idx] == ExpressionType.LOGICAL:"),
    # one-character slices instead of index + IndexError in peek()
    dict(id="c19-peek-as-slice", props=["C19", "C03", "C04", "C13"], file=S + "lex.py",
         old='        try:\n            return self.query[self.pos]\n        except IndexError:\n            return ""\n\n    def accept(',
         new='        return self.query[self.pos : self.pos + 1]\n\n    def accept('),
]


BENIGN += [
    # the deterministic visitor with its last child handled by a tail loop, depth discipline intact (the correct twin of
    # the round-5 seeds r5G-5 / r5H-4): C18 decides it by induction over the loop; C01 / C08 do not decide the order (exit 2)
    dict(id="c18-visit-tail-loop-correct", props=["C18", "C14", "C16", "C17", "C13"], file=S + "segments.py",
         old='        if depth > self.env.max_recursion_depth:\n            raise JSONPathRecursionError("recursion limit exceeded", token=self.token)\n\n        yield node\n\n        if isinstance(node.value, dict):\n            for name, val in node.value.items():\n                if isinstance(val, (dict, list)):\n                    _node = node.new_child(val, name)\n                    yield from self._visit(_node, depth + 1)\n        elif isinstance(node.value, list):\n            for i, element in enumerate(node.value):\n                if isinstance(element, (dict, list)):\n                    _node = node.new_child(element, i)\n                    yield from self._visit(_node, depth + 1)\n\n',
         new='        # Recurse for all but the last container child of a node and carry on\n        # with the last one in this frame. Long chains of singly nested\n        # containers, the usual deep case, then need one generator in total\n        # rather than one per level, which keeps a generous max_recursion_depth\n        # clear of the interpreter\'s own recursion limit.\n        while True:\n            if depth > self.env.max_recursion_depth:\n                raise JSONPathRecursionError(\n                    "recursion limit exceeded", token=self.token\n                )\n\n            yield node\n\n            if isinstance(node.value, dict):\n                children = [\n                    node.new_child(val, name)\n                    for name, val in node.value.items()\n                    if isinstance(val, (dict, list))\n                ]\n            elif isinstance(node.value, list):\n                children = [\n                    node.new_child(element, i)\n                    for i, element in enumerate(node.value)\n                    if isinstance(element, (dict, list))\n                ]\n            else:\n                return\n\n            if not children:\n                return\n\n            for _node in children[:-1]:\n                yield from self._visit(_node, depth + 1)\n\n            # Descend into the last child without a new generator.\n            node, depth = children[-1], depth + 1\n\n'),
]


BENIGN += [
    # exact integer literals: mantissa and exponent converted separately, exponent bounded before the power is taken
    dict(id="c13-int-literal-partition-bounded", props=["C13", "C03", "C04", "C12"], file=S + "parse.py",
         old="            return IntegerLiteral(stream.current, value=int(float(value)))\n        except (ValueError, OverflowError) as err:",
         new="            significand, _, exponent = value.lower().partition(\"e\")\n            exp = int(exponent) if exponent else 0\n            if exp > 308:  # noqa: PLR2004\n                raise OverflowError(\"exponent beyond the range of a double\")\n            return IntegerLiteral(stream.current, value=int(significand) * 10**exp)\n        except (ValueError, OverflowError) as err:"),
]
