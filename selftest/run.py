#!/usr/bin/env python3
"""Self-test of the checkers in both directions.

mutants.py : semantic edits that break a property -> the property's check must exit 1
benign.py  : behaviour-preserving edits           -> every listed check must exit 0
Each edit is {id, props, file, old, new[, count]} applied to a scratch copy of the
package outside /repo and /verif (deleted afterwards).
usage: selftest/run.py [--only ID-substring] [--kind mutants|benign] [-j N] [-v]
"""
import argparse
import json
import os
import shutil
import subprocess
import sys
import tempfile
from concurrent.futures import ThreadPoolExecutor
from pathlib import Path

V = Path(__file__).resolve().parent.parent
REPO = Path(os.environ.get("VERIF_REPO", "/repo"))


def apply_edit(root: Path, e: dict) -> None:
    edits = e.get("edits") or [e]
    for ed in edits:
        p = root / ed["file"]
        s = p.read_text()
        if ed["old"] not in s:
            raise SystemExit(f"{e['id']}: pattern not found in {ed['file']}: {ed['old'][:60]!r}")
        s = s.replace(ed["old"], ed["new"], ed.get("count", 1))
        p.write_text(s)


def run_one(e: dict, kind: str, verbose: bool) -> dict:
    tmp = Path(tempfile.mkdtemp(prefix="jpsa_st_"))
    try:
        shutil.copytree(REPO / "jsonpath_rfc9535", tmp / "jsonpath_rfc9535", ignore=shutil.ignore_patterns("__pycache__"))
        apply_edit(tmp, e)
        res = {}
        for prop in e["props"]:
            env = dict(os.environ, VERIF_REPO=str(tmp), JPSA_NO_EVIDENCE="1", JPSA_JOBS="2")
            pr = subprocess.run([sys.executable, "-B", "-m", "jpsa", "check", prop], cwd=V, env=env, capture_output=True, text=True)
            res[prop] = (pr.returncode, pr.stdout + pr.stderr)
        return {"id": e["id"], "kind": kind, "res": res}
    finally:
        shutil.rmtree(tmp, ignore_errors=True)


def main() -> int:
    ap = argparse.ArgumentParser()
    ap.add_argument("--only", default="")
    ap.add_argument("--kind", default="")
    ap.add_argument("--prop", default="")
    ap.add_argument("-j", type=int, default=16)
    ap.add_argument("-v", action="store_true")
    a = ap.parse_args()
    jobs = []
    for kind in ("mutants", "benign"):
        if a.kind and a.kind != kind:
            continue
        f = V / "selftest" / f"{kind}.py"
        if f.exists():
            ns = {}
            exec(compile(f.read_text(), str(f), "exec"), ns)
            for e in ns[kind.upper()]:
                if a.only in e["id"] and (not a.prop or a.prop in e["props"]):
                    e = dict(e)
                    if a.prop:
                        e["props"] = [a.prop]
                    jobs.append((e, kind))
    bad = 0
    with ThreadPoolExecutor(a.j) as ex:
        for r in ex.map(lambda j: run_one(j[0], j[1], a.v), jobs):
            for prop, (rc, out) in r["res"].items():
                want = 1 if r["kind"] == "mutants" else 0
                ok = rc == want
                if not ok:
                    bad += 1
                tag = "ok  " if ok else "FAIL"
                print(f"{tag} {r['kind']:7} {r['id']:40} {prop} exit={rc}")
                if a.v or not ok:
                    for line in out.splitlines():
                        if line.startswith(("VIOLATION", "  rule=", "ANALYSIS-ERROR")):
                            print("      " + line[:300])
    print(f"{len(jobs)} edits, {bad} unexpected")
    return 1 if bad else 0


if __name__ == "__main__":
    sys.exit(main())
