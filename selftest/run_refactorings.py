#!/usr/bin/env python3
"""False-alarm test: behaviour-preserving refactorings written by independent agents
(selftest/refactorings/<id>/patch.diff). Every check must stay at exit 0 on each of them
(exit 2 = construct outside the analysed subset, reported separately; exit 1 = false alarm).
usage: selftest/run_refactorings.py [--only substring] [-j N]"""
import argparse
import os
import shutil
import subprocess
import sys
import tempfile
from concurrent.futures import ThreadPoolExecutor
from pathlib import Path

V = Path(__file__).resolve().parent.parent
REPO = Path(os.environ.get("VERIF_REPO", "/repo"))
PROPS = [f"C{n:02d}" for n in range(1, 21)]


def run_one(d: Path) -> dict:
    tmp = Path(tempfile.mkdtemp(prefix="jpsa_rf_"))
    try:
        shutil.copytree(REPO / "jsonpath_rfc9535", tmp / "jsonpath_rfc9535", ignore=shutil.ignore_patterns("__pycache__"))
        pr = subprocess.run(["patch", "-p1", "-s", "-d", str(tmp), "-i", str(d / "patch.diff")], capture_output=True, text=True)
        if pr.returncode != 0:
            return {"id": d.name, "error": (pr.stdout + pr.stderr)[:200]}
        res = {}
        for p in PROPS:
            env = dict(os.environ, VERIF_REPO=str(tmp), JPSA_NO_EVIDENCE="1", JPSA_JOBS="2")
            r = subprocess.run([sys.executable, "-B", "-m", "jpsa", "check", p], cwd=V, env=env, capture_output=True, text=True)
            first = ""
            for line in r.stdout.splitlines():
                if line.startswith("  rule=") or line.startswith("ANALYSIS-ERROR"):
                    first = line.strip()[:300]
                    break
            res[p] = (r.returncode, first)
        return {"id": d.name, "res": res}
    finally:
        shutil.rmtree(tmp, ignore_errors=True)


def main() -> int:
    ap = argparse.ArgumentParser()
    ap.add_argument("--only", default="")
    ap.add_argument("-j", type=int, default=8)
    a = ap.parse_args()
    dirs = sorted(d for d in (V / "selftest" / "refactorings").iterdir() if d.is_dir() and a.only in d.name)
    bad = 0
    with ThreadPoolExecutor(a.j) as ex:
        for r in ex.map(run_one, dirs):
            if "error" in r:
                print(f"ERR  {r['id']}: {r['error']}")
                continue
            alarms = {p: v for p, v in r["res"].items() if v[0] == 1}
            undec = {p: v for p, v in r["res"].items() if v[0] == 2}
            tag = "FALSE-ALARM" if alarms else ("undecided" if undec else "silent")
            print(f"{tag:11} {r['id']}")
            for p, (rc, first) in {**alarms, **undec}.items():
                print(f"      {p} exit={rc} {first}")
            bad += len(alarms)
    print(f"{len(dirs)} refactorings, {bad} false alarms")
    return 1 if bad else 0


if __name__ == "__main__":
    sys.exit(main())
