"""Edits for selftest/run.py (mutants)."""

S = "jsonpath_rfc9535/"

MUTANTS = [
    dict(id='c06-revert-lt-bool-fix', props=['C06'], file='jsonpath_rfc9535/filter_expressions.py',
         old='    if isinstance(left, bool) or isinstance(right, bool):\n        return False\n\n    if isinstance(left, str)',
         new='    if isinstance(left, str)'),
    dict(id='c06-ge-as-not-lt', props=['C06'], file='jsonpath_rfc9535/filter_expressions.py',
         old='        return _lt(right, left) or _eq(left, right)',
         new='        return not _lt(left, right)'),
    dict(id='c06-eq-drop-bool-guard', props=['C06'], file='jsonpath_rfc9535/filter_expressions.py',
         old='    if isinstance(left, bool):\n        return isinstance(right, bool) and left == right\n',
         new=''),
    dict(id='c06-nothing-vs-empty', props=['C06'], file='jsonpath_rfc9535/filter_expressions.py',
         old='        if left.empty():\n            return right is NOTHING',
         new='        if left.empty():\n            return False'),
    dict(id='c06-unwrap-len-ge-1', props=['C06'], file='jsonpath_rfc9535/filter_expressions.py',
         old='        if isinstance(right, JSONPathNodeList) and len(right) == 1:\n            right = right[0].value',
         new='        if isinstance(right, JSONPathNodeList) and len(right) == 1 and right[0].value is not None:\n            right = right[0].value'),
    dict(id='c06-lt-str-int-mix', props=['C06'], file='jsonpath_rfc9535/filter_expressions.py',
         old='    if isinstance(left, (int, float)) and isinstance(right, (int, float)):\n        return left < right',
         new='    if isinstance(left, (int, float)) and isinstance(right, (int, float, str)):\n        return left < right'),
]

SEL = S + "selectors.py"
SEG = S + "segments.py"

MUTANTS += [
    dict(id="c01-child-selector-major", props=["C01"], file=SEG,
         old="        for node in nodes:\n            for selector in self.selectors:\n                yield from selector.resolve(node)\n\n    def __str__(self) -> str:\n        return f\"[{",
         new="        nodes = list(nodes)\n        for selector in self.selectors:\n            for node in nodes:\n                yield from selector.resolve(node)\n\n    def __str__(self) -> str:\n        return f\"[{"),
    dict(id="c01-child-reversed-selectors", props=["C01"], file=SEG,
         old="            for selector in self.selectors:\n                yield from selector.resolve(node)\n\n    def __str__(self) -> str:\n        return f\"[{",
         new="            for selector in reversed(self.selectors):\n                yield from selector.resolve(node)\n\n    def __str__(self) -> str:\n        return f\"[{"),
    dict(id="c01-child-dedup-seen", props=["C01"], file=SEG,
         old="        for node in nodes:\n            for selector in self.selectors:\n                yield from selector.resolve(node)\n\n    def __str__(self) -> str:\n        return f\"[{",
         new="        seen = set()\n        for node in nodes:\n            for selector in self.selectors:\n                for n in selector.resolve(node):\n                    if n.location in seen:\n                        continue\n                    seen.add(n.location)\n                    yield n\n\n    def __str__(self) -> str:\n        return f\"[{"),
    dict(id="c01-visit-postorder", props=["C01"], file=SEG,
         old="        yield node\n\n        if isinstance(node.value, dict):\n            for name, val in node.value.items():\n                if isinstance(val, (dict, list)):\n                    _node = node.new_child(val, name)\n                    yield from self._visit(_node, depth + 1)\n        elif isinstance(node.value, list):\n            for i, element in enumerate(node.value):\n                if isinstance(element, (dict, list)):\n                    _node = node.new_child(element, i)\n                    yield from self._visit(_node, depth + 1)\n",
         new="        if isinstance(node.value, dict):\n            for name, val in node.value.items():\n                if isinstance(val, (dict, list)):\n                    _node = node.new_child(val, name)\n                    yield from self._visit(_node, depth + 1)\n        elif isinstance(node.value, list):\n            for i, element in enumerate(node.value):\n                if isinstance(element, (dict, list)):\n                    _node = node.new_child(element, i)\n                    yield from self._visit(_node, depth + 1)\n\n        yield node\n"),
    dict(id="c01-visit-skip-lists-in-dicts", props=["C01"], file=SEG,
         old="            for name, val in node.value.items():\n                if isinstance(val, (dict, list)):",
         new="            for name, val in node.value.items():\n                if isinstance(val, dict):"),
    dict(id="c01-visit-sorted-members", props=["C01"], file=SEG,
         old="            for name, val in node.value.items():\n                if isinstance(val, (dict, list)):",
         new="            for name, val in sorted(node.value.items()):\n                if isinstance(val, (dict, list)):"),
    dict(id="c01-visit-reversed-long-arrays", props=["C01"], file=SEG,
         old="            for i, element in enumerate(node.value):\n                if isinstance(element, (dict, list)):\n                    _node = node.new_child(element, i)\n                    yield from self._visit(_node, depth + 1)\n\n    def _nondet",
         new="            items = list(enumerate(node.value))\n            if len(items) > 64:\n                items.reverse()\n            for i, element in items:\n                if isinstance(element, (dict, list)):\n                    _node = node.new_child(element, i)\n                    yield from self._visit(_node, depth + 1)\n\n    def _nondet"),
    dict(id="c01-visit-strings-as-containers", props=["C01"], file=SEG,
         old="                if isinstance(element, (dict, list)):\n                    _node = node.new_child(element, i)\n                    yield from self._visit(_node, depth + 1)\n\n    def _nondet",
         new="                if isinstance(element, (dict, list, str)):\n                    _node = node.new_child(element, i)\n                    yield from self._visit(_node, depth + 1)\n\n    def _nondet"),
    dict(id="c01-name-get-drops-null", props=["C01"], file=SEL,
         old="            with suppress(KeyError):\n                yield node.new_child(node.value[self.name], self.name)",
         new="            val = node.value.get(self.name)\n            if val is not None:\n                yield node.new_child(val, self.name)"),
    dict(id="c01-name-falsy-member-dropped", props=["C01"], file=SEL,
         old="            with suppress(KeyError):\n                yield node.new_child(node.value[self.name], self.name)",
         new="            if node.value.get(self.name):\n                yield node.new_child(node.value[self.name], self.name)"),
    dict(id="c01-index-on-sequence", props=["C01", "C07"], file=SEL,
         old="        if isinstance(node.value, list):\n            norm_index",
         new="        if isinstance(node.value, Sequence):\n            norm_index"),
    dict(id="c01-wildcard-skip-last-when-long", props=["C01"], file=SEL,
         old="            for i, element in enumerate(node.value):\n                yield node.new_child(element, i)\n\n\nclass FilterSelector",
         new="            for i, element in enumerate(node.value[:1000]):\n                yield node.new_child(element, i)\n\n\nclass FilterSelector"),
    dict(id="c01-wildcard-copy-values", props=["C01", "C08"], file=SEL,
         old="            for name, val in members:\n                yield node.new_child(val, name)\n\n        elif isinstance(node.value, list):\n            for i, element in enumerate(node.value):\n                yield node.new_child(element, i)\n\n\nclass FilterSelector",
         new="            for name, val in members:\n                yield node.new_child(val, name)\n\n        elif isinstance(node.value, list):\n            for i, element in enumerate(node.value):\n                yield node.new_child(list(element) if isinstance(element, list) else element, i)\n\n\nclass FilterSelector"),
    dict(id="c01-wildcard-enumerate-from-1", props=["C01", "C08"], file=SEL,
         old="            for i, element in enumerate(node.value):\n                yield node.new_child(element, i)\n\n\nclass FilterSelector",
         new="            for i, element in enumerate(node.value, 1):\n                yield node.new_child(element, i)\n\n\nclass FilterSelector"),
    dict(id="c01-finditer-skip-first-segment-cache", props=["C01"], file=S + "query.py",
         old="        for segment in self.segments:\n            nodes = segment.resolve(nodes)",
         new="        for segment in self.segments[::-1]:\n            nodes = segment.resolve(nodes)"),
    dict(id="c01-finditer-root-copy", props=["C01", "C08"], file=S + "query.py",
         old="                value=value,\n                location=(),\n                root=value,",
         new="                value=value,\n                location=(),\n                root=None,"),
    dict(id="c01-new-child-prepend-key", props=["C01", "C08"], file=S + "node.py",
         old="            location=self.location + (key,),",
         new="            location=(key,) + self.location,"),
    dict(id="c01-descendant-visitor-depth0", props=["C01", "C18"], file=SEG,
         old="            for _node in visitor(node):",
         new="            for _node in visitor(node, 0):"),
    dict(id="c07-norm-index-gt", props=["C07", "C01", "C08"], file=SEL,
         old="        if self.index < 0 and len(obj) >= abs(self.index):",
         new="        if self.index < 0 and len(obj) > abs(self.index):"),
    dict(id="c07-norm-index-minus", props=["C07", "C01", "C08"], file=SEL,
         old="            return len(obj) + self.index\n",
         new="            return len(obj) + self.index - 1\n"),
    dict(id="c07-index-drop-suppress-handler", props=["C07", "C01"], file=SEL,
         old="            with suppress(IndexError):\n                yield node.new_child(node.value[self.index], norm_index)",
         new="            if self.index < len(node.value):\n                yield node.new_child(node.value[self.index], norm_index)"),
    dict(id="c07-slice-no-zero-guard", props=["C07", "C01"], file=SEL,
         old="        if isinstance(node.value, list) and self.slice.step != 0:",
         new="        if isinstance(node.value, list):"),
    dict(id="c07-slice-other-slice", props=["C07", "C01"], file=SEL,
         old="range(*self.slice.indices(len(node.value))), node.value[self.slice]",
         new="range(*self.slice.indices(len(node.value))), node.value[:: self.slice.step]"),
    dict(id="c07-slice-indices-len-minus-1", props=["C07", "C01", "C08"], file=SEL,
         old="range(*self.slice.indices(len(node.value))), node.value[self.slice]",
         new="range(*self.slice.indices(len(node.value) - 1)), node.value[self.slice]"),
]

MUTANTS += [
    dict(id="c18-visit-ge", props=["C18"], file=SEG,
         old="        if depth > self.env.max_recursion_depth:", new="        if depth >= self.env.max_recursion_depth:"),
    dict(id="c18-visit-constant-limit", props=["C18"], file=SEG,
         old="        if depth > self.env.max_recursion_depth:", new="        if depth > 100:"),
    dict(id="c18-visit-depth-plus-2-in-lists", props=["C18"], file=SEG,
         old="                    _node = node.new_child(element, i)\n                    yield from self._visit(_node, depth + 1)",
         new="                    _node = node.new_child(element, i)\n                    yield from self._visit(_node, depth + 2)"),
    dict(id="c18-visit-no-increment-dict", props=["C18"], file=SEG,
         old="                    _node = node.new_child(val, name)\n                    yield from self._visit(_node, depth + 1)",
         new="                    _node = node.new_child(val, name)\n                    yield from self._visit(_node, depth)"),
    dict(id="c18-visit-guard-after-yield", props=["C18"], file=SEG,
         old="        if depth > self.env.max_recursion_depth:\n            raise JSONPathRecursionError(\"recursion limit exceeded\", token=self.token)\n\n        yield node\n",
         new="        yield node\n\n        if depth > self.env.max_recursion_depth:\n            raise JSONPathRecursionError(\"recursion limit exceeded\", token=self.token)\n"),
    dict(id="c18-visit-wrong-exception", props=["C18"], file=SEG,
         old="            raise JSONPathRecursionError(\"recursion limit exceeded\", token=self.token)\n\n        yield node",
         new="            raise RecursionError(\"recursion limit exceeded\")\n\n        yield node"),
    dict(id="c18-nondet-no-guard", props=["C18"], file=SEG,
         old="            if depth >= self.env.max_recursion_depth:\n                raise JSONPathRecursionError(\n                    \"recursion limit exceeded\", token=self.token\n                )\n",
         new=""),
    dict(id="c18-nondet-gt", props=["C18"], file=SEG,
         old="            if depth >= self.env.max_recursion_depth:", new="            if depth > self.env.max_recursion_depth + 1:"),
    dict(id="c18-nondet-child-depth-same", props=["C18"], file=SEG,
         old="                    queue.append((child, depth + 1))", new="                    queue.append((child, depth))"),
    dict(id="c18-nondet-grandchild-plus-1", props=["C18"], file=SEG,
         old="                        (child, depth + 2)", new="                        (child, depth + 1)"),
    dict(id="c17-shuffle-document-list", props=["C17", "C14"], file=SEL,
         old="        elif isinstance(node.value, list):\n            for i, element in enumerate(node.value):\n                yield node.new_child(element, i)\n\n\nclass FilterSelector",
         new="        elif isinstance(node.value, list):\n            if self.env.nondeterministic:\n                random.shuffle(node.value)\n            for i, element in enumerate(node.value):\n                yield node.new_child(element, i)\n\n\nclass FilterSelector"),
    dict(id="c17-wildcard-shuffle-array-copy", props=["C17"], file=SEL,
         old="        elif isinstance(node.value, list):\n            for i, element in enumerate(node.value):\n                yield node.new_child(element, i)\n\n\nclass FilterSelector",
         new="        elif isinstance(node.value, list):\n            pairs = list(enumerate(node.value))\n            if self.env.nondeterministic:\n                random.shuffle(pairs)\n            for i, element in pairs:\n                yield node.new_child(element, i)\n\n\nclass FilterSelector"),
    dict(id="c17-wildcard-shuffle-when-det", props=["C17", "C01"], file=SEL,
         old="        if isinstance(node.value, dict):\n            if self.env.nondeterministic:\n                _members = list(node.value.items())\n                random.shuffle(_members)\n                members: Iterable[Any] = iter(_members)\n            else:\n                members = node.value.items()\n\n            for name, val in members:\n                yield node.new_child(val, name)",
         new="        if isinstance(node.value, dict):\n            _members = list(node.value.items())\n            random.shuffle(_members)\n            members: Iterable[Any] = iter(_members)\n\n            for name, val in members:\n                yield node.new_child(val, name)"),
    dict(id="c17-nondet-children-expanded-before-yield", props=["C17"], file=SEG,
         old="            node, depth = queue.popleft()\n            yield node\n", new="            node, depth = queue.popleft()\n"),
    dict(id="c17-nondet-coin-always-true", props=["C17"], file=SEG,
         old="random.choice([True, False])", new="random.choice([True, True])"),
    dict(id="c17-nondet-visit-now-also-queues", props=["C17"], file=SEG,
         old="                if visit_children:\n                    yield child\n", new="                if visit_children:\n                    yield child\n                    queue.append((child, depth + 1))\n"),
    dict(id="c17-nondet-drops-pending-queue", props=["C17"], file=SEG,
         old="                                [iter(queue)] * len(queue)\n                                + [iter(grandchildren)] * len(grandchildren),\n                                len(queue) + len(grandchildren),",
         new="                                [iter(grandchildren)] * len(grandchildren),\n                                len(grandchildren),"),
    dict(id="c17-children-sorted-members", props=["C17"], file=SEG,
         old="        items = list(node.value.items())\n        random.shuffle(items)", new="        items = sorted(node.value.items())"),
    dict(id="c17-descendant-nondet-uses-det-visitor", props=["C17"], file=SEG,
         old="            self._nondeterministic_visit if self.env.nondeterministic else self._visit", new="            self._visit if self.env.nondeterministic else self._visit"),
]

FE = S + "filter_expressions.py"

MUTANTS += [
    dict(id="c02-revert-bare-at-scalar-fix", props=["C02"], file=FE,
         old="        # Start from the current node, but keep the root",
         new="        if not isinstance(context.current, (list, dict)):\n            if self.query.empty():\n                return context.current\n            return JSONPathNodeList()\n\n        # Start from the current node, but keep the root"),
    dict(id="c02-revert-nested-root-fix", props=["C02"], file=FE,
         old="            JSONPathNode(value=context.current, location=(), root=context.root)",
         new="            JSONPathNode(value=context.current, location=(), root=context.current)"),
    dict(id="c02-truthy-uses-node-value", props=["C02"], file=FE,
         old="    if isinstance(obj, JSONPathNodeList) and len(obj) == 0:\n        return False",
         new="    if isinstance(obj, JSONPathNodeList) and len(obj) == 0:\n        return False\n    if isinstance(obj, JSONPathNodeList) and len(obj) == 1:\n        return obj[0].value is not None"),
    dict(id="c02-truthy-single-falsy-value", props=["C02"], file=FE,
         old="    if isinstance(obj, JSONPathNodeList) and len(obj) == 0:\n        return False",
         new="    if isinstance(obj, JSONPathNodeList) and len(obj) == 0:\n        return False\n    if isinstance(obj, JSONPathNodeList) and len(obj) == 1:\n        return bool(obj[0].value) or obj[0].value is None"),
    dict(id="c02-and-or-swapped", props=["C02"], file=FE,
         old="        return _is_truthy(left) and _is_truthy(right)\n    if operator == \"||\":\n        return _is_truthy(left) or _is_truthy(right)",
         new="        return _is_truthy(left) or _is_truthy(right)\n    if operator == \"||\":\n        return _is_truthy(left) and _is_truthy(right)"),
    dict(id="c02-root-query-uses-current", props=["C02"], file=FE,
         old="        return JSONPathNodeList(self.query.find(context.root))", new="        return JSONPathNodeList(self.query.find(context.current))"),
    dict(id="c02-precedence-and-or-swapped", props=["C02"], file=S + "parse.py",
         old="    PRECEDENCE_LOGICAL_OR = 3\n    PRECEDENCE_LOGICAL_AND = 4", new="    PRECEDENCE_LOGICAL_OR = 4\n    PRECEDENCE_LOGICAL_AND = 3"),
    dict(id="c02-token-map-swapped", props=["C02"], file=S + "parse.py",
         old="            TokenType.ROOT: self.parse_root_query,\n            TokenType.CURRENT: self.parse_relative_query,\n            TokenType.SINGLE_QUOTE_STRING: self.parse_string_literal,\n            TokenType.TRUE: self.parse_boolean,\n        }\n\n        self.function_argument_map",
         new="            TokenType.ROOT: self.parse_relative_query,\n            TokenType.CURRENT: self.parse_root_query,\n            TokenType.SINGLE_QUOTE_STRING: self.parse_string_literal,\n            TokenType.TRUE: self.parse_boolean,\n        }\n\n        self.function_argument_map"),
    dict(id="c02-filter-context-current-node", props=["C02"], file=SEL,
         old="                context = FilterContext(\n                    env=self.env,\n                    current=element,\n                    root=node.root,\n                )",
         new="                context = FilterContext(\n                    env=self.env,\n                    current=element,\n                    root=node.value,\n                )"),
    dict(id="c02-filter-shared-context", props=["C02", "C16"], file=SEL,
         old="            for i, element in enumerate(node.value):\n                context = FilterContext(\n                    env=self.env,\n                    current=element,\n                    root=node.root,\n                )\n                try:\n                    if self.expression.evaluate(context):",
         new="            self._ctx = FilterContext(env=self.env, current=None, root=node.root)\n            for i, element in enumerate(node.value):\n                context = self._ctx\n                context.current = element\n                try:\n                    if self.expression.evaluate(context):"),
    dict(id="c02-filter-list-skips-falsy-elements", props=["C02"], file=SEL,
         old="            for i, element in enumerate(node.value):\n                context = FilterContext(",
         new="            for i, element in enumerate(node.value):\n                if element is None:\n                    continue\n                context = FilterContext("),
    dict(id="c02-filter-dict-yields-wrong-value", props=["C02", "C08"], file=SEL,
         old="                    if self.expression.evaluate(context):\n                        yield node.new_child(val, name)",
         new="                    if self.expression.evaluate(context):\n                        yield node.new_child(dict(val) if isinstance(val, dict) else val, name)"),
    dict(id="c02-filter-swallow-type-error", props=["C02"], file=SEL,
         old="                except JSONPathTypeError as err:\n                    if not err.token:\n                        err.token = self.token\n                    raise\n\n        elif isinstance(node.value, list):",
         new="                except JSONPathTypeError:\n                    continue\n\n        elif isinstance(node.value, list):"),
]

ENV = S + "environment.py"
PARSE = S + "parse.py"

MUTANTS += [
    dict(id="c10-revert-logical-conversion-fix", props=["C10"], file=FE,
         old="            if func.arg_types[idx] == ExpressionType.LOGICAL and isinstance(\n                arg, JSONPathNodeList\n            ):\n                # A nodelist passed to a LogicalType parameter is an existence test.\n                _args.append(len(arg) > 0)\n            elif func.arg_types",
         new="            if func.arg_types"),
    dict(id="c10-value-param-empty-gets-none", props=["C10"], file=FE,
         old="                    _args.append(NOTHING)\n                elif len(arg) == 1:", new="                    _args.append(None)\n                elif len(arg) == 1:"),
    dict(id="c10-nodes-param-unpacked-when-single", props=["C10"], file=FE,
         old="            elif func.arg_types[idx] != ExpressionType.NODES and isinstance(", new="            elif (func.arg_types[idx] != ExpressionType.NODES or len(func.arg_types) > 1) and isinstance("),
    dict(id="c10-length-of-number-zero", props=["C10"], file=S + "function_extensions/length.py",
         old="        except TypeError:\n            return NOTHING", new="        except TypeError:\n            return 0"),
    dict(id="c10-length-no-guard", props=["C10", "C13"], file=S + "function_extensions/length.py",
         old="        try:\n            return len(obj)\n        except TypeError:\n            return NOTHING", new="        return len(obj)"),
    dict(id="c10-length-strings-bytes", props=["C10"], file=S + "function_extensions/length.py",
         old="        try:\n            return len(obj)", new="        try:\n            if isinstance(obj, str):\n                return len(obj.encode())\n            return len(obj)"),
    dict(id="c10-value-first-of-many", props=["C10"], file=S + "function_extensions/value.py",
         old="        if len(nodes) == 1:", new="        if len(nodes) >= 1:"),
    dict(id="c10-count-distinct", props=["C10"], file=S + "function_extensions/count.py",
         old="        return len(node_list)", new="        return len({id(n.value) for n in node_list})"),
    dict(id="c10-count-signature-value", props=["C10"], file=S + "function_extensions/count.py",
         old="    arg_types = [ExpressionType.NODES]", new="    arg_types = [ExpressionType.VALUE]"),
    dict(id="c10-call-result-truthified", props=["C10"], file=FE,
         old="        return func(*self._unpack_node_lists(func, args))", new="        return func(*self._unpack_node_lists(func, args)) or NOTHING"),
    dict(id="c05-revert-logical-typing-fix", props=["C05"], file=ENV,
         old="                    or self._function_return_type(arg)\n                    in (ExpressionType.LOGICAL, ExpressionType.NODES)\n", new=""),
    dict(id="c05-revert-uncompared-fix-prefix", props=["C05"], file=PARSE,
         old="        self._raise_for_uncompared_value(right, tok)\n        return PrefixExpression(", new="        return PrefixExpression("),
    dict(id="c05-arity-le", props=["C05"], file=ENV,
         old="        if len(args) != len(func.arg_types):", new="        if len(args) > len(func.arg_types):"),
    dict(id="c05-value-accepts-nonsingular", props=["C05"], file=ENV,
         old="                    or (isinstance(arg, FilterQuery) and arg.query.singular_query())", new="                    or isinstance(arg, FilterQuery)"),
    dict(id="c05-nodes-accepts-literal", props=["C05"], file=ENV,
         old="            elif typ == ExpressionType.NODES and not (\n                isinstance(arg, FilterQuery)", new="            elif typ == ExpressionType.NODES and not (\n                isinstance(arg, (FilterQuery, FilterExpressionLiteral))"),
    dict(id="c05-only-first-arg-checked", props=["C05"], file=ENV,
         old="        for idx, typ in enumerate(func.arg_types):\n            arg = args[idx]", new="        for idx, typ in enumerate(func.arg_types[:1]):\n            arg = args[idx]"),
    dict(id="c05-nonsingular-compare-allowed-right", props=["C05"], file=PARSE,
         old="            self._raise_for_non_comparable_function(left, tok)\n            self._raise_for_non_comparable_function(right, tok)", new="            self._raise_for_non_comparable_function(left, tok)"),
    dict(id="c05-singular-allows-descendant-name", props=["C05"], file=S + "query.py",
         old="            if isinstance(segment, JSONPathRecursiveDescentSegment):\n                return False\n", new=""),
    dict(id="c05-singular-allows-two-names", props=["C05"], file=S + "query.py",
         old="            if len(segment.selectors) == 1 and isinstance(", new="            if len(segment.selectors) >= 1 and isinstance("),
    dict(id="c05-index-bound-off-by-one", props=["C05"], file=SEL,
         old="        if index < env.min_int_index or index > env.max_int_index:", new="        if index < env.min_int_index or index >= env.max_int_index:"),
    dict(id="c05-slice-step-unchecked", props=["C05"], file=SEL,
         old="        self._check_range(start, stop, step)", new="        self._check_range(start, stop)"),
    dict(id="c05-slice-range-uses-default-bounds", props=["C05"], file=SEL,
         old="                i < self.env.min_int_index or i > self.env.max_int_index\n", new="                i < -(2**53) + 1 or i > (2**53) - 1\n"),
    dict(id="c05-unknown-function-accepted", props=["C05"], file=ENV,
         old="        except KeyError as err:\n            raise JSONPathNameError(\n                f\"function {token.value!r} is not defined\", token=token\n            ) from err\n",
         new="        except KeyError:\n            return args\n"),
    dict(id="c05-max-int-index-2-54", props=["C05"], file=ENV,
         old="    max_int_index = (2**53) - 1", new="    max_int_index = (2**54) - 1"),
]

LEX = S + "lex.py"

MUTANTS += [
    dict(id="c09-revert-u-escape-control-fix", props=["C09"], file=PARSE,
         old="            return chr(codepoint), index", new="            return self._string_from_codepoint(codepoint, token), index"),
    dict(id="c09-b-is-bell", props=["C09"], file=PARSE, old='            return "\\x08", index', new='            return "\\x07", index'),
    dict(id="c09-accept-v-escape", props=["C09"], file=PARSE,
         old='        if ch == "t":\n            return "\\t", index', new='        if ch == "t":\n            return "\\t", index\n        if ch == "v":\n            return "\\x0b", index'),
    dict(id="c09-high-surrogate-dbfe", props=["C09"], file=PARSE, old="codepoint >= 0xD800 and codepoint <= 0xDBFF", new="codepoint >= 0xD800 and codepoint <= 0xDBFE"),
    dict(id="c09-low-surrogate-dc01", props=["C09"], file=PARSE, old="codepoint >= 0xDC00 and codepoint <= 0xDFFF", new="codepoint >= 0xDC01 and codepoint <= 0xDFFF"),
    dict(id="c09-pair-shift-9", props=["C09"], file=PARSE, old="((codepoint & 0x03FF) << 10)", new="((codepoint & 0x03FF) << 9)"),
    dict(id="c09-pair-base-1000", props=["C09"], file=PARSE, old="            codepoint = 0x10000 + (", new="            codepoint = 0x1000 + ("),
    dict(id="c09-pair-mask-1ff", props=["C09"], file=PARSE, old="| (low_surrogate & 0x03FF)", new="| (low_surrogate & 0x01FF)"),
    dict(id="c09-hex-accept-g", props=["C09"], file=PARSE, old="            elif digit >= 65 and digit <= 70:", new="            elif digit >= 65 and digit <= 71:"),
    dict(id="c09-hex-lower-value-off", props=["C09"], file=PARSE, old="                codepoint |= digit - 97 + 10", new="                codepoint |= digit - 97 + 11"),
    dict(id="c09-hex-uppercase-only", props=["C09"], file=PARSE,
         old="            elif digit >= 97 and digit <= 102:\n                codepoint |= digit - 97 + 10\n", new=""),
    dict(id="c09-raw-control-allowed", props=["C09"], file=PARSE,
         old="                self._string_from_codepoint(ord(ch), token)\n                unescaped.append(ch)", new="                unescaped.append(ch)"),
    dict(id="c09-raw-del-rejected", props=["C09"], file=PARSE, old="        if codepoint <= 0x1F:", new="        if codepoint <= 0x1F or codepoint == 0x7F:"),
    dict(id="c09-lone-low-accepted", props=["C09"], file=PARSE,
         old="        if self._is_low_surrogate(codepoint):\n            raise JSONPathSyntaxError(\n                f\"unexpected low surrogate at index {token.index + index - 1}\",\n                token=token,\n            )\n", new=""),
    dict(id="c09-high-without-low-accepted", props=["C09"], file=PARSE,
         old="            if not self._is_low_surrogate(low_surrogate):", new="            if low_surrogate < 0xD800:"),
    dict(id="c09-second-digits-off-by-one", props=["C09"], file=PARSE, old="value[index + 6 : index + 10]", new="value[index + 5 : index + 9]"),
    dict(id="c09-nonsurrogate-index-short", props=["C09"], file=PARSE, old="        return (codepoint, index + 3)", new="        return (codepoint, index + 2)"),
    dict(id="c09-truncation-check-gt", props=["C09"], file=PARSE, old="        if index + 4 >= length:", new="        if index + 4 > length:"),
    dict(id="c09-escapes-missing-slash", props=["C09", "C03"], file=LEX, old='ESCAPES = frozenset(["b", "f", "n", "r", "t", "u", "/", "\\\\"])', new='ESCAPES = frozenset(["b", "f", "n", "r", "t", "u", "\\\\"])'),
    dict(id="c09-lexer-accepts-other-quote-escape", props=["C09", "C04"], file=LEX, old="                if peeked in ESCAPES or peeked == quote:", new="                if peeked in ESCAPES or peeked in \"'\\\"\":"),
    dict(id="c09-normalise-order-swapped", props=["C09"], file=PARSE,
         old="value = token.value.replace('\"', '\\\\\"').replace(\"\\\\'\", \"'\")", new="value = token.value.replace(\"\\\\'\", \"'\").replace(\"'\", '\\\\\"')"),
    dict(id="c09-normalise-no-dquote-escape", props=["C09"], file=PARSE,
         old="value = token.value.replace('\"', '\\\\\"').replace(\"\\\\'\", \"'\")", new="value = token.value.replace(\"\\\\'\", \"'\")"),
    dict(id="c09-escape-index-advanced", props=["C09"], file=PARSE, old='        if ch == "/":\n            return "/", index', new='        if ch == "/":\n            return "/", index + 1'),
]

SER = S + "serialize.py"
NODE = S + "node.py"

MUTANTS += [
    dict(id="c08-revert-u-escape-fix-roundtrip", props=["C08"], file=PARSE,
         old="            return chr(codepoint), index", new="            return self._string_from_codepoint(codepoint, token), index"),
    dict(id="c08-writer-no-squote-escape", props=["C08", "C12"], file=SER, old='        .replace("\'", "\\\\\'")\n', new=""),
    dict(id="c08-writer-keeps-dquote-escape", props=["C08", "C12"], file=SER, old="        .replace('\\\\\"', '\"')\n", new=""),
    dict(id="c08-writer-ensure-ascii", props=["C08", "C12"], file=SER, old="json.dumps(value, ensure_ascii=False)", new="json.dumps(value)"),
    dict(id="c08-writer-double-quotes", props=["C08", "C12"], file=SER, old="    return f\"'{single_quoted}'\"", new="    return f'\"{single_quoted}\"'"),
    dict(id="c08-writer-escapes-slash", props=["C08", "C12"], file=SER, old='        .replace("\'", "\\\\\'")\n', new='        .replace("\'", "\\\\\'")\n        .replace("/", "\\\\/")\n'),
    dict(id="c08-writer-replace-order", props=["C08", "C12"], file=SER,
         old="        .replace('\\\\\"', '\"')\n        .replace(\"'\", \"\\\\'\")\n", new="        .replace(\"'\", \"\\\\'\")\n        .replace('\\\\\"', \"'\")\n"),
    dict(id="c08-path-dot-notation-for-simple-names", props=["C08"], file=NODE,
         old='            f"[{canonical_string(p)}]" if isinstance(p, str) else f"[{p}]"',
         new='            (f".{p}" if p.isidentifier() else f"[{canonical_string(p)}]") if isinstance(p, str) else f"[{p}]"'),
    dict(id="c08-path-reversed", props=["C08"], file=NODE, old="            for p in self.location\n", new="            for p in reversed(self.location)\n"),
    dict(id="c08-path-repr-names", props=["C08"], file=NODE,
         old='            f"[{canonical_string(p)}]" if isinstance(p, str) else f"[{p}]"', new='            f"[{p!r}]" if isinstance(p, str) else f"[{p}]"'),
    dict(id="c08-values-dedup", props=["C08"], file=NODE, old="        return [node.value for node in self]", new="        return [node.value for node in self if node.value is not None]"),
    dict(id="c08-items-swapped", props=["C08"], file=NODE, old="        return [(node.path(), node.value) for node in self]", new="        return [(node.value, node.path()) for node in self]"),
    dict(id="c08-paths-sorted", props=["C08"], file=NODE, old="        return [node.path() for node in self]", new="        return sorted(node.path() for node in self)"),
    dict(id="c08-slice-key-from-enumerate", props=["C08", "C07", "C01"], file=SEL,
         old="            for idx, element in zip(  # noqa: B905\n                range(*self.slice.indices(len(node.value))), node.value[self.slice]\n            ):\n                yield node.new_child(element, idx)",
         new="            for idx, element in enumerate(node.value[self.slice]):\n                yield node.new_child(element, idx)"),
]

MUTANTS += [
    dict(id="c03-ws-drop-cr", props=["C03"], file=LEX, old='RE_WHITESPACE = re.compile(r"[ \\n\\r\\t]+")', new='RE_WHITESPACE = re.compile(r"[ \\n\\t]+")'),
    dict(id="c04-ws-unicode-spaces", props=["C04"], file=LEX, old='RE_WHITESPACE = re.compile(r"[ \\n\\r\\t]+")', new='RE_WHITESPACE = re.compile(r"\\s+")'),
    dict(id="c03-revert-shorthand-astral", props=["C03"], file=LEX,
         old='    r"[\\u0080-\\uD7FF\\uE000-\\U0010FFFFa-zA-Z_]"\n    r"[\\u0080-\\uD7FF\\uE000-\\U0010FFFFa-zA-Z0-9_]*"',
         new='    r"[\\u0080-\\uD7FF\\uE000-\\uFFFFa-zA-Z_]"\n    r"[\\u0080-\\uD7FF\\uE000-\\uFFFFa-zA-Z0-9_]*"'),
    dict(id="c04-revert-shorthand-hyphen", props=["C04"], file=LEX,
         old='    r"[\\u0080-\\uD7FF\\uE000-\\U0010FFFFa-zA-Z0-9_]*"', new='    r"[\\u0080-\\uD7FF\\uE000-\\U0010FFFFa-zA-Z0-9_-]*"'),
    dict(id="c04-shorthand-digit-first", props=["C04"], file=LEX,
         old='    r"[\\u0080-\\uD7FF\\uE000-\\U0010FFFFa-zA-Z_]"\n', new='    r"[\\u0080-\\uD7FF\\uE000-\\U0010FFFFa-zA-Z0-9_]"\n'),
    dict(id="c03-exponent-lowercase-only", props=["C03"], file=LEX, old='RE_INT = re.compile(r"-?[0-9]+(?:[eE]\\+?[0-9]+)?")', new='RE_INT = re.compile(r"-?[0-9]+(?:e\\+?[0-9]+)?")'),
    dict(id="c04-int-unicode-digits", props=["C04"], file=LEX, old='RE_INDEX = re.compile(r"-?[0-9]+")', new='RE_INDEX = re.compile(r"-?\\d+")'),
    dict(id="c04-index-plus-sign", props=["C04"], file=LEX, old='RE_INDEX = re.compile(r"-?[0-9]+")', new='RE_INDEX = re.compile(r"[-+]?[0-9]+")'),
    dict(id="c04-index-minus-zero-selector", props=["C04"], file=PARSE,
         old='                    ) or stream.current.value.startswith("-0"):', new='                    ):'),
    dict(id="c04-slice-leading-zero", props=["C04"], file=PARSE,
         old='                if len(token.value) > 1 and token.value.startswith(("0", "-0")):', new='                if len(token.value) > 1 and token.value.startswith("0"):'),
    dict(id="c03-index-zero-rejected", props=["C03"], file=PARSE,
         old='                        len(stream.current.value) > 1\n                        and stream.current.value.startswith("0")\n                    )',
         new='                        stream.current.value.startswith("0")\n                    )'),
    dict(id="c03-revert-leading-zero-fix-0e1", props=["C03"], file=PARSE,
         old="        if RE_LEADING_ZERO.match(value):\n            raise JSONPathSyntaxError(\"invalid integer literal\", token=stream.current)",
         new="        if value.startswith(\"0\") and len(value) > 1:\n            raise JSONPathSyntaxError(\"invalid integer literal\", token=stream.current)"),
    dict(id="c04-revert-leading-zero-fix-float", props=["C04"], file=PARSE,
         old="        if RE_LEADING_ZERO.match(value):\n            raise JSONPathSyntaxError(\"invalid float literal\", token=stream.current)",
         new="        if value.startswith(\"0\") and len(value.split(\".\")[0]) > 1:\n            raise JSONPathSyntaxError(\"invalid float literal\", token=stream.current)"),
    dict(id="c04-function-name-uppercase", props=["C04"], file=LEX, old='RE_FUNCTION_CALL = re.compile(r"[a-z][a-z_0-9]*(?=\\()")', new='RE_FUNCTION_CALL = re.compile(r"[a-zA-Z][a-z_0-9]*(?=\\()")'),
    dict(id="c03-function-name-no-digits", props=["C03"], file=LEX, old='RE_FUNCTION_CALL = re.compile(r"[a-z][a-z_0-9]*(?=\\()")', new='RE_FUNCTION_CALL = re.compile(r"[a-z][a-z_]*(?=\\()")'),
    dict(id="c04-keyword-uppercase-true", props=["C04"], file=LEX, old='        elif l.accept("true"):\n            l.emit(TokenType.TRUE)', new='        elif l.accept("true") or l.accept("TRUE"):\n            l.emit(TokenType.TRUE)'),
    dict(id="c03-missing-le-operator", props=["C03"], file=LEX,
         old='        if c == "<":\n            if l.peek() == "=":\n                l.next()\n                l.emit(TokenType.LE)\n            else:\n                l.emit(TokenType.LT)\n            continue',
         new='        if c == "<":\n            l.emit(TokenType.LT)\n            continue'),
    dict(id="c04-single-equals-accepted", props=["C04"], file=LEX,
         old='            l.backup()\n            l.error(f"unexpected filter selector token {c!r}")\n            return None\n\n        if c == "<":', new='            l.emit(TokenType.EQ)\n            continue\n\n        if c == "<":'),
    dict(id="c04-whitespace-after-dot", props=["C04"], file=LEX,
         old='    if l.accept_match(RE_WHITESPACE):\n        l.error("unexpected whitespace after dot")\n        return None\n', new='    if l.accept_match(RE_WHITESPACE):\n        l.ignore()\n'),
    dict(id="c04-trailing-whitespace-ok", props=["C04"], file=LEX,
         old='    if l.ignore_whitespace() and not l.peek():\n        l.error("unexpected trailing whitespace")\n        return None\n', new='    l.ignore_whitespace()\n'),
    dict(id="c03-no-blank-skip-in-filter", props=["C03"], file=LEX,
         old='def lex_inside_filter(l: Lexer) -> Optional[StateFn]:  # noqa: D103, PLR0915, PLR0912, PLR0911\n    while True:\n        l.ignore_whitespace()\n', new='def lex_inside_filter(l: Lexer) -> Optional[StateFn]:  # noqa: D103, PLR0915, PLR0912, PLR0911\n    while True:\n'),
    dict(id="c04-root-optional", props=["C04"], file=LEX,
         old='    if c != "$":\n        l.error(f"expected \'$\', found {c!r}")\n        return None\n', new='    if c != "$":\n        l.backup()\n        return lex_segment\n'),
    dict(id="c03-revert-function-argument-prefixes", props=["C03"], file=PARSE,
         old="            TokenType.INT: self.parse_integer_literal,\n            TokenType.LPAREN: self.parse_grouped_expression,\n            TokenType.NOT: self.parse_prefix_expression,\n            TokenType.NULL: self.parse_null,\n            TokenType.ROOT: self.parse_root_query,\n            TokenType.CURRENT: self.parse_relative_query,\n            TokenType.SINGLE_QUOTE_STRING: self.parse_string_literal,\n            TokenType.TRUE: self.parse_boolean,\n        }\n\n    def parse(",
         new="            TokenType.INT: self.parse_integer_literal,\n            TokenType.NULL: self.parse_null,\n            TokenType.ROOT: self.parse_root_query,\n            TokenType.CURRENT: self.parse_relative_query,\n            TokenType.SINGLE_QUOTE_STRING: self.parse_string_literal,\n            TokenType.TRUE: self.parse_boolean,\n        }\n\n    def parse("),
    dict(id="c04-revert-comparand-fix", props=["C04"], file=PARSE,
         old="        if isinstance(\n            expr, (ComparisonExpression, LogicalExpression, PrefixExpression)\n        ):\n            raise JSONPathSyntaxError(\n                \"logical expressions are not comparable\", token=token\n            )\n", new=""),
    dict(id="c04-revert-double-not-fix", props=["C04"], file=PARSE,
         old="        if stream.current.type_ == TokenType.NOT:\n            # `!` applies to a test or a parenthesised expression, not to another `!`.\n            raise JSONPathSyntaxError(\"unexpected '!'\", token=stream.current)\n", new=""),
    dict(id="c04-revert-args-trailing-comma-fix", props=["C04"], file=PARSE,
         old="                stream.next_token()\n                stream.expect_peek_not(TokenType.RPAREN, \"unexpected trailing comma\")\n\n            stream.next_token()\n\n        return FunctionExtension(", new="                stream.next_token()\n\n            stream.next_token()\n\n        return FunctionExtension("),
    dict(id="c04-revert-slice-typestate-fix", props=["C04"], file=PARSE,
         old="        # A step can only follow a second colon.\n        if stream.current.type_ == TokenType.COLON:\n            stream.next_token()\n\n            # 1 or ?\n            if _maybe_index(stream.current):\n                step = self._parse_index(stream.current)\n                stream.next_token()\n",
         new="        if stream.current.type_ == TokenType.COLON:\n            stream.next_token()\n\n        if _maybe_index(stream.current):\n            step = self._parse_index(stream.current)\n            stream.next_token()\n"),
    dict(id="c04-revert-paren-comparand-fix", props=["C04"], file=PARSE,
         old="        if self.BINARY_OPERATORS.get(stream.peek.type_) in self.COMPARISON_OPERATORS:\n            raise JSONPathSyntaxError(\n                \"parenthesized expressions are not comparable\", token=stream.peek\n            )\n\n        return expr", new="        return expr"),
    dict(id="c04-selection-trailing-comma", props=["C04"], file=PARSE,
         old="                stream.expect_peek_not(TokenType.RBRACKET, \"unexpected trailing comma\")\n", new=""),
    dict(id="c04-empty-segment-ok", props=["C04"], file=PARSE,
         old="        if not selectors:\n            raise JSONPathSyntaxError(\"empty bracketed segment\", token=tok)\n", new=""),
    dict(id="c04-trailing-tokens-ok", props=["C04"], file=PARSE,
         old="        if stream.current.type_ != TokenType.EOF:\n            raise JSONPathSyntaxError(\n                f\"unexpected token {stream.current.value!r}\",\n                token=stream.current,\n            )\n", new=""),
    dict(id="c07-slice-swap-start-stop", props=["C07"], file=PARSE,
         old="        return SliceSelector(\n            env=self.env,\n            token=tok,\n            start=start,\n            stop=stop,", new="        return SliceSelector(\n            env=self.env,\n            token=tok,\n            start=stop,\n            stop=start,"),
    dict(id="c07-slice-default-step-zero", props=["C07"], file=PARSE,
         old="        step: Optional[int] = None\n\n        def _maybe_index", new="        step: Optional[int] = 0\n\n        def _maybe_index"),
    dict(id="c03-string-raw-del-rejected", props=["C03"], file=PARSE, old="        if codepoint <= 0x1F:", new="        if codepoint <= 0x1F or codepoint == 0x7F:"),
    dict(id="c04-string-raw-control-ok", props=["C04"], file=PARSE, old="        if codepoint <= 0x1F:", new="        if codepoint <= 0x08:"),
]

QUERY = S + "query.py"

MUTANTS += [
    dict(id="c14-memo-by-id-root", props=["C14", "C16"], file=FE,
         old="        return JSONPathNodeList(self.query.find(context.root))",
         new="        cache = self.__dict__.setdefault('_c', {}) if hasattr(self, '__dict__') else _ROOT_CACHE\n        key = id(context.root)\n        if key not in cache:\n            cache[key] = JSONPathNodeList(self.query.find(context.root))\n        return cache[key]"),
    dict(id="c14-module-level-root-cache", props=["C14", "C16"], file=FE,
         old="        return JSONPathNodeList(self.query.find(context.root))",
         new="        key = (id(self), id(context.root))\n        if key not in _ROOT_CACHE:\n            _ROOT_CACHE[key] = JSONPathNodeList(self.query.find(context.root))\n        return _ROOT_CACHE[key]\n\n\n_ROOT_CACHE: dict = {}\n\n\nclass _Unused:\n    def _u(self) -> None:\n        return None"),
    dict(id="c14-registry-class-level", props=["C14"], file=ENV,
         old="        self.function_extensions: Dict[str, FilterFunction] = {}\n        \"\"\"A list of function extensions available to filters.\"\"\"\n",
         new="        self.function_extensions: Dict[str, FilterFunction] = self._REGISTRY\n"),
    dict(id="c14-default-env-subclass-mutation", props=["C14"], file=S + "__init__.py",
         old="DEFAULT_ENV = JSONPathEnvironment()", new="DEFAULT_ENV = JSONPathEnvironment()\nDEFAULT_ENV.function_extensions.pop(\"value\", None)\nDEFAULT_ENV = type(\"E\", (JSONPathEnvironment,), {})()"),
    dict(id="c14-sort-document-members", props=["C14", "C01"], file=SEL,
         old="            for i, element in enumerate(node.value):\n                yield node.new_child(element, i)\n\n\nclass FilterSelector",
         new="            node.value.sort(key=repr) if len(node.value) > 10_000 else None\n            for i, element in enumerate(node.value):\n                yield node.new_child(element, i)\n\n\nclass FilterSelector"),
    dict(id="c14-query-last-result-attr", props=["C14", "C16"], file=QUERY,
         old="        for segment in self.segments:\n            nodes = segment.resolve(nodes)\n\n        return nodes",
         new="        for segment in self.segments:\n            nodes = segment.resolve(nodes)\n\n        self.env._last = nodes\n        return nodes"),
    dict(id="c14-time-import-in-segments", props=["C14"], file=SEG, old="import random\n", new="import random\nimport time\n"),
    dict(id="c16-selector-counter-state", props=["C16", "C14"], file=SEL,
         old="            for i, element in enumerate(node.value):\n                context = FilterContext(",
         new="            self.token.index += 0\n            for i, element in enumerate(node.value):\n                context = FilterContext("),
    dict(id="c16-segment-visited-set-on-self", props=["C16", "C14"], file=SEG,
         old="        for node in nodes:\n            for selector in self.selectors:\n                yield from selector.resolve(node)\n\n    def __str__(self) -> str:\n        return f\"[{",
         new="        for node in nodes:\n            self.env.parser.last_node = node\n            for selector in self.selectors:\n                yield from selector.resolve(node)\n\n    def __str__(self) -> str:\n        return f\"[{"),
    dict(id="c16-parser-keeps-stream", props=["C16", "C14"], file=PARSE,
         old="        stream.expect(TokenType.ROOT)\n        stream.next_token()", new="        self.stream = stream\n        stream.expect(TokenType.ROOT)\n        stream.next_token()"),
    dict(id="c16-env-keeps-last-tokens", props=["C16", "C14"], file=ENV,
         old="        tokens = tokenize(query)\n        stream = TokenStream(tokens)", new="        tokens = tokenize(query)\n        self.last_stream = TokenStream(tokens)\n        stream = self.last_stream"),
]

MUTANTS += [
    dict(id="c15-find-one-last", props=["C15"], file=QUERY,
         old="        try:\n            return next(iter(self.finditer(value)))\n        except StopIteration:\n            return None",
         new="        nodes = list(self.finditer(value))\n        return nodes[-1] if nodes else None"),
    dict(id="c15-find-one-raises-when-empty", props=["C15"], file=QUERY,
         old="        try:\n            return next(iter(self.finditer(value)))\n        except StopIteration:\n            return None", new="        return next(iter(self.finditer(value)))"),
    dict(id="c15-find-dedup", props=["C15"], file=QUERY,
         old="        return JSONPathNodeList(self.finditer(value))", new="        return JSONPathNodeList(sorted(self.finditer(value), key=lambda n: n.location))"),
    dict(id="c15-find-drops-after-1000", props=["C15"], file=QUERY,
         old="        return JSONPathNodeList(self.finditer(value))", new="        import itertools\n\n        return JSONPathNodeList(itertools.islice(self.finditer(value), 100000))"),
    dict(id="c15-apply-different", props=["C15"], file=QUERY,
         old="    apply = find\n", new="    def apply(self, value: JSONValue) -> JSONPathNodeList:\n        return JSONPathNodeList(reversed(list(self.finditer(value))))\n"),
    dict(id="c15-env-find-strips-query", props=["C15"], file=ENV,
         old="        return self.compile(query).find(value)", new="        return self.compile(query.strip()).find(value)"),
    dict(id="c15-env-find-one-uses-find", props=["C15"], file=ENV,
         old="        return self.compile(query).find_one(value)", new="        return self.compile(query).find(value)"),
    dict(id="c15-env-finditer-lazy-compile", props=["C15"], file=ENV,
         old="        return self.compile(query).finditer(value)", new="        yield from self.compile(query).finditer(value)"),
    dict(id="c15-env-find-swallow-error", props=["C15"], file=ENV,
         old="        return self.compile(query).find(value)", new="        try:\n            return self.compile(query).find(value)\n        except JSONPathTypeError:\n            raise\n        except Exception:\n            from .node import JSONPathNodeList as _L\n\n            return _L()"),
    dict(id="c15-module-find-other-env", props=["C15", "C14"], file=S + "__init__.py",
         old="find = DEFAULT_ENV.find\n", new="find = JSONPathEnvironment().find\n"),
]

TOK = S + "tokens.py"
EXC = S + "exceptions.py"

MUTANTS += [
    dict(id="c19-revert-position-fix", props=["C19"], file=TOK,
         old='        line_number = self.query.count("\\n", 0, self.index) + 1\n        column_number = self.index - self.query.rfind("\\n", 0, self.index)',
         new='        line_number = self.value.count("\\n", 0, self.index) + 1\n        column_number = self.index - self.value.rfind("\\n", 0, self.index)'),
    dict(id="c19-line-zero-based", props=["C19"], file=TOK, old='        line_number = self.query.count("\\n", 0, self.index) + 1', new='        line_number = self.query.count("\\n", 0, self.index)'),
    dict(id="c19-column-from-whole-query", props=["C19"], file=TOK, old='self.index - self.query.rfind("\\n", 0, self.index)', new='self.index - self.query.rfind("\\n")'),
    dict(id="c19-column-off-by-one", props=["C19"], file=TOK, old="        return (line_number, column_number - 1)", new="        return (line_number, column_number)"),
    dict(id="c19-count-cr", props=["C19"], file=TOK, old='        line_number = self.query.count("\\n", 0, self.index) + 1', new='        line_number = self.query.count("\\r", 0, self.index) + 1'),
    dict(id="c19-revert-token-keyword-fix", props=["C19"], file=PARSE,
         old='                    f"result of {expr.name}() is not comparable", token=token\n', new='                    f"result of {expr.name}() is not comparable", token\n'),
    dict(id="c19-str-swaps-line-column", props=["C19"], file=EXC, old='        return f"{msg}, line {line}, column {column}"', new='        return f"{msg}, line {column}, column {line}"'),
    dict(id="c19-str-column-plus-one", props=["C19"], file=EXC, old='        return f"{msg}, line {line}, column {column}"', new='        return f"{msg}, line {line}, column {column + 1}"'),
    dict(id="c19-emit-index-pos", props=["C19"], file=LEX,
         old="                self.query[self.start : self.pos],\n                self.start,\n                self.query,\n            )\n        )\n        self.start = self.pos",
         new="                self.query[self.start : self.pos],\n                self.pos,\n                self.query,\n            )\n        )\n        self.start = self.pos"),
    dict(id="c19-error-token-query-is-lexeme", props=["C19"], file=LEX,
         old="                self.query[self.start : self.pos],\n                self.start,\n                self.query,\n                msg,", new="                self.query[self.start : self.pos],\n                self.start,\n                self.query[self.start : self.pos],\n                msg,"),
    dict(id="c19-unbalanced-index-zero", props=["C19"], file=LEX,
         old="                lexer.query[index],\n                index,\n                lexer.query,", new="                lexer.query[index],\n                0,\n                lexer.query,"),
    dict(id="c19-new-raise-without-token", props=["C19"], file=PARSE,
         old='            raise JSONPathSyntaxError("empty bracketed segment", token=tok)', new='            raise JSONPathTypeError("empty bracketed segment")'),
]

MATCH = S + "function_extensions/match.py"
SEARCH = S + "function_extensions/search.py"
PATTERN = S + "function_extensions/_pattern.py"

MUTANTS += [
    dict(id="c11-revert-search-version1", props=["C11"], file=SEARCH, old="re.search(map_re(pattern), string))", new="re.search(map_re(pattern), string, re.VERSION1))"),
    dict(id="c11-match-uses-match", props=["C11"], file=MATCH, old="re.fullmatch(map_re(pattern), string)", new="re.match(map_re(pattern), string)"),
    dict(id="c11-search-uses-fullmatch", props=["C11"], file=SEARCH, old="re.search(map_re(pattern), string)", new="re.fullmatch(map_re(pattern), string)"),
    dict(id="c11-match-no-validity-check", props=["C11"], file=MATCH, old="        if not isinstance(pattern, str) or not check(pattern):\n            return False\n", new="        if not isinstance(pattern, str):\n            return False\n"),
    dict(id="c11-search-only-regex-error-handled", props=["C11", "C13"], file=SEARCH, old="        except (TypeError, re.error):", new="        except re.error:"),
    dict(id="c11-match-no-map-re", props=["C11"], file=MATCH, old="re.fullmatch(map_re(pattern), string)", new="re.fullmatch(pattern, string)"),
    dict(id="c11-match-ignorecase", props=["C11"], file=MATCH, old="re.fullmatch(map_re(pattern), string)", new="re.fullmatch(map_re(pattern), string, re.IGNORECASE)"),
    dict(id="c11-match-args-swapped", props=["C11"], file=MATCH, old="re.fullmatch(map_re(pattern), string)", new="re.fullmatch(map_re(string), pattern)"),
    dict(id="c11-match-non-string-subject-true", props=["C11"], file=MATCH, old="        except (TypeError, re.error):\n            return False", new="        except (TypeError, re.error):\n            return string is None"),
    dict(id="c11-mapre-dot-in-class-rewritten", props=["C11"], file=PATTERN,
         old="            if not char_class:\n                parts.append(r\"(?:(?![\\r\\n])\\P{Cs}|\\p{Cs}\\p{Cs})\")\n            else:\n                parts.append(ch)",
         new="            parts.append(r\"(?:(?![\\r\\n])\\P{Cs}|\\p{Cs}\\p{Cs})\")"),
    dict(id="c11-mapre-escaped-dot-rewritten", props=["C11"], file=PATTERN,
         old="        if escaped:\n            parts.append(ch)\n            escaped = False\n            continue\n", new="        if escaped and ch != \".\":\n            parts.append(ch)\n            escaped = False\n            continue\n        escaped = False\n"),
    dict(id="c11-mapre-dot-only-lf", props=["C11"], file=PATTERN, old='(?:(?![\\r\\n])\\P{Cs}|\\p{Cs}\\p{Cs})', new='(?:(?![\\n])\\P{Cs}|\\p{Cs}\\p{Cs})'),
    dict(id="c11-mapre-dot-excludes-u2028", props=["C11"], file=PATTERN, old='(?:(?![\\r\\n])\\P{Cs}|\\p{Cs}\\p{Cs})', new='(?:(?![\\r\\n\\u2028])\\P{Cs}|\\p{Cs}\\p{Cs})'),
    dict(id="c11-mapre-class-never-closes", props=["C11"], file=PATTERN, old='        elif ch == "]":\n            char_class = False\n            parts.append(ch)', new='        elif ch == "]":\n            parts.append(ch)'),
    dict(id="c11-mapre-escape-flag-sticky", props=["C11"], file=PATTERN, old="        if escaped:\n            parts.append(ch)\n            escaped = False\n            continue", new="        if escaped:\n            parts.append(ch)\n            continue"),
]

MUTANTS += [
    dict(id="c12-revert-not-comparison-parens", props=["C12"], file=FE,
         old="        if isinstance(expression, ComparisonExpression):\n            # `!` binds tighter than a comparison, so keep the grouping.\n            expr = str(expression)\n            return f\"({expr})\" if parent_precedence >= PRECEDENCE_PREFIX else expr\n\n", new=""),
    dict(id="c12-revert-not-not-parens", props=["C12"], file=FE,
         old="            return f\"({expr})\" if parent_precedence >= PRECEDENCE_PREFIX else expr\n\n        if isinstance(expression, ComparisonExpression):", new="            return f\"({expr})\" if parent_precedence > PRECEDENCE_PREFIX else expr\n\n        if isinstance(expression, ComparisonExpression):"),
    dict(id="c12-revert-function-args-str", props=["C12"], file=FE,
         old="        args = [str(FilterExpression(arg.token, arg)) for arg in self.args]", new="        args = [str(arg) for arg in self.args]"),
    dict(id="c12-or-under-and-no-parens", props=["C12"], file=FE,
         old="                    f\"({expr})\" if parent_precedence >= PRECEDENCE_LOGICAL_OR else expr", new="                    f\"({expr})\" if parent_precedence > PRECEDENCE_LOGICAL_AND else expr"),
    dict(id="c12-and-operands-swapped", props=["C12"], file=FE,
         old="                expr = f\"{left} && {right}\"", new="                expr = f\"{right} && {left}\""),
    dict(id="c12-or-printed-as-and", props=["C12"], file=FE, old="                expr = f\"{left} || {right}\"", new="                expr = f\"{left} && {right}\""),
    dict(id="c12-slice-default-step-empty", props=["C12"], file=SEL, old='        step = self.slice.step if self.slice.step is not None else "1"', new='        step = self.slice.step if self.slice.step is not None else "0"'),
    dict(id="c12-slice-start-stop-swapped", props=["C12"], file=SEL, old='        return f"{start}:{stop}:{step}"', new='        return f"{stop}:{start}:{step}"'),
    dict(id="c12-child-segment-dot-notation", props=["C12"], file=SEG,
         old="        return f\"[{', '.join(str(itm) for itm in self.selectors)}]\"\n\n    def __eq__(self, __value: object) -> bool:\n        return (\n            isinstance(__value, JSONPathChildSegment)",
         new="        return f\".{', '.join(str(itm) for itm in self.selectors)}\"\n\n    def __eq__(self, __value: object) -> bool:\n        return (\n            isinstance(__value, JSONPathChildSegment)"),
    dict(id="c12-descendant-single-dot", props=["C12"], file=SEG, old="        return f\"..[{', '.join(str(itm) for itm in self.selectors)}]\"", new="        return f\".[{', '.join(str(itm) for itm in self.selectors)}]\""),
    dict(id="c12-bool-literal-capitalised", props=["C12"], file=FE, old="        return repr(self.value).lower()", new="        return repr(self.value)"),
    dict(id="c12-relative-query-keeps-dollar", props=["C12"], file=FE, old='        return "@" + str(self.query)[1:]', new='        return "@" + str(self.query)'),
    dict(id="c12-filter-selector-no-question-mark", props=["C12"], file=SEL, old='        return f"?{self.expression}"', new='        return f"{self.expression}"'),
    dict(id="c12-string-literal-repr", props=["C12"], file=FE, old="        return canonical_string(self.value)\n\n\nclass IntegerLiteral", new="        return repr(self.value)\n\n\nclass IntegerLiteral"),
    dict(id="c12-query-segments-joined-with-dot", props=["C12"], file=QUERY, old='        return "$" + "".join(str(segment) for segment in self.segments)', new='        return "$" + ".".join(str(segment) for segment in self.segments)'),
]

CLI = S + "cli.py"

MUTANTS += [
    dict(id="c20-revert-compile-base-handler", props=["C20"], file=CLI,
         old="    except JSONPathError as err:\n        # Any other library error, like an unknown function name.\n        if args.debug:\n            raise\n        sys.stderr.write(f\"error: {err}\\n\")\n        sys.exit(1)\n", new=""),
    dict(id="c20-revert-eval-base-handler", props=["C20"], file=CLI,
         old="    except JSONPathError as err:\n        # Any other evaluation error, like exceeding the recursion limit.\n        if args.debug:\n            raise\n        sys.stderr.write(f\"error: {err}\\n\")\n        sys.exit(1)\n", new=""),
    # (the UnicodeDecodeError handler alone is no longer a mutant: the ValueError handler added by F18 covers it;
    #  see benign.py c20-unicode-handler-subsumed)
    dict(id="c20-revert-unicode-and-value-handlers", props=["C20"], file=CLI,
         old="    except UnicodeDecodeError as err:\n        if args.debug:\n            raise\n        sys.stderr.write(f\"target document decode error: {err}\\n\")\n        sys.exit(1)\n    except (ValueError, RecursionError) as err:\n", new="    except RecursionError as err:\n"),
    dict(id="c20-index-error-exit-zero", props=["C20"], file=CLI,
         old="        sys.stderr.write(f\"index error: {err}\\n\")\n        sys.exit(1)", new="        sys.stderr.write(f\"index error: {err}\\n\")\n        sys.exit(0)"),
    dict(id="c20-type-error-two-lines", props=["C20"], file=CLI,
         old="        sys.stderr.write(f\"type error: {err}\\n\")\n        sys.exit(1)\n    except JSONPathIndexError", new="        sys.stderr.write(f\"type error:\\n  {err}\\n\")\n        sys.exit(1)\n    except JSONPathIndexError"),
    dict(id="c20-decode-error-to-stdout-empty-array", props=["C20"], file=CLI,
         old="        sys.stderr.write(f\"target document json decode error: {err}\\n\")\n        sys.exit(1)", new="        sys.stderr.write(f\"target document json decode error: {err}\\n\")\n        json.dump([], args.output)\n        sys.exit(1)"),
    dict(id="c20-debug-swallows", props=["C20"], file=CLI,
         old="    except JSONPathSyntaxError as err:\n        if args.debug:\n            raise\n", new="    except JSONPathSyntaxError as err:\n        if args.debug:\n            raise RuntimeError(str(err))\n"),
    dict(id="c20-pretty-ignored", props=["C20"], file=CLI, old="    indent = INDENT if args.pretty else None", new="    indent = None"),
    dict(id="c20-dump-nodes-not-values", props=["C20"], file=CLI, old="        values = path.find(data).values()", new="        values = path.find(data).paths()"),
    dict(id="c20-dump-sort-keys", props=["C20"], file=CLI, old="        result = json.dumps(values, indent=indent)", new="        result = json.dumps(values, indent=indent, sort_keys=True)"),
    dict(id="c20-output-to-stdout-always", props=["C20"], file=CLI, old="    args.output.write(result)", new="    sys.stdout.write(result)"),
    dict(id="c20-inline-query-stripped", props=["C20"], file=CLI, old="        query = args.query\n", new="        query = args.query.strip()\n"),
    dict(id="c20-query-file-lowercased", props=["C20"], file=CLI, old="        query = args.query_file.read().strip()", new="        query = args.query_file.read().strip().lower()"),
    dict(id="c20-success-exit-one-when-empty", props=["C20"], file=CLI,
         old="    args.output.write(result)", new="    args.output.write(result)\n    if not values:\n        sys.exit(1)"),
]

MUTANTS += [
    dict(id="c13-revert-overflow-fix", props=["C13"], file=PARSE, old="        except (ValueError, OverflowError) as err:", new="        except ValueError as err:"),
    dict(id="c13-revert-bare-at-scalar-fix", props=["C13", "C10"], file=FE,
         old="        # Start from the current node, but keep the root",
         new="        if not isinstance(context.current, (list, dict)):\n            if self.query.empty():\n                return context.current\n            return JSONPathNodeList()\n\n        # Start from the current node, but keep the root"),
    dict(id="c13-raise-valueerror-in-parser", props=["C13"], file=PARSE,
         old='            raise JSONPathSyntaxError("empty bracketed segment", token=tok)', new='            raise ValueError("empty bracketed segment")'),
    dict(id="c13-filter-expression-keyerror-narrowed", props=["C13"], file=PARSE,
         old="        try:\n            left = self.token_map[stream.current.type_](stream)\n        except KeyError as err:\n            if stream.current.type_ in (TokenType.EOF, TokenType.RBRACKET):\n                msg = \"end of expression\"\n            else:\n                msg = repr(stream.current.value)\n            raise JSONPathSyntaxError(\n                f\"unexpected {msg}\", token=stream.current\n            ) from err\n",
         new="        try:\n            fn_ = self.token_map[stream.current.type_]\n        except KeyError as err:\n            if stream.current.type_ in (TokenType.EOF, TokenType.RBRACKET):\n                msg = \"end of expression\"\n            else:\n                msg = repr(stream.current.value)\n            raise JSONPathSyntaxError(\n                f\"unexpected {msg}\", token=stream.current\n            ) from err\n        left = fn_(stream)\n"),
    dict(id="c13-float-literal-handler-removed", props=["C13"], file=PARSE,
         old="        try:\n            number = float(stream.current.value)\n        except ValueError as err:\n            raise JSONPathSyntaxError(\n                \"invalid float literal\", token=stream.current\n            ) from err\n",
         new="        number = float(stream.current.value)\n"),
    dict(id="c13-name-selector-no-suppress", props=["C13", "C01"], file=SEL,
         old="            with suppress(KeyError):\n                yield node.new_child(node.value[self.name], self.name)", new="            yield node.new_child(node.value[self.name], self.name)"),
    dict(id="c13-lt-no-isinstance-guard", props=["C13", "C06"], file=FE,
         old="    if isinstance(left, (int, float)) and isinstance(right, (int, float)):\n        return left < right\n\n    return False", new="    return left < right"),
    dict(id="c13-function-missing-at-eval-keyerror", props=["C13"], file=FE,
         old="        try:\n            func = context.env.function_extensions[self.name]\n        except KeyError:\n            return NOTHING\n", new="        func = context.env.function_extensions[self.name]\n"),
    dict(id="c13-lexer-peek-no-guard", props=["C13"], file=LEX,
         old='        try:\n            return self.query[self.pos]\n        except IndexError:\n            return ""', new="        return self.query[self.pos]"),
    dict(id="c13-position-none-token", props=["C13", "C19"], file=EXC,
         old="        if not self.token:\n            return msg\n", new=""),
    dict(id="c13-tokenize-unbalanced-indexerror", props=["C13"], file=LEX,
         old="        ch, index = lexer.bracket_stack[-1]", new="        ch, index = lexer.bracket_stack[len(lexer.bracket_stack)]"),
]

MUTANTS += [
    dict(id="c01-parse-descendant-built-as-child", props=["C01"], file=PARSE,
         old="                yield JSONPathRecursiveDescentSegment(\n                    env=self.env,\n                    token=tok,", new="                yield JSONPathChildSegment(\n                    env=self.env,\n                    token=tok,"),
    dict(id="c01-parse-shorthand-name-casefolded", props=["C01"], file=PARSE,
         old="                    name=stream.current.value,\n                ),\n            )\n\n        if stream.current.type_ == TokenType.WILD:", new="                    name=stream.current.value.lower(),\n                ),\n            )\n\n        if stream.current.type_ == TokenType.WILD:"),
    dict(id="c01-parse-selectors-deduplicated", props=["C01"], file=PARSE,
         old="            return tuple(self.parse_bracketed_selection(stream))", new="            return tuple(dict.fromkeys(self.parse_bracketed_selection(stream)))"),
    dict(id="c01-parse-index-abs", props=["C01", "C07"], file=PARSE,
         old="                            index=self._parse_index(stream.current),", new="                            index=abs(self._parse_index(stream.current)),"),
    dict(id="c01-parse-quoted-name-stripped", props=["C01", "C09"], file=PARSE,
         old="                        name=self._decode_string_literal(stream.current),\n                    ),\n                )\n            elif stream.current.type_ == TokenType.COLON:", new="                        name=self._decode_string_literal(stream.current).strip(),\n                    ),\n                )\n            elif stream.current.type_ == TokenType.COLON:"),
    dict(id="c01-parse-selectors-sorted-indices-first", props=["C01"], file=PARSE,
         old="        if not selectors:\n            raise JSONPathSyntaxError(\"empty bracketed segment\", token=tok)\n\n        return selectors",
         new="        if not selectors:\n            raise JSONPathSyntaxError(\"empty bracketed segment\", token=tok)\n\n        return sorted(selectors, key=lambda s: not isinstance(s, IndexSelector))"),
]

MUTANTS += [
    dict(id="c03-lexer-nested-paren-not-counted", props=["C03"], file=LEX,
         old="            if l.func_call_stack:\n                l.func_call_stack[-1] += 1\n            continue", new="            continue"),
    dict(id="c03-lexer-comma-in-call-ends-filter", props=["C03"], file=LEX,
         old="            if (\n                l.func_call_stack\n                and l.bracket_stack\n                and l.bracket_stack[-1][0] == \"(\"\n            ):\n                continue\n            l.filter_depth -= 1", new="            l.filter_depth -= 1"),
    dict(id="c04-lexer-rparen-without-open", props=["C04"], file=LEX,
         old='            if not l.bracket_stack or l.bracket_stack[-1][0] != "(":\n                l.backup()\n                l.error("unbalanced parentheses")\n                return None\n\n            l.bracket_stack.pop()', new='            if l.bracket_stack:\n                l.bracket_stack.pop()'),
    dict(id="c04-lexer-rbracket-closes-paren", props=["C04"], file=LEX,
         old='            if not l.bracket_stack or l.bracket_stack[-1][0] != "[":', new='            if not l.bracket_stack:'),
    dict(id="c03-lexer-filter-depth-not-restored", props=["C03"], file=LEX,
         old='        if c == "]":\n            l.filter_depth -= 1\n            l.backup()\n            return lex_inside_bracketed_segment', new='        if c == "]":\n            l.backup()\n            return lex_inside_bracketed_segment'),
    dict(id="c03-lexer-call-closed-too-early", props=["C03"], file=LEX,
         old="                if l.func_call_stack[-1] == 1:\n                    l.func_call_stack.pop()", new="                if l.func_call_stack[-1] <= 2:\n                    l.func_call_stack.pop()"),
    dict(id="c04-lexer-descendant-eof-ok", props=["C04"], file=LEX,
         old='    if c == "":\n        l.error("bald descendant segment")\n        return None\n', new='    if c == "":\n        l.emit(TokenType.EOF)\n        return None\n'),
    dict(id="c01-default-mode-nondeterministic", props=["C01"], file=ENV, old="    nondeterministic = False\n", new="    nondeterministic = True\n"),
    dict(id="c20-file-default-none", props=["C20"], file=CLI, old='        type=argparse.FileType(mode="rb"),\n        default=sys.stdin,', new='        type=argparse.FileType(mode="rb"),\n        default=None,'),
    dict(id="c20-pretty-store-false", props=["C20"], file=CLI, old='        "--pretty",\n        action="store_true",', new='        "--pretty",\n        action="store_false",'),
    dict(id="c20-output-append-mode", props=["C20"], file=CLI, old='        type=argparse.FileType(mode="w"),', new='        type=argparse.FileType(mode="a"),'),
]

_CACHE_INIT = dict(file=S + "environment.py", old="        self.function_extensions: Dict[str, FilterFunction] = {}\n",
                   new="        self._compiled: Dict[Any, JSONPathQuery] = {}\n        self.function_extensions: Dict[str, FilterFunction] = {}\n")
_COMPILE_OLD = "        tokens = tokenize(query)\n        stream = TokenStream(tokens)\n        return JSONPathQuery(env=self, segments=tuple(self.parser.parse(stream)))"
MUTANTS += [
    # a cache whose key loses information: ' $' after '$' is served from the cache instead of being refused
    dict(id="c14-cache-key-stripped", props=["C01", "C14"], edits=[
        _CACHE_INIT,
        dict(file=S + "environment.py", old=_COMPILE_OLD,
             new="        key = query.strip()\n        cached = self._compiled.get(key)\n        if cached is not None:\n            return cached\n        tokens = tokenize(query)\n        stream = TokenStream(tokens)\n        compiled = JSONPathQuery(env=self, segments=tuple(self.parser.parse(stream)))\n        self._compiled[key] = compiled\n        return compiled")]),
    # the key is the query text but what is stored is not what is returned
    dict(id="c14-cache-by-token-values", props=["C01", "C14"], edits=[
        _CACHE_INIT,
        dict(file=S + "environment.py", old=_COMPILE_OLD,
             new="        tokens = tokenize(query)\n        key = tuple(t.value for t in tokens)\n        cached = self._compiled.get(key)\n        if cached is not None:\n            return cached\n        stream = TokenStream(tokens)\n        compiled = JSONPathQuery(env=self, segments=tuple(self.parser.parse(stream)))\n        self._compiled[key] = compiled\n        return compiled")]),
    # stages skipped / fed with something else
    dict(id="c01-compile-lowercases-query", props=["C01"], file=S + "environment.py",
         old="        tokens = tokenize(query)\n", new="        tokens = tokenize(query.lower())\n"),
    dict(id="c01-compile-drops-last-segment", props=["C01"], file=S + "environment.py",
         old="segments=tuple(self.parser.parse(stream)))", new="segments=tuple(self.parser.parse(stream))[:8])"),
]

MUTANTS += [
    # the shortcut forgets that the subject may be an array/object: 'in' is then membership
    dict(id="c11-literal-shortcut-search-unguarded", props=["C11"], file=S + "function_extensions/search.py",
         old="        try:\n", new="        try:\n            if pattern.isalnum():\n                return pattern in string\n"),
    # isascii() does not exclude metacharacters
    dict(id="c11-ascii-shortcut-match", props=["C11"], file=S + "function_extensions/match.py",
         old="        try:\n", new="        try:\n            if pattern.isascii():\n                return pattern == string\n"),
]

EXC = S + "exceptions.py"
MUTANTS += [
    # the message is data: formatting it makes braces / percent signs in a quoted token raise
    dict(id="c13-str-format-on-message", props=["C13", "C19"], file=EXC,
         old='        return f"{msg}, line {line}, column {column}"',
         new='        return (msg + ", line {line}, column {column}").format(line=line, column=column)'),
    dict(id="c13-str-percent-on-message", props=["C13"], file=EXC,
         old='        return f"{msg}, line {line}, column {column}"',
         new='        return (msg + ", line %d, column %d") % (line, column)'),
]

TOK = S + "tokens.py"
_LRU_IMPORT = dict(file=TOK, old="from enum import auto\n", new="from enum import auto\nfrom functools import lru_cache\n")
MUTANTS += [
    dict(id="c19-position-cached-key-without-query", props=["C19", "C14"], edits=[
        _LRU_IMPORT,
        dict(file=TOK, old="            and self.query == other.query\n", new=""),
        dict(file=TOK, old="hash((self.type_, self.value, self.index, self.query))", new="hash((self.type_, self.value, self.index))"),
        dict(file=TOK, old="    def position(self)", new="    @lru_cache(maxsize=128)\n    def position(self)")]),
]

LEXF = S + "lex.py"
MUTANTS += [
    # raw query text in a message: a line break in the query splits the CLI diagnostic over two lines
    dict(id="c20-raw-char-in-lexer-message", props=["C20"], file=LEXF,
         old='    l.error(f"unexpected shorthand selector {c!r}")', new='    l.error(f"unexpected shorthand selector \'{c}\'")'),
    dict(id="c20-raw-token-text-in-parser-message", props=["C20"], file=S + "parse.py",
         old='f"invalid index {token.value!r}"', new='f"invalid index \'{token.value}\'"'),
    dict(id="c20-raw-unexpected-token", props=["C20"], file=S + "parse.py",
         old="                msg = repr(stream.current.value)", new="                msg = stream.current.value"),
]

MUTANTS += [
    # a cached generator is exhausted after its first consumer
    dict(id="c14-lru-cache-on-generator", props=["C14"], edits=[
        dict(file=S + "segments.py", old="import random\n", new="import random\nimport functools\n"),
        dict(file=S + "segments.py", old="    def _visit(self, node: JSONPathNode, depth: int = 1)", new="    @functools.lru_cache(maxsize=None)\n    def _visit(self, node: JSONPathNode, depth: int = 1)")]),
]

SELF = S + "selectors.py"
MUTANTS += [
    # the index selector also answers on objects through its precomputed string key
    dict(id="c07-index-selects-object-member-by-string-key", props=["C01", "C07"], file=SELF,
         old="            with suppress(IndexError):\n                yield node.new_child(node.value[self.index], norm_index)\n",
         new="            with suppress(IndexError):\n                yield node.new_child(node.value[self.index], norm_index)\n        elif isinstance(node.value, dict):\n            with suppress(KeyError):\n                yield node.new_child(node.value[self._as_key], self._as_key)\n"),
]

_WS_OLD = "        if self.accept_match(RE_WHITESPACE):\n            self.ignore()\n            return True\n        return False"
_WS_LOOP = "        query = self.query\n        pos = self.pos\n        end = len(query)\n        while pos < end and query[pos] {PRED}:\n            pos += 1\n        if pos != self.pos:\n            self.pos = pos\n            self.ignore()\n            return True\n        return False"
MUTANTS += [
    # str.isspace() admits VT, FF, NBSP, ... which RFC 9535 does not treat as blank space
    dict(id="c04-blank-scan-loop-isspace", props=["C04"], file=S + "lex.py", old=_WS_OLD, new=_WS_LOOP.replace("{PRED}", ".isspace()")),
    # form feed added to the class
    dict(id="c04-blank-scan-loop-formfeed", props=["C04"], file=S + "lex.py", old=_WS_OLD, new=_WS_LOOP.replace("{PRED}", "in ' \\t\\n\\r\\f'")),
    # the loop forgets CR: a valid query with CR between tokens is refused
    dict(id="c03-blank-scan-loop-without-cr", props=["C03"], file=S + "lex.py", old=_WS_OLD, new=_WS_LOOP.replace("{PRED}", "in ' \\t\\n'")),
]

SEGF = S + "segments.py"
MUTANTS += [
    # configuration captured when the query is compiled: a limit changed afterwards on the environment is ignored
    dict(id="c18-limit-captured-at-compile-time", props=["C18"], edits=[
        dict(file=SEGF, old='    __slots__ = ("env", "token", "selectors")', new='    __slots__ = ("env", "token", "selectors", "_limit")'),
        dict(file=SEGF, old="        self.selectors = selectors\n", new="        self.selectors = selectors\n        self._limit = env.max_recursion_depth\n"),
        dict(file=SEGF, old="        if depth > self.env.max_recursion_depth:", new="        if depth > self._limit:")]),
    dict(id="c17-mode-captured-at-compile-time", props=["C17"], edits=[
        dict(file=SEGF, old='    __slots__ = ("env", "token", "selectors")', new='    __slots__ = ("env", "token", "selectors", "_nondet")'),
        dict(file=SEGF, old="        self.selectors = selectors\n", new="        self.selectors = selectors\n        self._nondet = env.nondeterministic\n"),
        dict(file=SEGF, old="if self.env.nondeterministic", new="if self._nondet")]),
]

_API_OLD = "compile = DEFAULT_ENV.compile  # noqa: A001\nfinditer = DEFAULT_ENV.finditer\nfind = DEFAULT_ENV.find\nfind_one = DEFAULT_ENV.find_one\n"
MUTANTS += [
    # find_one at module level materialises the whole result: an error after the first match surfaces here only
    dict(id="c15-module-find-one-through-find", props=["C15"], file=S + "__init__.py", old=_API_OLD,
         new="compile = DEFAULT_ENV.compile  # noqa: A001\nfinditer = DEFAULT_ENV.finditer\nfind = DEFAULT_ENV.find\n\n\ndef find_one(query, value):\n    nodes = find(query, value)\n    return nodes[0] if nodes else None\n"),
    # a generator wrapper: an invalid query is reported only when the iterator is advanced
    dict(id="c15-module-finditer-generator", props=["C15"], file=S + "__init__.py", old=_API_OLD,
         new="compile = DEFAULT_ENV.compile  # noqa: A001\nfind = DEFAULT_ENV.find\nfind_one = DEFAULT_ENV.find_one\n\n\ndef finditer(query, value):\n    yield from DEFAULT_ENV.finditer(query, value)\n"),
    # the configured limit is silently lowered
    dict(id="c18-limit-clamped-in-constructor", props=["C18"], file=S + "environment.py",
         old="        self.parser: Parser = self.parser_class(env=self)\n", new="        self.parser: Parser = self.parser_class(env=self)\n        self.max_recursion_depth = min(self.max_recursion_depth, 250)\n"),
]

_SER_OLD = "import json\n\n\ndef canonical_string(value: str) -> str:\n    \"\"\"Return _value_ as a canonically formatted string literal.\"\"\"\n    single_quoted = (\n        json.dumps(value, ensure_ascii=False)[1:-1]\n        .replace('\\\\\"', '\"')\n        .replace(\"'\", \"\\\\'\")\n    )\n    return f\"'{single_quoted}'\"\n"
_SER_TABLE = "_ESCAPES = {codepoint: f\"\\\\u{codepoint:04x}\" for codepoint in range({N})}\n_ESCAPES.update({0x08: \"\\\\b\", 0x09: \"\\\\t\", 0x0A: \"\\\\n\", 0x0C: \"\\\\f\", 0x0D: \"\\\\r\", 0x27: \"\\\\'\", 0x5C: \"\\\\\\\\\"})\n\n\ndef canonical_string(value: str) -> str:\n    \"\"\"Return _value_ as a canonically formatted string literal.\"\"\"\n    return f\"'{value.translate(_ESCAPES)}'\"\n"
MUTANTS += [
    # the table stops one short: U+001F is written raw
    dict(id="c08-writer-translate-table-misses-1f", props=["C08", "C12"], file=S + "serialize.py", old=_SER_OLD, new=_SER_TABLE.replace("{N}", "0x1F")),
]


MUTANTS += [
    # reverts of F16 / F17
    dict(id="c03-revert-comma-in-nested-selection-fix", props=["C03"], file=S + "lex.py",
         old="            if (\n                l.func_call_stack\n                and l.bracket_stack\n                and l.bracket_stack[-1][0] == \"(\"\n            ):\n                continue\n",
         new="            if l.func_call_stack:\n                continue\n"),
    dict(id="c13-revert-int-digit-limit-fix", props=["C13", "C20"], file=PARSE,
         old="        try:\n            return int(token.value)\n        except ValueError as err:\n            # Python refuses to convert decimal strings beyond\n            # `sys.get_int_max_str_digits()` digits.\n            raise JSONPathIndexError(\"index out of range\", token=token) from err\n",
         new="        return int(token.value)\n"),
]

MUTANTS += [
    # revert of F18
    dict(id="c20-revert-load-valueerror-handler", props=["C20"], file=S + "cli.py",
         old="    except (ValueError, RecursionError) as err:\n", new="    except KeyError as err:\n"),
]

MUTANTS += [
    # revert of F20: keywords are tried (by prefix) before function names
    dict(id="c03-revert-keyword-prefixed-function-names-fix", props=["C03", "C05"], file=S + "lex.py",
         old="        elif l.accept_match(RE_FUNCTION_CALL):\n", new="        elif l.accept(\"true\"):\n            l.emit(TokenType.TRUE)\n        elif l.accept(\"false\"):\n            l.emit(TokenType.FALSE)\n        elif l.accept(\"null\"):\n            l.emit(TokenType.NULL)\n        elif l.accept_match(RE_FUNCTION_CALL):\n"),
]

# part-by-part comparison of arrays / objects (structural induction, R06.1): broken variants of a recursive _eq
_EQ_TAIL = "    if isinstance(left, bool):\n        return isinstance(right, bool) and left == right\n\n    return left == right\n"
_EQ_HEAD = "    if isinstance(left, bool):\n        return isinstance(right, bool) and left == right\n\n"


def _rec_eq(list_expr: str, dict_expr: str) -> str:
    return (_EQ_HEAD + "    if isinstance(left, list) and isinstance(right, list):\n        return " + list_expr + "\n\n"
            + "    if isinstance(left, dict) and isinstance(right, dict):\n        return " + dict_expr + "\n\n    return left == right\n")


_L_OK = "len(left) == len(right) and all(_eq(a, b) for a, b in zip(left, right))"
_D_OK = "len(left) == len(right) and all(k in right and _eq(v, right[k]) for k, v in left.items())"
MUTANTS += [
    dict(id="c06-rec-eq-missing-member-is-null", props=["C06"], file=FE, old=_EQ_TAIL,
         new=_rec_eq(_L_OK, "len(left) == len(right) and all(_eq(v, right.get(k)) for k, v in left.items())")),
    dict(id="c06-rec-eq-lengths-not-compared", props=["C06"], file=FE, old=_EQ_TAIL,
         new=_rec_eq("all(_eq(a, b) for a, b in zip(left, right))", _D_OK)),
    dict(id="c06-rec-eq-any-instead-of-all", props=["C06"], file=FE, old=_EQ_TAIL,
         new=_rec_eq("len(left) == len(right) and any(_eq(a, b) for a, b in zip(left, right))", _D_OK)),
    dict(id="c06-rec-eq-wrong-pair", props=["C06"], file=FE, old=_EQ_TAIL,
         new=_rec_eq("len(left) == len(right) and all(_eq(a, a) for a, b in zip(left, right))", _D_OK)),
    dict(id="c06-rec-eq-subset-of-names", props=["C06"], file=FE, old=_EQ_TAIL,
         new=_rec_eq(_L_OK, "all(k in right and _eq(v, right[k]) for k, v in left.items())")),
    dict(id="c06-rec-eq-skips-scalars", props=["C06"], file=FE, old=_EQ_TAIL,
         new=_rec_eq("len(left) == len(right) and all(_eq(a, b) for a, b in zip(left, right) if isinstance(a, (list, dict)))", _D_OK)),
    # the correct recursive comparison is right for C06 but adds a document-descending recursion without a depth
    # discipline: '@ == @' on a self-referential value, which host == answers by identity, now exhausts the stack
    dict(id="c18-rec-eq-correct-but-unbounded", props=["C18"], file=FE, old=_EQ_TAIL, new=_rec_eq(_L_OK, _D_OK)),
]

MUTANTS += [
    # reverts / weakenings of F21
    dict(id="c20-revert-serialise-before-writing", props=["C20"], file=S + "cli.py",
         old="    try:\n        # Serialize before writing, so there's no partial output on failure.\n        result = json.dumps(values, indent=indent)\n    except RecursionError as err:\n        # Values nested about as deeply as the interpreter's stack allows.\n        if args.debug:\n            raise\n        sys.stderr.write(f\"error: result is too deeply nested to serialize: {err}\\n\")\n        sys.exit(1)\n\n    args.output.write(result)\n",
         new="    json.dump(values, args.output, indent=indent)\n"),
    dict(id="c20-serialise-handler-catches-other-class", props=["C20"], file=S + "cli.py",
         old="    except RecursionError as err:\n        # Values nested", new="    except KeyError as err:\n        # Values nested"),
    dict(id="c20-serialise-failure-exits-zero", props=["C20"], file=S + "cli.py",
         old="        sys.stderr.write(f\"error: result is too deeply nested to serialize: {err}\\n\")\n        sys.exit(1)", new="        sys.stderr.write(f\"error: result is too deeply nested to serialize: {err}\\n\")\n        sys.exit(0)"),
    dict(id="c20-serialise-streams-inside-handler", props=["C20"], file=S + "cli.py",
         old="        result = json.dumps(values, indent=indent)\n", new="        result = \"\"\n        json.dump(values, args.output, indent=indent)\n"),
]


# ---- round 6: reverts of F22-F24 and mutants for R13.4 / R19.8 / vacuous quantifiers / cached functions
MUTANTS += [
    dict(id="c12-revert-float-keeps-fraction", props=["C12"], file=S + "filter_expressions.py",
         old='        if e and "." not in mantissa:\n            mantissa += ".0"\n',
         new=''),
    dict(id="c12-revert-float-out-of-range", props=["C12"], file=S + "parse.py",
         old='        if number in (float("inf"), float("-inf")):',
         new='        if False:'),
    dict(id="c11-revert-anchor-literals", props=["C11"], file=S + "function_extensions/_pattern.py",
         old='        elif ch in "^$" and not char_class:',
         new='        elif ch in "" and not char_class:'),
    dict(id="c11-anchor-dollar-only", props=["C11"], file=S + "function_extensions/_pattern.py",
         old='        elif ch in "^$" and not char_class:',
         new='        elif ch == "$" and not char_class:'),
    dict(id="c13-lexer-zero-progress-cycle", props=["C13"], file=S + "lex.py",
         old='    if c == ".":\n        if l.peek() == ".":\n            l.next()\n            l.emit(TokenType.DOUBLE_DOT)\n            return lex_descendant_segment\n        return lex_shorthand_selector\n',
         new='    if c == "." and l.filter_depth and l.peek() == "!":\n        l.backup()\n        return lex_inside_filter\n\n    if c == ".":\n        if l.peek() == ".":\n            l.next()\n            l.emit(TokenType.DOUBLE_DOT)\n            return lex_descendant_segment\n        return lex_shorthand_selector\n'),
    dict(id="c19-next-advances-at-end", props=["C19"], file=S + "lex.py",
         old='        except IndexError:\n            return ""\n\n    def ignore(self) -> None:',
         new='        except IndexError:\n            self.pos += 1\n            return ""\n\n    def ignore(self) -> None:'),
]
