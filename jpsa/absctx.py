"""Per-run context of the abstract interpreter: choice script, world, octagon, ids."""

from __future__ import annotations

from typing import Any
from typing import Callable
from typing import Dict
from typing import List
from typing import Tuple

from .model import AnalysisError
from .numeric import Lin
from .numeric import Octagon


class Unsupported(AnalysisError):
    """A construct outside the interpreted subset (exit 2, never a verdict)."""


class Infeasible(Exception):
    """The current path contradicts its own assumptions; discard it."""


class PathLimit(AnalysisError):
    pass


class Ctx:
    def __init__(self, script: List[int]) -> None:
        self.script = list(script)
        self.pos = 0
        self.choices: List[List[Any]] = []  # [key, idx, n]
        self.world: Dict[Any, Any] = {}
        self.oct = Octagon()
        self.names: Dict[int, str] = {}
        self._next = 0
        self.char_fixed: Dict[int, str] = {}
        self.char_excl: Dict[int, set] = {}
        self.log: List[Any] = []  # global effect log (extcalls, mutations outside generators)
        self.atom_info: Dict[Any, Any] = {}  # world key -> structured description of the atom
        self.len_origin: Dict[int, Any] = {}  # length variable -> the value it is the length of

    def new_id(self) -> int:
        self._next += 1
        return self._next

    def new_int(self, label: str, lo: Any = None, hi: Any = None) -> int:
        v = self.new_id()
        self.names[v] = label
        if lo is not None:
            self.oct.add_le0(Lin({v: -1}, lo))  # lo - v <= 0
        if hi is not None:
            self.oct.add_le0(Lin({v: 1}, -hi))  # v - hi <= 0
        return v

    def choose(self, key: Any, options: List[Any]) -> Any:
        if key in self.world:
            return self.world[key]
        if len(options) == 1:
            self.world[key] = options[0]
            return options[0]
        if self.pos < len(self.script):
            idx = self.script[self.pos]
        else:
            idx = 0
        self.pos += 1
        if idx >= len(options):
            raise AnalysisError(f"choice script out of range at {key!r}")
        self.choices.append([key, idx, len(options)])
        self.world[key] = options[idx]
        return options[idx]

    # ---- integer atoms -------------------------------------------------
    def decide_le0(self, f: Lin) -> bool:
        """Truth of f <= 0 on this path (forks when undetermined)."""
        if f.is_const():
            return f.const <= 0
        if self.oct.entails_le0(f):
            return True
        if self.oct.entails_ge1(f):
            return False
        key = ("le0", f.key())
        r = self.choose(key, [True, False])
        g = f if r else (Lin.k(1) - f)  # not(f<=0)  <=>  1 - f <= 0
        self.oct.add_le0(g)
        if self.oct.empty:
            raise Infeasible()
        return r

    def assume_le0(self, f: Lin) -> None:
        self.oct.add_le0(f)
        if self.oct.empty:
            raise Infeasible()


def explore(run: Callable[[Ctx], Any], limit: int = 20000) -> List[Tuple[Any, Ctx]]:
    """Enumerate every path of *run* by depth-first search over its choice points."""
    out: List[Tuple[Any, Ctx]] = []
    script: List[int] = []
    n = 0
    while True:
        n += 1
        if n > limit:
            raise PathLimit(f"more than {limit} paths")
        ctx = Ctx(script)
        try:
            res = run(ctx)
            out.append((res, ctx))
        except Infeasible:
            pass
        ch = ctx.choices
        while ch and ch[-1][1] + 1 >= ch[-1][2]:
            ch.pop()
        if not ch:
            break
        script = [c[1] for c in ch[:-1]] + [ch[-1][1] + 1]
    return out
