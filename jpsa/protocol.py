"""Verdict protocol: findings, known-findings file, evidence, replay files, exit codes."""

from __future__ import annotations

import json
import os
import time
from dataclasses import dataclass
from dataclasses import field
from pathlib import Path
from typing import Any
from typing import Dict
from typing import List
from typing import Optional

VERIF = Path(__file__).resolve().parent.parent
EVIDENCE_DIR = VERIF / "evidence"
REPLAY_DIR = EVIDENCE_DIR / "replay"
KNOWN_FILE = VERIF / "known_findings.json"


@dataclass
class Finding:
    """A rule instance that does not hold.

    Identity is (property, rule, site, key): *site* is a qualified name, *key*
    names the abstract cell / witness class.  Never a line number.
    """

    rule: str
    site: str
    key: str
    message: str
    file: str = ""
    line: int = 0
    witness: Any = None

    def ident(self, prop: str) -> tuple:
        return (prop, self.rule, self.site, self.key)


@dataclass
class Obligation:
    rule: str
    site: str
    what: str
    ok: bool = True
    nontrivial: bool = True
    detail: Any = None


@dataclass
class Report:
    prop: str
    tier: str
    findings: List[Finding] = field(default_factory=list)
    obligations: List[Obligation] = field(default_factory=list)
    functions_analysed: set = field(default_factory=set)
    not_decided: List[str] = field(default_factory=list)
    assumptions: List[str] = field(default_factory=list)
    rules: Dict[str, str] = field(default_factory=dict)
    extra: Dict[str, Any] = field(default_factory=dict)
    samples: List[Any] = field(default_factory=list)
    undecided_list: List[Any] = field(default_factory=list)

    def rule(self, rid: str, text: str) -> None:
        self.rules[rid] = text

    def ok(self, rule: str, site: str, what: str, detail: Any = None, nontrivial: bool = True) -> None:
        self.obligations.append(Obligation(rule, site, what, True, nontrivial, detail))

    def fail(
        self,
        rule: str,
        site: str,
        key: str,
        message: str,
        file: str = "",
        line: int = 0,
        witness: Any = None,
        what: Optional[str] = None,
    ) -> None:
        f = Finding(rule, site, key, message, file, line, witness)
        # de-duplicate on identity
        for g in self.findings:
            if g.ident(self.prop) == f.ident(self.prop):
                return
        self.findings.append(f)
        self.obligations.append(Obligation(rule, site, what or key, False, True, message))

    def undecided(self, rule: str, site: str, why: str) -> None:
        """The rule cannot decide this construct (unrecognised idiom): exit 2 unless a violation is found."""
        self.undecided_list.append((rule, site, why))

    def touched(self, *quals: str) -> None:
        self.functions_analysed.update(quals)


def load_known() -> Dict[str, List[Dict[str, Any]]]:
    if not KNOWN_FILE.exists():
        return {"known": [], "fixed": []}
    with open(KNOWN_FILE, encoding="utf-8") as fd:
        data = json.load(fd)
    data.setdefault("known", [])
    data.setdefault("fixed", [])
    return data


def _jsonable(x: Any) -> Any:
    if isinstance(x, (str, int, float, bool)) or x is None:
        return x
    if isinstance(x, dict):
        return {str(k): _jsonable(v) for k, v in x.items()}
    if isinstance(x, (list, tuple, set, frozenset)):
        return [_jsonable(v) for v in x]
    return repr(x)


def finish(report: Report, model_stats: Dict[str, Any], t0: float, files: Dict[str, str]) -> int:
    """Print the verdict lines, write evidence and replay files, return the exit code."""
    prop = report.prop
    known = load_known()
    known_idx = {
        (k["property"], k["rule"], k["site"], k["key"]): k for k in known["known"]
    }
    violations: List[Finding] = []
    matched: List[Dict[str, Any]] = []
    for f in report.findings:
        k = known_idx.get(f.ident(prop))
        if k is not None:
            matched.append(k)
            print(
                f"KNOWN-FINDING: property={prop} rule={f.rule} site={f.site} key={f.key} — {f.message}"
            )
        else:
            violations.append(f)

    n_obl = len(report.obligations)
    n_ok = sum(1 for o in report.obligations if o.ok)
    print(
        f"ANALYSED property={prop} tier={report.tier} files={model_stats.get('modules')} "
        f"functions={len(report.functions_analysed)} obligations={n_obl} discharged={n_ok} "
        f"known={len(matched)} violations={len(violations)}"
    )

    no_ev = bool(os.environ.get("JPSA_NO_EVIDENCE"))
    if not no_ev:
        REPLAY_DIR.mkdir(parents=True, exist_ok=True)
        # remove stale replay files of this property
        for p in REPLAY_DIR.glob(f"{prop}-*.json"):
            try:
                p.unlink()
            except OSError:
                pass
    for i, f in enumerate(violations, 1):
        rp = REPLAY_DIR / f"{prop}-{i}.json"
        if no_ev:
            print(f"VIOLATION property={prop} replay={rp}")
            loc = f"{f.file}:{f.line}" if f.file else f.site
            print(f"  rule={f.rule} at {loc} in {f.site} key={f.key}: {f.message}")
            continue
        with open(rp, "w", encoding="utf-8") as fd:
            json.dump(
                {
                    "property": prop,
                    "rule": f.rule,
                    "rule_text": report.rules.get(f.rule, ""),
                    "site": f.site,
                    "key": f.key,
                    "file": f.file,
                    "line": f.line,
                    "message": f.message,
                    "witness": _jsonable(f.witness),
                    "repo": os.environ.get("VERIF_REPO", "/repo"),
                },
                fd,
                indent=1,
                ensure_ascii=False,
            )
        print(f"VIOLATION property={prop} replay={rp}")
        loc = f"{f.file}:{f.line}" if f.file else f.site
        print(f"  rule={f.rule} at {loc} in {f.site} key={f.key}: {f.message}")

    for rule, site, why in report.undecided_list:
        print(f"ANALYSIS-ERROR property={prop} rule={rule} site={site}: {why}")

    nontrivial = {(o.rule, o.site, o.what) for o in report.obligations if o.nontrivial}
    samples = report.samples[:]
    for o in report.obligations[:: max(1, n_obl // 12)][:14]:
        samples.append(
            {"rule": o.rule, "site": o.site, "obligation": o.what, "holds": o.ok, "detail": _jsonable(o.detail)}
        )
    evidence = {
        "property_id": prop,
        "tier": report.tier,
        "seed": int(os.environ.get("VERIF_SEED", "0") or 0),
        "level": "other",
        "coverage": {
            "explanation": (
                "Static analysis of the package source (ast only; the package is never imported or run). "
                "Each obligation is one rule instance: a rule applied to one source construct or one abstract cell. "
                + report.extra.get("explanation", "")
            ),
            "obligations": n_obl,
            "discharged": n_ok,
            "evaluations": n_obl,
            "distinct_nontrivial": len(nontrivial),
            "rule": "one evaluation = one (rule, site, abstract cell) instance decided from the AST; "
            "non-trivial = verdict required an analysis result (abstract interpretation, automaton product, "
            "effect/flow analysis), distinct by (rule, site, cell)",
            "samples": _jsonable(samples) or [{"note": "no obligations"}],
            "exhaustive": bool(report.extra.get("exhaustive", False)),
            "rules": report.rules,
            "functions_analysed": sorted(report.functions_analysed),
            "files": files,
            "model": model_stats,
            "known_findings_matched": [
                {"rule": k["rule"], "site": k["site"], "key": k["key"]} for k in matched
            ],
            "not_decided": report.not_decided,
            "violations_detail": [
                {"rule": f.rule, "site": f.site, "key": f.key, "message": f.message, "file": f.file, "line": f.line}
                for f in violations
            ],
            **{k: _jsonable(v) for k, v in report.extra.items() if k not in ("explanation", "exhaustive")},
        },
        "assumptions": report.assumptions,
        "wall_s": round(time.time() - t0, 3),
        "violations": len(violations),
    }
    if os.environ.get("JPSA_NO_EVIDENCE"):
        return 1 if violations else (2 if report.undecided_list else 0)
    EVIDENCE_DIR.mkdir(parents=True, exist_ok=True)
    tmp = EVIDENCE_DIR / f".{prop}.json.tmp"
    with open(tmp, "w", encoding="utf-8") as fd:
        json.dump(evidence, fd, indent=1, ensure_ascii=False)
    os.replace(tmp, EVIDENCE_DIR / f"{prop}.json")
    return 1 if violations else (2 if report.undecided_list else 0)
