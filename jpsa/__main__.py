"""CLI: python -m jpsa check <Cnn> [--tier quick|thorough] | replay <path> | list."""

from __future__ import annotations

import argparse
import importlib
import json
import os
import sys
import time
import traceback

from .model import AnalysisError
from .model import Model
from .protocol import Report
from .protocol import finish

PROPS = [f"C{n:02d}" for n in range(1, 21)]


def run_check(prop: str, tier: str, only_rule: str | None = None) -> int:
    t0 = time.time()
    try:
        try:
            mod = importlib.import_module(f"jpsa.rules.{prop.lower()}")
        except ModuleNotFoundError:
            print(f"ANALYSIS-ERROR property={prop} no rules implemented for this property")
            return 2
        model = Model()
        report = Report(prop=prop, tier=tier)
        report.extra["only_rule"] = only_rule
        mod.check(model, report)
        report.extra.pop("only_rule", None)
        if not report.obligations:
            raise AnalysisError("no obligations were generated (vacuous run)")
        return finish(report, model.stats(), t0, model.file_digests())
    except AnalysisError as err:
        print(f"ANALYSIS-ERROR property={prop} {err}")
        return 2
    except Exception as err:  # noqa: BLE001 - never let a traceback look like a violation
        tb = traceback.format_exc(limit=8)
        print(f"ANALYSIS-ERROR property={prop} internal error: {type(err).__name__}: {err}")
        sys.stderr.write(tb)
        return 2


def main(argv: list[str] | None = None) -> int:
    ap = argparse.ArgumentParser(prog="jpsa")
    sub = ap.add_subparsers(dest="cmd", required=True)
    c = sub.add_parser("check")
    c.add_argument("prop")
    c.add_argument("--tier", default=os.environ.get("VERIF_TIER") or "quick", choices=["quick", "thorough"])
    r = sub.add_parser("replay")
    r.add_argument("path")
    sub.add_parser("list")
    args = ap.parse_args(argv)
    if args.cmd == "list":
        for p in PROPS:
            print(p)
        return 0
    if args.cmd == "check":
        prop = args.prop.upper()
        if prop not in PROPS:
            print(f"ANALYSIS-ERROR unknown property {prop}")
            return 2
        return run_check(prop, args.tier)
    if args.cmd == "replay":
        with open(args.path, encoding="utf-8") as fd:
            rp = json.load(fd)
        print(json.dumps(rp, indent=1, ensure_ascii=False))
        print("--- re-running the rule on the current tree ---")
        return run_check(rp["property"], "quick", only_rule=rp.get("rule"))
    return 2


if __name__ == "__main__":
    sys.exit(main())
