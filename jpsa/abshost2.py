"""Host model, part 2: attributes, subscripts, arithmetic, iteration, builtins."""

from __future__ import annotations

import ast
from typing import Any
from typing import Dict
from typing import List
from typing import Optional
from typing import Tuple

from .abshost import FALSE
from .abshost import NONE
from .abshost import TRUE
from .abshost import HostBase
from .abshost import const_kind
from .absctx import Unsupported
from .absval import *  # noqa: F403
from .absval import AV
from .numeric import Lin

STR_METHODS = {
    "startswith", "endswith", "lower", "upper", "strip", "lstrip", "rstrip", "split", "join",
    "replace", "count", "rfind", "find", "encode", "isdigit", "format", "index", "rsplit",
    "isalpha", "isalnum", "isspace", "title", "partition", "rpartition", "zfill", "splitlines",
    "isidentifier", "casefold", "removeprefix", "removesuffix", "isprintable", "isascii", "islower", "isupper",
    "isnumeric", "isdecimal", "translate", "expandtabs", "center", "ljust", "rjust", "swapcase", "capitalize",
}
LIST_MUTATORS = {"append", "extend", "pop", "popleft", "insert", "clear", "appendleft", "sort", "reverse", "remove", "rotate", "extendleft"}
DICT_MUTATORS = {"setdefault", "pop", "update", "popitem", "clear"}
SET_MUTATORS = {"add", "discard", "remove", "update", "clear", "pop"}


class Host(HostBase):
    # ------------------------------------------------------------- getattr
    def class_attr(self, ci: Any, name: str, inst: Optional[AV], node: Any) -> Optional[AV]:
        for c in ci.mro():
            if name in c.attrs:
                key = (c.qualname, name)
                if key not in self.i.class_attr_cache:
                    from .absint import Frame

                    fr = Frame(None, c.module)
                    # class-level names are visible while evaluating class-level expressions
                    for k, e in c.attrs.items():
                        if k == name:
                            break
                        ck = (c.qualname, k)
                        if ck in self.i.class_attr_cache:
                            fr.locals[k] = self.i.class_attr_cache[ck]
                        else:
                            try:
                                fr.locals[k] = self.i.eval(e, fr)
                                self.i.class_attr_cache[ck] = fr.locals[k]
                            except Unsupported:
                                pass
                    self.i.stack.append(fr)
                    try:
                        self.i.class_attr_cache[key] = self.i.eval(c.attrs[name], fr)
                    finally:
                        self.i.stack.pop()
                return self.i.class_attr_cache[key]
            if name in c.methods or name in c.aliases:
                m = c.find_method(name)
                if "property" in m.decorators:
                    if inst is None:
                        return FuncV(m)
                    if "abstractmethod" in m.decorators:
                        return self.opaque_call(inst, name, [], {}, node)
                    return self.i.call_function(m, [inst], {}, node, self_av=inst)
                if inst is not None and "staticmethod" not in m.decorators:
                    return BoundMethod(inst, m)
                return FuncV(m)
            if name in c.nested:
                return ClassV(c.nested[name])
        return None

    def lazy_constructor_attr(self, v: Inst, name: str, node: Any) -> Optional[AV]:
        """A harness-made instance (attributes set by hand, constructor not run) is asked for an attribute that its
        class's constructor assigns.  The assignment is evaluated on demand with each constructor parameter bound to
        the same-named attribute; if that is not possible the cell is undecidable (never an AttributeError finding:
        the real object would have the attribute)."""
        for ci in v.cls.mro():
            init = ci.methods.get("__init__")
            if init is None:
                continue
            for st in ast.walk(init.node):
                tgt = val = None
                if isinstance(st, ast.Assign) and len(st.targets) == 1:
                    tgt, val = st.targets[0], st.value
                elif isinstance(st, ast.AnnAssign) and st.value is not None:
                    tgt, val = st.target, st.value
                if not (isinstance(tgt, ast.Attribute) and tgt.attr == name and isinstance(tgt.value, ast.Name) and tgt.value.id == init.node.args.args[0].arg):
                    continue
                params = {a.arg for a in init.node.args.args[1:] + init.node.args.kwonlyargs}
                needed = {n.id for n in ast.walk(val) if isinstance(n, ast.Name) and n.id in params}
                # a value computed by package code from the compile-time structure (a helper, a method of the query):
                # the harness-made object stands for every such structure, so the value is an unknown of whatever
                # the constructor can produce; only simple expressions over the attributes are evaluated
                SIMPLE_CALLS = {"str", "int", "len", "abs", "bool", "float", "tuple", "slice", "repr", "min", "max", "frozenset", "list"}
                if any(isinstance(n, ast.Call) and not (isinstance(n.func, ast.Name) and n.func.id in SIMPLE_CALLS) for n in ast.walk(val)):
                    r = self.i.new_opaque(f"computed-at-construction:{v.cls.name}.{name}")
                    v.attrs[name] = r
                    return r
                if not all(p in v.attrs for p in needed):
                    raise self.unsupported(node, f"harness-made {v.cls.name} has no value for '{name}', which its constructor computes from {sorted(needed - set(v.attrs))}")
                from .absint import Frame

                fr = Frame(init, init.module)
                fr.self_av = v
                fr.locals[init.node.args.args[0].arg] = v
                for p_ in needed:
                    fr.locals[p_] = v.attrs[p_]
                env_ = v.attrs.get("env")
                cfg = self.i.compile_time_config(env_) if isinstance(env_, Inst) and env_.cls.name == "JSONPathEnvironment" else None
                try:
                    r = self.i.eval(val, fr)
                finally:
                    if cfg is not None:
                        env_.attrs.clear()
                        env_.attrs.update(cfg)
                v.attrs[name] = r
                return r
        return None

    def getattr(self, v: AV, name: str, node: Any = None) -> AV:
        if isinstance(v, PyTuple) and v.fields is not None and name in v.fields:
            return v.items[v.fields.index(name)]
        if isinstance(v, Inst):
            if name in v.attrs:
                return v.attrs[name]
            r = self.class_attr(v.cls, name, v, node)
            if r is not None:
                return r
            ext = v.cls.all_external_bases()
            if v.seq is not None or "__len__" in v.attrs:
                return HostMethod(v, name)
            if any(e in BUILTIN_EXC_BASES for e in ext):
                if name == "args":
                    return v.attrs.get("args", PyTuple(()))
                if name in ("__cause__", "__context__", "__traceback__"):
                    return NONE
                if name == "with_traceback":
                    return HostMethod(v, name)
            if name == "__class__":
                return ClassV(v.cls)
            if not v.constructed:
                r = self.lazy_constructor_attr(v, name, node)
                if r is not None:
                    return r
            raise self.raise_("AttributeError", f"{v.cls.name} object has no attribute {name}", node)
        if isinstance(v, ClassV):
            ci = v.ci
            ext = ci.all_external_bases()
            if any(b in ("Enum", "enum.Enum") for b in ext) and name in ci.attrs:
                return EnumV(ci, name)
            r = self.class_attr(ci, name, None, node)
            if r is not None:
                return r
            if name == "__name__":
                return Const(ci.name.split(".")[-1])
            raise self.raise_("AttributeError", f"class {ci.name} has no attribute {name}", node)
        if isinstance(v, EnumV):
            if name == "name":
                return Const(v.member)
            if name == "value":
                e = v.cls.attrs.get(v.member)
                if isinstance(e, ast.Constant):
                    return Const(e.value)
                return Const(list(v.cls.attrs).index(v.member) + 1)
            raise self.raise_("AttributeError", f"enum member has no attribute {name}", node)
        if isinstance(v, ModuleV):
            return self.i.module_global(v.mod, name, node)
        if isinstance(v, ExternalV):
            return ExternalV(f"{v.name}.{name}")
        if isinstance(v, Opaque):
            if name not in v.children:
                hint = self.attr_hint(v.hint, name)
                meth = None
                if v.hint is not None:
                    for c in [v.hint] + self.i.model.subclasses(v.hint):
                        mm = c.find_method(name)
                        if mm is not None:
                            meth = mm
                            break
                if meth is not None and "property" not in meth.decorators:
                    v.children[name] = HostMethod(v, name)
                else:
                    v.children[name] = self.typed_unknown(f"{v.label}.{name}", hint)
            return v.children[name]
        if isinstance(v, Sym):
            k = self.i.kind_of(v)
            if k == "dict" and name in ("items", "keys", "values", "get", "pop", "setdefault", "update", "clear", "popitem", "copy", "__getitem__", "__contains__"):
                return HostMethod(v, name)
            if k == "list" and name in ("append", "extend", "pop", "insert", "clear", "sort", "reverse", "remove", "index", "count", "copy", "__getitem__"):
                return HostMethod(v, name)
            if k == "str" and name in STR_METHODS:
                return HostMethod(v, name)
            raise self.raise_("AttributeError", f"{k} value has no attribute {name}", node)
        if isinstance(v, Const):
            if isinstance(v.value, str) and name in STR_METHODS:
                return HostMethod(v, name)
            if isinstance(v.value, bytes) and name in ("decode",):
                return HostMethod(v, name)
            raise self.raise_("AttributeError", f"{type(v.value).__name__} object has no attribute {name}", node)
        if isinstance(v, (SymStr, SymChar)):
            if name in STR_METHODS:
                return HostMethod(v, name)
            raise self.raise_("AttributeError", f"str object has no attribute {name}", node)
        if isinstance(v, (PyList, PyDict, PySet, PyTuple, Source, Stream, GenV, AbsQueue)):
            return HostMethod(v, name)
        if isinstance(v, SliceV):
            if name in ("start", "stop", "step"):
                return getattr(v, name)
            return HostMethod(v, name)
        if isinstance(v, Term):
            return HostMethod(v, name)
        if isinstance(v, IntV):
            raise self.raise_("AttributeError", f"int object has no attribute {name}", node)
        if isinstance(v, HostExc):
            if name == "args":
                return PyTuple((Const(v.msg),))
            return NONE
        if isinstance(v, (FuncV, BoundMethod)):
            if name == "__name__":
                return Const(v.fi.name)
        raise self.unsupported(node, f"attribute {name} of {v!r}")

    def attr_hint(self, ci: Any, name: str) -> Any:
        """Declared class of attribute *name* of class *ci* (from annotations), or None."""
        if ci is None:
            return None
        for c in ci.mro():
            ann = c.attr_annotations.get(name)
            if ann is None:
                init = c.methods.get("__init__")
                if init is not None:
                    for a in init.node.args.args + init.node.args.kwonlyargs:
                        if a.arg == name and a.annotation is not None:
                            ann = a.annotation
                    for st in ast.walk(init.node):
                        if isinstance(st, ast.AnnAssign) and isinstance(st.target, ast.Attribute) and st.target.attr == name:
                            ann = st.annotation
            if ann is not None:
                return ("ann", c.module, ann)
        return None

    def typed_unknown(self, label: str, hint: Any) -> AV:
        """An unknown value of an annotated type."""
        if hint is None:
            return self.i.new_opaque(label, None)
        _, mod, ann = hint
        text = ast.unparse(ann)
        if isinstance(ann, ast.Constant) and isinstance(ann.value, str):
            text = ann.value
        base = text.split("[")[0].strip()
        if base in ("int",):
            return self.i.new_int(label)
        if base in ("str",):
            return self.i.new_str(label)
        if base in ("bool",):
            return self.i.new_sym(label, ["bool"])
        r = self.i.model.resolve_global(mod, base)
        if r is not None and r[0] == "class":
            return self.i.new_opaque(label, r[1])
        if base in ("Tuple", "tuple", "List", "list", "Sequence", "Iterable") and "[" in text:
            inner = text[text.index("[") + 1 :].split(",")[0].strip(" ]")
            r = self.i.model.resolve_global(mod, inner)
            o = self.i.new_opaque(label, None)
            if r is not None and r[0] == "class":
                o.children["__elem_hint__"] = ClassV(r[1])
            return o
        return self.i.new_opaque(label, None)

    # ------------------------------------------------------------- setattr
    def setattr(self, obj: AV, name: str, v: AV, node: Any = None) -> None:
        if isinstance(obj, Inst):
            if obj.depth < self.i.loop_depth:
                self.i.emit(Ev("mutate", value=obj, info=("setattr", name), site=self.i.site(node)))
            self.ctx.log.append(("setattr", obj, name, self.i.site(node) if node is not None else None))
            obj.attrs[name] = v
            return
        if isinstance(obj, Opaque):
            self.i.emit(Ev("mutate", value=obj, info=("setattr", name), site=self.i.site(node)))
            obj.children[name] = v
            return
        if isinstance(obj, ClassV):
            self.i.emit(Ev("mutate", value=obj, info=("class-setattr", name), site=self.i.site(node)))
            return
        raise self.unsupported(node, f"attribute store on {obj!r}")

    def note_mutation(self, obj: AV, how: Any, node: Any) -> None:
        depth = getattr(obj, "depth", None)
        if depth is None or depth < self.i.loop_depth or isinstance(obj, (Sym, Opaque)):
            self.i.emit(Ev("mutate", value=obj, info=how, site=self.i.site(node)))

    def setitem(self, obj: AV, idx: AV, v: AV, node: Any = None) -> None:
        from .absint import hkey

        if isinstance(obj, PyDict):
            self.note_mutation(obj, ("setitem",), node)
            hk = hkey(idx)
            obj.items[hk] = v
            obj.keys_av[hk] = idx
            return
        if isinstance(obj, PyList) and isinstance(idx, Const) and isinstance(idx.value, int):
            self.note_mutation(obj, ("setitem",), node)
            try:
                obj.items[idx.value] = v
            except IndexError:
                raise self.raise_("IndexError", "list assignment index out of range", node) from None
            return
        if isinstance(obj, (Sym, Opaque, Term, Source)):
            self.i.emit(Ev("mutate", value=obj, info=("setitem", idx), site=self.i.site(node)))
            return
        if isinstance(obj, Inst) and obj.seq is not None:
            return self.setitem(obj.seq, idx, v, node)
        raise self.unsupported(node, f"item store on {obj!r}")

    # ------------------------------------------------------------ subscript
    def subscript(self, v: AV, idx: AV, node: Any = None) -> AV:
        from .absint import hkey

        if isinstance(v, (PyList, PyTuple)):
            if isinstance(idx, Const) and isinstance(idx.value, int):
                try:
                    return v.items[idx.value]
                except IndexError:
                    raise self.raise_("IndexError", "index out of range", node) from None
            if isinstance(idx, SliceV):
                sl = self.concrete_slice(idx, node)
                items = v.items[sl]
                return PyTuple(items) if isinstance(v, PyTuple) else self.i.new_list(items)
            if isinstance(idx, IntV):
                lo, hi = self.ctx.oct.bounds_var(idx.lin.vars()[0]) if len(idx.lin.coefs) == 1 else (None, None)
                n = len(v.items)
                # enumerate feasible indices
                f = idx.lin
                for k in range(-n, n):
                    pass
                opts = [k for k in range(0, n)]
                if opts and self.ctx.oct.min_of(f) >= 0 and self.ctx.oct.max_of(f) <= n - 1:
                    k = self.ctx.choose(("listidx", f.key(), n), opts)
                    self.ctx.assume_le0(f - Lin.k(k))
                    self.ctx.assume_le0(Lin.k(k) - f)
                    return v.items[k]
                raise self.unsupported(node, f"symbolic index {idx!r} into concrete sequence of {n}")
            if isinstance(idx, (Opaque, Term)) and v.items:
                # an index only known to be some element of unbounded data (e.g. a flag drawn by random.sample):
                # one of the items, which one is not known
                return Term("select", (v, idx), self.ctx.new_id())
            raise self.raise_("TypeError", f"sequence indices must be integers, not {idx!r}", node)
        if isinstance(v, PyDict):
            if isinstance(idx, SymChar):
                fx = self.ctx.char_fixed.get(idx.id)
                if fx is not None:
                    idx = Const(fx)
                else:
                    for k in sorted(v.items, key=repr):
                        kav = v.keys_av[k]
                        if isinstance(kav, Const) and isinstance(kav.value, str) and len(kav.value) == 1 and self.char_is(idx, kav.value):
                            return v.items[k]
                    raise self.raise_("KeyError", repr(idx), node)
            try:
                hk = hkey(idx)
            except Unsupported:
                if isinstance(idx, (Opaque, Term, Sym, SymStr)):
                    # dynamic key into a concrete table
                    keys = sorted(v.items, key=repr)
                    r = self.ctx.choose(("dictkey", v.oid, getattr(idx, "id", 0)), keys + ["<missing>"])
                    if r == "<missing>":
                        raise self.raise_("KeyError", repr(idx), node) from None
                    return v.items[r]
                raise
            if hk not in v.items:
                raise self.raise_("KeyError", repr(idx), node)
            return v.items[hk]
        if isinstance(v, Const) and isinstance(v.value, (str, bytes)):
            if isinstance(idx, Const) and isinstance(idx.value, int):
                try:
                    r = v.value[idx.value]
                    return Const(r)
                except IndexError:
                    raise self.raise_("IndexError", "string index out of range", node) from None
            if isinstance(idx, SliceV):
                return Const(v.value[self.concrete_slice(idx, node)])
            raise self.unsupported(node, f"string subscript {idx!r}")
        if isinstance(v, Inst):
            m = v.cls.find_method("__getitem__")
            if m is not None:
                return self.i.call_function(m, [v, idx], {}, node, self_av=v)
            if "__len__" in v.attrs:
                return self.abstract_seq_item(v, idx, node)
            if v.seq is not None:
                return self.subscript(v.seq, idx, node)
            raise self.raise_("TypeError", f"{v.cls.name} object is not subscriptable", node)
        if isinstance(v, Sym):
            k = self.i.kind_of(v)
            if k == "dict":
                kk = self.json_kind(idx)
                if not self.has_key(v, idx):
                    raise self.raise_("KeyError", repr(idx), node)
                return self.member(v, idx)
            if k == "list":
                if isinstance(idx, SliceV):
                    return Source("slice", v, fresh=True, id=self.ctx.new_id(), depth=self.i.loop_depth, extra=idx)
                f = self.as_lin(idx)
                if f is None:
                    if isinstance(idx, (Opaque, Term)):
                        r = self.ctx.choose(("listidx_opaque", v.id, idx.id), ["ok", "IndexError", "TypeError"])
                        if r != "ok":
                            raise self.raise_(r, "list index", node)
                        return self.list_item(v, ("o", idx.id))
                    raise self.raise_("TypeError", "list indices must be integers or slices", node)
                if isinstance(idx, IntV) and len(f.coefs) == 1 and f.const == 0:
                    (var, c), = f.coefs.items()
                    if c == 1 and var in self.elem_by_var:
                        el = self.elem_by_var[var]
                        base = el.src.base
                        while isinstance(base, Source):
                            base = base.base
                        if base is v and el.val is not None:
                            return el.val
                n = Lin.var(self.len_var(("sym", v.id), v.label))
                # in bounds  <=>  -n <= i <= n-1
                hi_ok = self.ctx.decide_le0(f - n + Lin.k(1))
                lo_ok = self.ctx.decide_le0(-f - n) if hi_ok else False
                if not (hi_ok and lo_ok):
                    raise self.raise_("IndexError", "list index out of range", node)
                # element identity = the non-negative position
                if not self.ctx.decide_le0(-f):
                    f = f + n
                return self.list_item(v, ("l", f.key()))
            if k == "str":
                if isinstance(idx, SliceV):
                    return self.i.new_sym(f"{v.label}[slice]", ["str"])
                return Term("strchar", (v, idx), self.ctx.new_id())
            raise self.raise_("TypeError", f"{k} value is not subscriptable", node)
        if isinstance(v, SymStr):
            if isinstance(idx, SliceV):
                one = self._one_char_slice(v, idx, node)
                if one is not None:
                    return one
                return self.substr(v, idx, node)
            f = self.as_lin(idx)
            if f is None:
                raise self.raise_("TypeError", "string indices must be integers", node)
            n = Lin.var(v.len_var)
            if not self.ctx.decide_le0(f - n + Lin.k(1)):
                raise self.raise_("IndexError", "string index out of range", node)
            if not self.ctx.decide_le0(-f):
                if not self.ctx.decide_le0(-f - n):
                    raise self.raise_("IndexError", "string index out of range", node)
                f = f + n
            key = (v.id, f.key())
            if key not in self.chars:
                cpv = self.ctx.new_int(f"cp({v.label}[{f.show(self.ctx.names)}])", 0, 0x10FFFF)
                self.chars[key] = SymChar(self.ctx.new_id(), f"{v.label}[{f.show(self.ctx.names)}]", cpv)
            return self.chars[key]
        if isinstance(v, Opaque):
            key = f"[{self.key_desc(idx)}]"
            if key not in v.children:
                eh = v.children.get("__elem_hint__")
                v.children[key] = self.i.new_opaque(f"{v.label}{key}", eh.ci if isinstance(eh, ClassV) else None)
            return v.children[key]
        if isinstance(v, Term):
            if self.is_strlike(v) and isinstance(idx, SliceV):
                return Term("strslice", (v, idx.start, idx.stop, idx.step), self.ctx.new_id())
            if v.op == "strmeth" and len(v.args) > 1 and v.args[1] in ("splitlines", "split", "rsplit") and not isinstance(idx, SliceV):
                # a list whose length depends on the text: "".splitlines() is empty, x.split(sep) has at least one
                # element, nothing more is known (A1)
                always = v.args[1] != "splitlines" and isinstance(idx, Const) and idx.value in (0, -1)
                if not always and self.ctx.choose(("split-item", v.id, self.key_desc(idx)), ["item", "IndexError"]) != "item":
                    raise self.raise_("IndexError", "list index out of range", node)
            return Term("getitem", (v, idx), self.ctx.new_id())
        if isinstance(v, Source):
            if isinstance(idx, SliceV):
                s2 = Source(v.view, v.base, v.order + [("slice", repr(idx))], fresh=True, id=self.ctx.new_id(), depth=self.i.loop_depth, extra=v.extra)
                return s2
            return Term("getitem", (v, idx), self.ctx.new_id())
        if isinstance(v, Stream) and all(e.kind == "yield" for e in v.events):
            return self.subscript(PyList([e.value for e in v.events]), idx, node)
        if isinstance(v, Stream) and v.kind == "list" and len(v.events) == 1 and v.events[0].kind == "foreach" and all(e.kind in ("yield", "carried") for e in v.events[0].body):
            # a list built by a comprehension over unbounded data: every element is an instance of the generic one
            ys = [e for e in v.events[0].body if e.kind == "yield"]
            if isinstance(idx, SliceV):
                return Stream(list(v.events), None, "list", self.ctx.new_id())
            if self.as_lin(idx) is None and not isinstance(idx, (Opaque, Term)):
                raise self.raise_("TypeError", "list indices must be integers or slices", node)
            if len(ys) != 1:
                if not ys:
                    raise self.raise_("IndexError", "list index out of range", node)
                raise self.unsupported(node, f"subscript of {v!r}")
            if isinstance(idx, Const) and isinstance(idx.value, int) and not isinstance(idx.value, bool):
                # a constant position: in range iff the list is long enough, which an earlier emptiness / length test
                # on the same list may already have settled (its length is one variable of the octagon)
                ln = self.length(v, node)
                need = idx.value + 1 if idx.value >= 0 else -idx.value
                if isinstance(ln, IntV):
                    if not self.ctx.decide_le0(Lin.k(need) - ln.lin):
                        raise self.raise_("IndexError", "list index out of range", node)
                    return ys[0].value
            if self.ctx.choose(("stream-item", v.id, self.key_desc(idx)), ["item", "IndexError"]) != "item":
                raise self.raise_("IndexError", "list index out of range", node)
            return ys[0].value
        if isinstance(v, (IntV, EnumV)) or (isinstance(v, Const)):
            raise self.raise_("TypeError", "object is not subscriptable", node)
        if isinstance(v, ExternalV):
            return v  # typing generics such as List[int]
        raise self.unsupported(node, f"subscript of {v!r}")

    def _one_char_slice(self, v: SymStr, idx: Any, node: Any) -> Optional[AV]:
        """`s[i:i+1]` with i >= 0: the character at i, or "" when i is at or beyond the end (slices never raise)."""
        if idx.step is not None and not (isinstance(idx.step, Const) and idx.step.value in (None, 1)):
            return None
        a = self.as_lin(idx.start) if idx.start is not None else None
        b = self.as_lin(idx.stop) if idx.stop is not None else None
        if a is None or b is None:
            return None
        d = b - a
        if not (d.is_const() and d.const == 1):
            return None
        if not self.ctx.oct.entails_le0(-a):
            return None
        n = Lin.var(v.len_var)
        if self.ctx.decide_le0(a - n + Lin.k(1)):
            return self.subscript(v, IntV(a), node)
        return Const("")

    def list_item(self, v: Sym, key: Any) -> AV:
        k = ("item", v.id, key)
        if k not in self.members:
            self.members[k] = self.i.new_sym(f"{v.label}[i]", origin=("item", v, key))
        return self.members[k]

    def abstract_seq_item(self, inst: Inst, idx: AV, node: Any) -> AV:
        f = self.as_lin(idx)
        if f is None:
            raise self.unsupported(node, f"subscript {idx!r} of abstract node list")
        n = inst.attrs["__len__"].lin  # type: ignore[union-attr]
        if not self.ctx.decide_le0(f - n + Lin.k(1)) or not self.ctx.decide_le0(-f - n):
            raise self.raise_("IndexError", "list index out of range", node)
        key = f"__item_{f.key()}"
        if key not in inst.attrs:
            ncls = inst.attrs["__node_cls__"].ci  # type: ignore[union-attr]
            node_inst = self.i.new_inst(ncls, f"{inst.label}[{f.show()}]")
            v0 = inst.attrs.get("__value0__")
            if v0 is not None and f.is_const() and f.const == 0:
                node_inst.attrs["value"] = v0
            else:
                node_inst.attrs["value"] = self.i.new_sym(f"{inst.label}[{f.show()}].value")
            node_inst.attrs["location"] = self.i.new_opaque(f"{inst.label}[{f.show()}].location")
            node_inst.attrs["root"] = self.i.new_sym(f"{inst.label}.root")
            inst.attrs[key] = node_inst
        return inst.attrs[key]

    def concrete_slice(self, s: SliceV, node: Any) -> slice:
        def c(x: AV):
            if isinstance(x, Const) and (x.value is None or isinstance(x.value, int)):
                return x.value
            raise self.unsupported(node, f"symbolic slice bound {x!r} on concrete sequence")

        return slice(c(s.start), c(s.stop), c(s.step))

    def substr(self, v: SymStr, s: SliceV, node: Any) -> AV:
        if not (isinstance(s.step, Const) and s.step.value is None):
            raise self.unsupported(node, "stepped string slice")
        lo = self.as_lin(s.start) if not (isinstance(s.start, Const) and s.start.value is None) else Lin.k(0)
        n = Lin.var(v.len_var)
        hi = self.as_lin(s.stop) if not (isinstance(s.stop, Const) and s.stop.value is None) else n
        if lo is None or hi is None:
            raise self.unsupported(node, "non-integer string slice")
        sub = self.i.new_str(f"{v.label}[{lo.show(self.ctx.names)}:{hi.show(self.ctx.names)}]", origin=("substr", v, lo, hi))
        # length = max(0, min(hi, n) - max(lo, 0)) ; decide the common in-bounds case
        if self.ctx.oct.entails_le0(-lo) and self.ctx.oct.entails_le0(hi - n) and self.ctx.oct.entails_le0(lo - hi):
            ln = hi - lo
            sl = Lin.var(sub.len_var)
            self.ctx.assume_le0(sl - ln) if self.ctx.oct.representable(sl - ln) or (sl - ln).is_const() else None
            self.ctx.assume_le0(ln - sl) if self.ctx.oct.representable(ln - sl) else None
        return sub

    # ---------------------------------------------------------------- binop
    def binop(self, op: str, a: AV, b: AV, node: Any = None, inplace: bool = False) -> AV:
        if op == "Add" and isinstance(a, Source) and isinstance(b, Source):
            # two pieces of abstract sequences glued together: if both are cut from the same sequence this is a
            # rearrangement of it (a rotation, a swap of halves, ...), never its own order nor a uniform shuffle
            ba, bb = a, b
            while isinstance(ba.base, Source):
                ba = ba.base
            while isinstance(bb.base, Source):
                bb = bb.base
            if ba.base is bb.base or ba is bb:
                return Source(ba.view, ba.base, list(ba.order) + list(a.order if a is not ba else []) + ["rearranged-by-concatenating-slices"], fresh=True, id=self.ctx.new_id(), depth=self.i.loop_depth)
            raise self.unsupported(node, "concatenation of two different abstract sequences")
        if isinstance(a, PySet) and isinstance(b, PySet) and op in ("BitOr", "BitAnd", "Sub", "BitXor"):
            ka, kb = set(a.items), set(b.items)
            keys = {"BitOr": ka | kb, "BitAnd": ka & kb, "Sub": ka - kb, "BitXor": ka ^ kb}[op]
            out = PySet(depth=self.i.loop_depth, oid=self.ctx.new_id())
            for k in keys:
                out.items.add(k)
                out.keys_av[k] = a.keys_av[k] if k in a.keys_av else b.keys_av[k]
            return out
        if isinstance(a, PyDict) and isinstance(b, PyDict) and op == "BitOr":
            out_d = PyDict(depth=self.i.loop_depth, oid=self.ctx.new_id())
            for src in (a, b):
                for k, v in src.items.items():
                    out_d.items[k] = v
                    out_d.keys_av[k] = src.keys_av[k]
            return out_d
        if isinstance(a, Const) and isinstance(b, Const):
            try:
                x, y = a.value, b.value
                if op == "Add":
                    return Const(x + y)
                if op == "Sub":
                    return Const(x - y)
                if op == "Mult":
                    return Const(x * y)
                if op == "Pow":
                    return Const(x**y)
                if op == "FloorDiv":
                    return Const(x // y)
                if op == "Mod":
                    return Const(x % y)
                if op == "LShift":
                    return Const(x << y)
                if op == "RShift":
                    return Const(x >> y)
                if op == "BitAnd":
                    return Const(x & y)
                if op == "BitOr":
                    return Const(x | y)
                if op == "BitXor":
                    return Const(x ^ y)
                if op == "Div":
                    return Const(x / y)
            except TypeError:
                raise self.raise_("TypeError", f"unsupported operand types for {op}", node) from None
            except ZeroDivisionError:
                raise self.raise_("ZeroDivisionError", "division by zero", node) from None
        la, lb = self.as_lin(a), self.as_lin(b)
        if la is not None and lb is not None:
            if op == "Add":
                return self.from_lin(la + lb)
            if op == "Sub":
                return self.from_lin(la - lb)
            if op == "Mult":
                if lb.is_const():
                    return self.from_lin(la.scale(lb.const))
                if la.is_const():
                    return self.from_lin(lb.scale(la.const))
            if op == "LShift" and lb.is_const() and lb.const >= 0:
                return self.from_lin(la.scale(2**lb.const))
            if op == "BitAnd":
                x, m = (la, lb) if lb.is_const() else (lb, la)
                if m.is_const() and m.const >= 0 and (m.const & (m.const + 1)) == 0:
                    size = m.const + 1
                    lo, hi = self.ctx.oct.min_of(x), self.ctx.oct.max_of(x)
                    if lo != float("-inf") and hi != float("inf"):
                        base = (int(lo) // size) * size
                        if hi <= base + m.const:
                            return self.from_lin(x - Lin.k(base))
                    fresh = self.i.new_int(f"({x.show(self.ctx.names)} & {m.const:#x})", 0, m.const)
                    return fresh
            if op == "BitOr":
                for x, y in ((la, lb), (lb, la)):
                    lo, hi = self.ctx.oct.min_of(y), self.ctx.oct.max_of(y)
                    if lo >= 0 and hi != float("inf"):
                        size = 1
                        while size <= hi:
                            size *= 2
                        if x.aligned(size) and self.ctx.oct.min_of(x) >= 0:
                            return self.from_lin(x + y)
                return self.i.new_int(f"({la.show(self.ctx.names)} | {lb.show(self.ctx.names)})")
            if op in ("Pow", "LShift") and self.ctx.oct.max_of(lb) == float("inf") and not (la.is_const() and la.const in (0, 1, -1) and op == "Pow"):
                # A1: the result of b ** n / b << n needs memory (and time) proportional to n: with an exponent that
                # nothing bounds, the host raises MemoryError or does not return within any reasonable time
                if self.ctx.choose(("pow-unbounded", lb.key()), ["ok", "MemoryError"]) != "ok":
                    raise self.raise_("MemoryError", f"{op} with an exponent that nothing bounds", node)
            if op in ("FloorDiv", "Mod", "RShift", "BitXor", "Pow", "Mult", "LShift", "Div"):
                return self.i.new_int(f"({la.show(self.ctx.names)} {op} {lb.show(self.ctx.names)})")
        if op == "Add":
            if isinstance(a, PyTuple) and isinstance(b, PyTuple):
                return PyTuple(a.items + b.items)
            if isinstance(a, PyList) and isinstance(b, PyList):
                if inplace:
                    self.note_mutation(a, ("iadd",), node)
                    a.items.extend(b.items)
                    return a
                return self.i.new_list(a.items + b.items)
            if isinstance(a, (Opaque, Term, PyTuple)) and isinstance(b, (Opaque, Term, PyTuple)):
                return Term("add", (a, b), self.ctx.new_id())
            sa, sb = self.is_strlike(a), self.is_strlike(b)
            if sa and sb:
                # x + "" is x itself for a str (same value; identity is not observable for immutable text)
                if isinstance(b, Const) and b.value == "" and self.is_strlike(a):
                    return a
                if isinstance(a, Const) and a.value == "" and self.is_strlike(b):
                    return b
                return Term("concat", (a, b), self.ctx.new_id())
        if op == "Mult":
            for x, y in ((a, b), (b, a)):
                if isinstance(x, PyList) and isinstance(y, Const) and isinstance(y.value, int):
                    return self.i.new_list(x.items * y.value)
                if isinstance(x, PyList):
                    return Term("listmul", (x, y), self.ctx.new_id())
                if isinstance(x, Const) and isinstance(x.value, str) and self.as_lin(y) is not None:
                    return Term("strmul", (x, y), self.ctx.new_id())
        if op == "Mod" and isinstance(a, Const) and isinstance(a.value, str):
            simple = self._printf(a.value, b, node)
            if simple is not None:
                return simple
            return Term("strformat", (a, b), self.ctx.new_id())
        if op == "Mod" and not isinstance(a, Const) and self.is_strlike(a):
            # printf-style formatting of a string built from data: a '%' in the data is read as a conversion
            how = self.ctx.choose(("dynamic-format", getattr(a, "id", 0), self.i.site(node)), ["ok", "ValueError", "TypeError"])
            if how != "ok":
                raise self.raise_(how, "format string built from data: '%' in the data is read as a conversion", node)
            return Term("strformat", (a, b), self.ctx.new_id())
        ka, kb = self.json_kind(a), self.json_kind(b)
        if isinstance(a, Sym) or isinstance(b, Sym):
            # arithmetic on document values: host may raise TypeError; result is a new JSON-ish value
            r = self.ctx.choose(("arith", op, getattr(a, "id", repr(a)), getattr(b, "id", repr(b))), ["value", "TypeError"])
            if r == "TypeError":
                raise self.raise_("TypeError", f"unsupported operand types for {op}", node)
            return self.i.new_sym(f"({a!r} {op} {b!r})", ["int", "float", "str", "list"])
        if isinstance(a, (Opaque, Term)) or isinstance(b, (Opaque, Term)):
            return Term(op.lower(), (a, b), self.ctx.new_id())
        raise self.unsupported(node, f"{op} on {a!r} and {b!r}")

    def _printf(self, template: str, b: AV, node: Any) -> Optional[AV]:
        """'...%s...%d...' % args with plain %s / %d / %i / %r / %% conversions only, as the equivalent f-string."""
        import re as _re

        vals = list(b.items) if isinstance(b, PyTuple) else [b]
        parts: List[AV] = []
        pos = 0
        k = 0
        for m in _re.finditer(r"%(.)", template):
            if m.start() > pos:
                parts.append(Const(template[pos:m.start()]))
            pos = m.end()
            c = m.group(1)
            if c == "%":
                parts.append(Const("%"))
                continue
            if c not in "sdir":
                return None
            if k >= len(vals):
                raise self.raise_("TypeError", "not enough arguments for format string", node)
            v = vals[k]
            k += 1
            if c in "di" and not (isinstance(v, IntV) or (isinstance(v, Const) and isinstance(v.value, int))):
                return None
            parts.append(self.to_str(v, repr_=(c == "r"), node=node))
        if k != len(vals):
            raise self.raise_("TypeError", "not all arguments converted during string formatting", node)
        if pos < len(template):
            parts.append(Const(template[pos:]))
        if all(isinstance(x, Const) for x in parts):
            return Const("".join(x.value for x in parts))
        return Term("fstr", tuple(parts), self.ctx.new_id())

    def is_strlike(self, v: AV) -> bool:
        if isinstance(v, Const):
            return isinstance(v.value, str)
        if isinstance(v, (SymStr, SymChar)):
            return True
        if isinstance(v, Term) and v.op in ("concat", "fstr", "str", "repr", "ascii", "strmeth", "join", "canonical", "json.dumps", "strslice"):
            return True
        if isinstance(v, Sym):
            return self.i.kind_of(v) == "str"
        return False

    # --------------------------------------------------------------- to_str
    def to_str(self, v: AV, repr_: bool = False, node: Any = None) -> AV:
        if isinstance(v, Const):
            return Const(repr(v.value) if repr_ else str(v.value))
        if isinstance(v, EnumV):
            return Const(f"<{v.cls.name}.{v.member}: ?>" if repr_ else f"{v.cls.name}.{v.member}")
        if isinstance(v, Inst):
            m = v.cls.find_method("__repr__" if repr_ else "__str__") or v.cls.find_method("__repr__")
            if m is not None:
                return self.i.call_function(m, [v], {}, node, self_av=v)
            return Term("repr" if repr_ else "str", (v,), self.ctx.new_id())
        if isinstance(v, PyList) and not repr_:
            parts = [self.to_str(x, True, node) for x in v.items]
            if all(isinstance(p, Const) for p in parts):
                return Const("[" + ", ".join(p.value for p in parts) + "]")  # type: ignore[union-attr]
        if isinstance(v, (SymStr, SymChar)) and not repr_:
            return v
        if isinstance(v, Term) and not repr_ and self.is_strlike(v):
            return v
        return Term("repr" if repr_ else "str", (v,), self.ctx.new_id())

    # -------------------------------------------------------------- iterate
    def iterate(self, v: AV, node: Any = None) -> Tuple[str, Any]:
        if isinstance(v, (PyList, PyTuple)):
            return "concrete", list(v.items)
        if isinstance(v, PyDict):
            return "concrete", [v.keys_av[k] for k in v.items]
        if isinstance(v, PySet):
            return "concrete", [v.keys_av[k] for k in sorted(v.items, key=repr)]
        if isinstance(v, Const) and isinstance(v.value, str):
            return "concrete", [Const(c) for c in v.value]
        if isinstance(v, Const) and isinstance(v.value, bytes):
            return "concrete", [Const(c) for c in v.value]
        if isinstance(v, Inst):
            if "__len__" in v.attrs:
                return "abstract", Source("elems", v, id=self.ctx.new_id(), depth=self.i.loop_depth)
            if v.seq is not None:
                return self.iterate(v.seq, node)
            m = v.cls.find_method("__iter__")
            if m is not None:
                return self.iterate(self.i.call_function(m, [v], {}, node, self_av=v), node)
            raise self.raise_("TypeError", f"{v.cls.name} object is not iterable", node)
        if isinstance(v, Source):
            return "abstract", v
        if isinstance(v, Stream):
            if all(e.kind == "yield" for e in v.events):
                return "concrete", [e.value for e in v.events]
            return "stream", v
        if isinstance(v, GenV):
            events, terminal = self.i.run_gen(v)
            if terminal is None and all(e.kind == "yield" for e in events):
                return "concrete", [e.value for e in events]
            return "stream", v
        if isinstance(v, Sym):
            k = self.i.kind_of(v)
            if k == "list":
                return "abstract", Source("elems", v, id=self.ctx.new_id(), depth=self.i.loop_depth)
            if k == "dict":
                return "abstract", Source("keys", v, id=self.ctx.new_id(), depth=self.i.loop_depth)
            if k == "str":
                return "abstract", Source("chars", v, id=self.ctx.new_id(), depth=self.i.loop_depth)
            raise self.raise_("TypeError", f"{k} value is not iterable", node)
        if isinstance(v, SymStr):
            return "abstract", Source("chars", v, id=self.ctx.new_id(), depth=self.i.loop_depth)
        if isinstance(v, Term) and v.op == "dictview":
            view, d = v.args
            if view == "items":
                return "concrete", [PyTuple((d.keys_av[k], d.items[k])) for k in d.items]
            if view == "keys":
                return "concrete", [d.keys_av[k] for k in d.items]
            return "concrete", [d.items[k] for k in d.items]
        if isinstance(v, Term) and v.op == "enumerate_concrete":
            return "concrete", list(v.args)
        if isinstance(v, AbsQueue) and v.items is not None:
            return "concrete", list(v.items)
        if isinstance(v, (Opaque, Term, AbsQueue)):
            return "abstract", Source("opaque", v, id=self.ctx.new_id(), depth=self.i.loop_depth)
        if isinstance(v, (Const, IntV, EnumV)):
            raise self.raise_("TypeError", "object is not iterable", node)
        raise self.unsupported(node, f"iteration over {v!r}")

    def make_elem(self, src: Source, node: Any = None) -> Elem:
        el = Elem(self.ctx.new_id(), src)
        view = src.view
        base = src.base

        def container_label(b: Any) -> str:
            return getattr(b, "label", None) or repr(b)

        if view in ("items", "keys", "values"):
            key = self.i.new_str(f"key@{el.id}({container_label(base)})", origin=("elemkey", el))
            val = self.i.new_sym(f"val@{el.id}({container_label(base)})", origin=("elemval", el))
            el.key, el.val = key, val
            self.elem_by_str[key.id] = el
            el.target = {"items": PyTuple((key, val)), "keys": key, "values": val}[view]
        elif view == "elems":
            if isinstance(base, Inst):
                n = self.length(base, node)
                idx = self.i.new_int(f"idx@{el.id}", 0)
                self.ctx.assume_le0(idx.lin - self.as_lin(n) + Lin.k(1))  # type: ignore[operator]
                el.key = idx
                el.val = self.abstract_seq_item(base, idx, node)
                self.elem_by_var[idx.lin.vars()[0]] = el
            else:
                idx = self.i.new_int(f"idx@{el.id}", 0)
                if isinstance(base, Sym):
                    n = Lin.var(self.len_var(("sym", base.id), base.label))
                    self.ctx.assume_le0(idx.lin - n + Lin.k(1))
                el.key = idx
                el.val = self.i.new_sym(f"val@{el.id}({container_label(base)})", origin=("elemval", el))
                self.elem_by_var[idx.lin.vars()[0]] = el
            el.target = el.val
        elif view == "indices":
            idx = self.i.new_int(f"idx@{el.id}", 0)
            n = Lin.var(self.len_var(("sym", base.id), base.label))
            self.ctx.assume_le0(idx.lin - n + Lin.k(1))
            el.key = idx
            el.val = self.i.new_sym(f"val@{el.id}({container_label(base)})", origin=("elemval", el))
            self.elem_by_var[idx.lin.vars()[0]] = el
            el.target = idx
        elif view == "enumerate":
            inner: Source = base
            sub = self.make_elem(inner, node)
            if inner.view in ("elems", "slice") and not inner.order:
                idx = sub.key
                if src.extra is not None:  # enumerate(x, start)
                    idx = self.i.new_int(f"enum@{el.id}", 0)
            else:
                idx = self.i.new_int(f"enum@{el.id}", 0)
            el.key, el.val = idx, sub.target
            el.info = sub  # type: ignore[attr-defined]
            el.target = PyTuple((idx, sub.target))
        elif view == "zip":
            subs = [self.make_elem(s, node) for s in base]
            el.key = subs[0].target
            el.val = subs[-1].target
            el.target = PyTuple(tuple(s.target for s in subs))
        elif view == "range":
            idx = self.i.new_int(f"r@{el.id}")
            # A2: range(*S.indices(len(V))) yields valid positions of V (for step != 0)
            if len(base) == 3 and all(isinstance(a, Term) and a.op == "getitem" for a in base):
                si = base[0].args[0]
                if isinstance(si, Term) and si.op == "slice_indices" and all(b.args[0] is si for b in base):
                    n = self.as_lin(si.args[1])
                    if n is not None:
                        self.ctx.assume_le0(-idx.lin)
                        self.ctx.assume_le0(idx.lin - n + Lin.k(1))
            el.key = idx
            el.val = idx
            el.target = idx
            self.elem_by_var[idx.lin.vars()[0]] = el
        elif view == "slice":
            el.key = self.i.new_int(f"sidx@{el.id}", 0)
            el.val = self.i.new_sym(f"val@{el.id}({container_label(base)}[slice])", origin=("elemval", el))
            el.target = el.val
        elif view == "chars":
            cpv = self.ctx.new_int(f"cp(char@{el.id})", 0, 0x10FFFF)
            ch = SymChar(self.ctx.new_id(), f"char@{el.id}", cpv)
            el.key, el.val, el.target = None, ch, ch
        elif view == "bytes":
            b = self.i.new_int(f"byte@{el.id}", 0, 255)
            el.key, el.val, el.target = None, b, b
        elif view == "opaque":
            hint = None
            if isinstance(base, Opaque):
                eh = base.children.get("__elem_hint__")
                if isinstance(eh, ClassV):
                    hint = eh.ci
            o = self.i.new_opaque(f"elem@{el.id}({container_label(base)})", hint)
            el.key, el.val, el.target = None, o, o
        else:
            raise self.unsupported(node, f"iteration view {view}")
        return el

    def unpack(self, v: AV, n: int, node: Any = None) -> List[AV]:
        if isinstance(v, (PyTuple, PyList)):
            if len(v.items) != n:
                raise self.raise_("ValueError", f"cannot unpack {len(v.items)} values into {n}", node)
            return list(v.items)
        if isinstance(v, (Opaque, Term)):
            return [self.subscript(v, Const(i), node) for i in range(n)]
        if isinstance(v, Sym):
            k = self.i.kind_of(v)
            if k in ("list", "str", "dict"):
                r = self.ctx.choose(("unpack", v.id, n), ["ok", "ValueError"])
                if r == "ValueError":
                    raise self.raise_("ValueError", "unpack length mismatch", node)
                return [self.i.new_sym(f"{v.label}<{i}>") for i in range(n)]
            raise self.raise_("TypeError", f"cannot unpack {k} value", node)
        kind, payload = self.iterate(v, node)
        if kind == "concrete":
            if len(payload) != n:
                raise self.raise_("ValueError", "unpack length mismatch", node)
            return payload
        raise self.unsupported(node, f"unpack {v!r}")

    def materialize(self, v: AV, node: Any = None) -> AV:
        """list(v): a concrete PyList when possible, else a Stream/Source."""
        if isinstance(v, GenV):
            events, terminal = self.i.run_gen(v)
            if terminal is not None:
                raise terminal
            if all(e.kind == "yield" for e in events):
                return self.i.new_list([e.value for e in events])
            return Stream(events, None, "list", self.ctx.new_id())
        if isinstance(v, Stream):
            if all(e.kind == "yield" for e in v.events):
                return self.i.new_list([e.value for e in v.events])
            return Stream(v.events, None, "list", self.ctx.new_id())
        kind, payload = self.iterate(v, node)
        if kind == "concrete":
            return self.i.new_list(payload)
        if kind == "abstract":
            s: Source = payload
            return Source(s.view, s.base, s.order, fresh=True, id=self.ctx.new_id(), depth=self.i.loop_depth, extra=s.extra)
        if kind == "stream":
            return self.materialize(payload, node)
        raise self.unsupported(node, f"list({v!r})")

    # ------------------------------------------------------------ externals
    def external_super(self, self_av: AV, mname: str, args: List[AV], kwargs: Dict[str, AV], node: Any) -> AV:
        if isinstance(self_av, Inst):
            if mname == "__init__":
                self.external_init(self_av, args, kwargs, node)
                return NONE
            if mname == "__str__":
                ext = self_av.cls.all_external_bases()
                if any(e in BUILTIN_EXC_BASES for e in ext):
                    a = self_av.attrs.get("args", PyTuple(()))
                    if isinstance(a, PyTuple):
                        if len(a.items) == 0:
                            return Const("")
                        if len(a.items) == 1:
                            return self.to_str(a.items[0], False, node)
                        return Term("str", (a,), self.ctx.new_id())
                if self_av.seq is not None:
                    return Term("str", (self_av.seq,), self.ctx.new_id())
                return Term("str", (self_av,), self.ctx.new_id())
            if mname in ("__repr__",):
                return Term("repr", (self_av,), self.ctx.new_id())
            if mname == "__eq__":
                return Const(any(isinstance(a, Inst) and a.id == self_av.id for a in args))
            if mname == "__hash__":
                return Term("hash", (self_av,), self.ctx.new_id())
        raise self.unsupported(node, f"super().{mname} on {self_av!r}")

    def external_init(self, inst: Inst, args: List[AV], kwargs: Dict[str, AV], node: Any) -> None:
        ext = inst.cls.all_external_bases()
        decos = [ast.unparse(d).split("(")[0].split(".")[-1] for d in inst.cls.node.decorator_list]
        if "dataclass" in decos:
            # the generated __init__: one parameter per annotated field, in order, class-level values as defaults
            fields: List[str] = []
            defaults: Dict[str, ast.expr] = {}
            for c in reversed(inst.cls.mro()):
                for f in c.attr_annotations:
                    if f not in fields:
                        fields.append(f)
                    if f in c.attrs:
                        defaults[f] = c.attrs[f]
            if len(args) > len(fields):
                raise self.raise_("TypeError", f"{inst.cls.name}() takes {len(fields)} positional arguments", node)
            for f, a in zip(fields, args):
                inst.attrs[f] = a
            for f in fields[len(args):]:
                if f in kwargs:
                    inst.attrs[f] = kwargs[f]
                elif f in defaults:
                    from .absint import Frame

                    inst.attrs[f] = self.i.eval(defaults[f], Frame(None, inst.cls.module))
                else:
                    raise self.raise_("TypeError", f"{inst.cls.name}() missing argument {f}", node)
            extra = set(kwargs) - set(fields)
            if extra:
                raise self.raise_("TypeError", f"{inst.cls.name}() got an unexpected keyword argument {sorted(extra)[0]}", node)
            return
        if any(e in BUILTIN_EXC_BASES for e in ext):
            if kwargs:
                raise self.raise_("TypeError", f"{inst.cls.name}() takes no keyword arguments", node)
            inst.attrs["args"] = PyTuple(args)
            return
        if args or kwargs:
            if inst.seq is not None:
                return
            if any(e in ("ABC", "object", "Generic") or e.startswith("Generic") for e in ext) or not ext:
                raise self.raise_("TypeError", f"{inst.cls.name}() takes no arguments", node)
        return

    def opaque_call(self, recv: Any, name: str, args: List[AV], kwargs: Dict[str, AV], node: Any) -> AV:
        oh = self.i.hooks.get("__opaque_call__")
        if oh is not None:
            r = oh(self.i, recv, name, args, kwargs, node)
            if r is not NotImplemented:
                return r
        t = Term("call", (recv, name, tuple(args), tuple(sorted(kwargs.items()))), self.ctx.new_id())
        self.i.opaque_calls.append(t)
        return t

    # ----------------------------------------------------------------- call
    def call(self, fn: AV, args: List[AV], kwargs: Dict[str, AV], node: Any = None) -> AV:
        if isinstance(fn, ExternalV):
            from .abscalls import call_external

            return call_external(self, fn.name, args, kwargs, node)
        if isinstance(fn, HostMethod):
            from .abscalls import call_method

            return call_method(self, fn.recv, fn.name, args, kwargs, node)
        if isinstance(fn, (Opaque, Term)):
            return self.opaque_call(fn, "__call__", args, kwargs, node)
        if isinstance(fn, Const) and fn.value is None:
            raise self.raise_("TypeError", "'NoneType' object is not callable", node)
        raise self.unsupported(node, f"call of {fn!r}")
