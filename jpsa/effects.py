"""EFF: write-site census with receiver classification (DESIGN 3.7).

Every store, deletion, mutator call and in-place library call in the package is located
syntactically and its receiver is classified from the function's own def-use facts:

  fresh      bound in this frame to a new object (literal, comprehension, list()/dict()/deque()...,
             list(x.items()), constructor call) on EVERY assignment to that name
  init       self.* inside __init__ (or a method only ever called from __init__)
  percall    an object of a per-call class (lexer, token stream ...) via self or an annotated parameter
  exception  the name bound by `except ... as e`
  memo       subscript store into a long-lived container whose value is determined by the key
  shared     anything else: a long-lived object, a parameter, a document value, module state
"""

from __future__ import annotations

import ast
from dataclasses import dataclass
from typing import Any
from typing import Dict
from typing import List
from typing import Optional
from typing import Set
from typing import Tuple

from .model import ClassInfo
from .model import FuncInfo
from .model import Model
from .model import walk_own

MUTATORS = {
    "append", "appendleft", "extend", "extendleft", "insert", "pop", "popleft", "popitem", "remove", "clear",
    "sort", "reverse", "update", "setdefault", "add", "discard", "rotate", "__setitem__", "__delitem__",
    "difference_update", "intersection_update", "symmetric_difference_update",
}
# calls that write interpreter- or process-wide state
GLOBAL_STATE_CALLS = {
    "sys.setrecursionlimit", "sys.setswitchinterval", "sys.settrace", "sys.setprofile", "random.seed", "random.setstate",
    "os.chdir", "os.putenv", "os.unsetenv", "os.umask", "locale.setlocale", "warnings.simplefilter", "warnings.filterwarnings",
    "gc.disable", "gc.enable", "gc.set_threshold", "signal.signal", "signal.alarm", "threading.setprofile", "threading.settrace",
    "threading.stack_size", "re.purge", "regex.purge", "setrecursionlimit", "decimal.setcontext", "logging.basicConfig",
}
INPLACE_CALLS = {"random.shuffle": 0, "shuffle": 0, "heapq.heappush": 0, "heapq.heappop": 0, "heapq.heapify": 0, "bisect.insort": 0}
FRESH_CALLS = {"list", "dict", "set", "deque", "tuple", "frozenset", "bytearray", "sorted", "defaultdict", "OrderedDict", "Counter", "collections.deque"}

# Classes whose instances live for one compile() call only.  Verified by `percall_violations`:
# every constructor site is inside a function and the instance is never stored in an attribute
# or a module-level name.
PER_CALL_CLASSES = {
    "lex.Lexer": "created by lex.lex() for one tokenize() call",
    "tokens.TokenStream": "created in JSONPathEnvironment.compile for one parse",
    "tokens.TokenStream.TokenStreamIterator": "iterator over one TokenStream",
}


@dataclass
class WriteSite:
    fn: FuncInfo
    node: ast.AST
    kind: str  # attr-store | item-store | delete | mutator | inplace | global | aug
    receiver: str
    detail: str
    cls: str = "shared"
    reason: str = ""

    @property
    def line(self) -> int:
        return getattr(self.node, "lineno", 0)

    def key(self) -> str:
        return f"{self.kind}:{self.receiver}:{self.detail}"


def root_name(e: ast.expr) -> Optional[str]:
    while isinstance(e, (ast.Attribute, ast.Subscript)):
        e = e.value
    if isinstance(e, ast.Call):
        return None
    if isinstance(e, ast.Name):
        return e.id
    return None


def is_fresh_expr(e: ast.expr, fresh_names: Set[str], model: Model, mod: Any) -> bool:
    if isinstance(e, (ast.List, ast.Dict, ast.Set, ast.ListComp, ast.DictComp, ast.SetComp, ast.Tuple)):
        return True
    if isinstance(e, ast.Call):
        f = ast.unparse(e.func)
        if f in FRESH_CALLS:
            return True
        r = model.resolve_expr_static(mod, e.func)
        if r is not None and r[0] == "class":
            return True  # a constructor call yields a new object
        if r is not None and r[0] == "func" and fresh_returning(model, r[1]):
            return True  # a package function every return of which hands out a new object
        if isinstance(e.func, ast.Attribute) and e.func.attr in ("copy", "items", "keys", "values") and f.split(".")[0] in fresh_names:
            return True
        return False
    if isinstance(e, ast.Name):
        return e.id in fresh_names
    if isinstance(e, ast.IfExp):
        return is_fresh_expr(e.body, fresh_names, model, mod) and is_fresh_expr(e.orelse, fresh_names, model, mod)
    return False


_FRESH_RET: Dict[str, Optional[bool]] = {}


def fresh_returning(model: Model, fi: FuncInfo) -> bool:
    """Every return statement of the (non-generator) function returns an object created in that call."""
    key = f"{id(model)}:{fi.qualname}"
    if key in _FRESH_RET:
        return bool(_FRESH_RET[key])  # None while being computed: recursion is not fresh
    _FRESH_RET[key] = None
    ok = not fi.is_generator
    if ok:
        rets = [n for n in walk_own(fi.node) if isinstance(n, ast.Return)]
        fl = fresh_locals(fi, model)
        ok = bool(rets) and all(r.value is not None and is_fresh_expr(r.value, fl, model, fi.module) for r in rets)
    _FRESH_RET[key] = ok
    return ok


def fresh_locals(fn: FuncInfo, model: Model) -> Set[str]:
    """Local names that hold a fresh object on every assignment (fixpoint)."""
    assigns: Dict[str, List[ast.expr]] = {}
    poisoned: Set[str] = set()
    params = {a.arg for a in fn.node.args.posonlyargs + fn.node.args.args + fn.node.args.kwonlyargs}
    if fn.node.args.vararg:
        params.add(fn.node.args.vararg.arg)
    if fn.node.args.kwarg:
        params.add(fn.node.args.kwarg.arg)
    for n in walk_own(fn.node):
        if isinstance(n, ast.Assign):
            for t in n.targets:
                if isinstance(t, ast.Name):
                    assigns.setdefault(t.id, []).append(n.value)
                elif isinstance(t, (ast.Tuple, ast.List)):
                    for x in ast.walk(t):
                        if isinstance(x, ast.Name):
                            poisoned.add(x.id)
        elif isinstance(n, ast.AnnAssign) and isinstance(n.target, ast.Name) and n.value is not None:
            assigns.setdefault(n.target.id, []).append(n.value)
        elif isinstance(n, (ast.For, ast.comprehension)):
            for x in ast.walk(n.target):
                if isinstance(x, ast.Name):
                    poisoned.add(x.id)
        elif isinstance(n, ast.With):
            for it in n.items:
                if it.optional_vars is not None:
                    for x in ast.walk(it.optional_vars):
                        if isinstance(x, ast.Name):
                            poisoned.add(x.id)
        elif isinstance(n, ast.NamedExpr):
            poisoned.add(n.target.id)
        elif isinstance(n, ast.AugAssign) and isinstance(n.target, ast.Name):
            # x += [...] keeps a fresh list fresh; x += other aliases nothing
            pass
    fresh: Set[str] = set()
    changed = True
    while changed:
        changed = False
        for name, exprs in assigns.items():
            if name in fresh or name in poisoned or name in params:
                continue
            if all(is_fresh_expr(e, fresh, model, fn.module) for e in exprs):
                fresh.add(name)
                changed = True
    return fresh


def init_only_methods(model: Model) -> Set[str]:
    """Methods (qualnames) that are only ever called from __init__ of their own class (fixpoint)."""
    callers: Dict[str, Set[str]] = {}
    for fi in model.functions.values():
        if fi.cls is None:
            continue
        for n in walk_own(fi.node):
            if isinstance(n, ast.Call) and isinstance(n.func, ast.Attribute) and isinstance(n.func.value, ast.Name) and n.func.value.id == "self":
                m = fi.cls.find_method(n.func.attr)
                if m is not None:
                    callers.setdefault(m.qualname, set()).add(fi.qualname)
    # any other textual reference to the method name disqualifies it
    referenced: Dict[str, int] = {}
    for fi in model.functions.values():
        for n in ast.walk(fi.node):
            if isinstance(n, ast.Attribute):
                referenced[n.attr] = referenced.get(n.attr, 0) + 1
    out: Set[str] = set()
    changed = True
    while changed:
        changed = False
        for q, cs in callers.items():
            if q in out:
                continue
            fi = model.functions[q]
            if fi.name.startswith("__") and fi.name.endswith("__"):
                continue
            total_refs = referenced.get(fi.name, 0)
            self_calls = sum(1 for c in cs)  # number of caller functions
            ok = all(c.endswith(".__init__") or c in out for c in cs)
            # every textual reference must be one of those self-calls
            n_calls = 0
            for c in cs:
                cf = model.functions[c]
                for n in walk_own(cf.node):
                    if isinstance(n, ast.Call) and isinstance(n.func, ast.Attribute) and n.func.attr == fi.name and isinstance(n.func.value, ast.Name) and n.func.value.id == "self":
                        n_calls += 1
            if ok and n_calls == total_refs:
                out.add(q)
                changed = True
    return out


def param_class(fn: FuncInfo, name: str, model: Model) -> Optional[ClassInfo]:
    for a in fn.node.args.posonlyargs + fn.node.args.args + fn.node.args.kwonlyargs:
        if a.arg == name and a.annotation is not None:
            ann = a.annotation
            text = ann.value if isinstance(ann, ast.Constant) and isinstance(ann.value, str) else ast.unparse(ann)
            r = model.resolve_global(fn.module, text.strip())
            if r and r[0] == "class":
                return r[1]
    return None


def names_in(e: ast.AST) -> Set[str]:
    return {n.id for n in ast.walk(e) if isinstance(n, ast.Name)}


def memo_sound(fn: FuncInfo, target: ast.Subscript, value: ast.expr) -> bool:
    """Key determines value: every local the value depends on (transitively) depends only on key names."""
    defs: Dict[str, List[ast.expr]] = {}
    for n in walk_own(fn.node):
        if isinstance(n, ast.Assign):
            for t in n.targets:
                if isinstance(t, ast.Name):
                    defs.setdefault(t.id, []).append(n.value)
    params = {a.arg for a in fn.node.args.args + fn.node.args.kwonlyargs}

    def injective_names(e: ast.AST, depth: int = 0) -> Set[str]:
        """Names whose values can be read back from the key: the key itself, members of a tuple key, and,
        for a name bound once, the same for its definition.  key = f(x) does not determine x."""
        if isinstance(e, ast.Name):
            out = {e.id}
            ds = defs.get(e.id, [])
            if len(ds) == 1 and depth < 4 and e.id not in params:
                out |= injective_names(ds[0], depth + 1)
            return out
        if isinstance(e, ast.Tuple):
            out = set()
            for x in e.elts:
                out |= injective_names(x, depth)
            return out
        return set()

    allowed = injective_names(target.slice)
    # id()/hash() of an object is not a key that determines anything about it
    key_exprs: List[ast.AST] = [target.slice]
    for x in list(allowed):
        key_exprs.extend(defs.get(x, []))
    for e in key_exprs:
        for c in ast.walk(e):
            if isinstance(c, ast.Call) and isinstance(c.func, ast.Name) and c.func.id in ("id", "hash"):
                return False
    if not allowed:
        return False
    seen: Set[str] = set()
    todo = list(names_in(value))
    while todo:
        x = todo.pop()
        if x in seen:
            continue
        seen.add(x)
        if x in allowed:
            continue
        if x in defs:
            for d in defs[x]:
                todo.extend(names_in(d))
            continue
        if x in params and (x != "self" or root_name(target.value) != "self"):
            # `self` is configuration only for a memo that lives on self; in a container shared between
            # instances the instance must be part of the key
            return False
        # module-level names, builtins, self (for a memo on self): configuration
    return True


_CENSUS_CACHE: Dict[Tuple[int, Tuple[str, ...]], List["WriteSite"]] = {}


def census(model: Model, exclude_modules: Tuple[str, ...] = ("utils.", "cli", "__main__")) -> List[WriteSite]:
    ck = (id(model), tuple(exclude_modules))
    if ck not in _CENSUS_CACHE:
        _CENSUS_CACHE[ck] = _census(model, tuple(exclude_modules))
    return _CENSUS_CACHE[ck]


def _census(model: Model, exclude_modules: Tuple[str, ...]) -> List[WriteSite]:
    init_only = init_only_methods(model)
    sites: List[WriteSite] = []
    for fi in model.functions.values():
        short = fi.module.short
        if any(short == x or short.startswith(x) for x in exclude_modules):
            continue
        fresh = fresh_locals(fi, model)
        exc_names = {h.name for n in walk_own(fi.node) if isinstance(n, ast.Try) for h in n.handlers if h.name}
        in_init = fi.name == "__init__" or fi.qualname in init_only

        def classify(recv: ast.expr, ws: WriteSite, depth_attr: bool) -> None:
            rn = root_name(recv)
            if rn is None:
                ws.cls, ws.reason = "shared", "receiver is the result of a call"
                return
            if rn in fresh:
                if isinstance(recv, ast.Name):
                    ws.cls, ws.reason = "fresh", f"{rn} is bound to a new object on every assignment in this frame"
                else:
                    ws.cls, ws.reason = "shared", f"{ast.unparse(recv)} is an element/attribute of the fresh object {rn}; it may be a shared or document object"
                return
            if rn in exc_names:
                ws.cls, ws.reason = "exception", f"{rn} is the in-flight exception"
                return
            if rn == "self" and fi.cls is not None:
                if in_init:
                    ws.cls, ws.reason = "init", "self under construction"
                    return
                if fi.cls.qualname in PER_CALL_CLASSES:
                    ws.cls, ws.reason = "percall", PER_CALL_CLASSES[fi.cls.qualname]
                    return
                ws.cls, ws.reason = "shared", f"{fi.cls.qualname} instance outside its constructor"
                return
            pc = param_class(fi, rn, model)
            if pc is not None and pc.qualname in PER_CALL_CLASSES:
                ws.cls, ws.reason = "percall", PER_CALL_CLASSES[pc.qualname]
                return
            ws.cls, ws.reason = "shared", f"{rn} is a parameter, a loop variable, a module-level name or an alias of one"

        for n in walk_own(fi.node):
            targets: List[Tuple[ast.expr, str, Optional[ast.expr]]] = []
            if isinstance(n, ast.Assign):
                targets = [(t, "store", n.value) for t in n.targets]
            elif isinstance(n, ast.AnnAssign) and n.value is not None:
                targets = [(n.target, "store", n.value)]
            elif isinstance(n, ast.AugAssign):
                targets = [(n.target, "aug", n.value)]
            elif isinstance(n, ast.Delete):
                targets = [(t, "delete", None) for t in n.targets]
            elif isinstance(n, (ast.For,)):
                targets = [(n.target, "store", None)]
            for t, how, val in targets:
                for sub in ([t] if not isinstance(t, (ast.Tuple, ast.List)) else list(ast.walk(t))):
                    if isinstance(sub, ast.Attribute):
                        ws = WriteSite(fi, n, "attr-store" if how != "delete" else "delete", ast.unparse(sub.value), sub.attr)
                        classify(sub.value, ws, True)
                        sites.append(ws)
                    elif isinstance(sub, ast.Subscript):
                        ws = WriteSite(fi, n, "item-store" if how != "delete" else "delete", ast.unparse(sub.value), ast.unparse(sub.slice))
                        classify(sub.value, ws, False)
                        if ws.cls == "shared" and how == "store" and val is not None and memo_sound(fi, sub, val):
                            ws.cls, ws.reason = "memo", "value is determined by the key (memo)"
                        sites.append(ws)
            if isinstance(n, (ast.Global, ast.Nonlocal)):
                sites.append(WriteSite(fi, n, "global", ",".join(n.names), type(n).__name__.lower(), "shared", "rebinding of an outer name"))
            if isinstance(n, ast.Call):
                f = n.func
                if isinstance(f, ast.Attribute) and f.attr in MUTATORS:
                    ws = WriteSite(fi, n, "mutator", ast.unparse(f.value), f.attr)
                    classify(f.value, ws, False)
                    sites.append(ws)
                fname = ast.unparse(f)
                if fname in GLOBAL_STATE_CALLS:
                    sites.append(WriteSite(fi, n, "global", fname, "call", "shared", "writes interpreter-wide state that every other query, iterator and thread shares"))
                if fname in INPLACE_CALLS and n.args:
                    a = n.args[INPLACE_CALLS[fname]]
                    ws = WriteSite(fi, n, "inplace", ast.unparse(a), fname)
                    classify(a, ws, False)
                    sites.append(ws)
                if isinstance(f, ast.Name) and f.id in ("setattr", "delattr") and n.args:
                    ws = WriteSite(fi, n, "attr-store", ast.unparse(n.args[0]), f.id)
                    classify(n.args[0], ws, True)
                    sites.append(ws)
    # eviction from a key-determined memo: the container only ever receives memo stores, so removing entries
    # can only turn a later hit into a recomputation of the same value
    by_recv: Dict[Tuple[str, str], List[WriteSite]] = {}
    for w in sites:
        owner = w.fn.cls.qualname if w.fn.cls is not None else w.fn.module.short
        by_recv.setdefault((owner, w.receiver), []).append(w)
    for (_owner, _recv), ws_list in by_recv.items():
        stores = [w for w in ws_list if w.kind == "item-store"]
        if not stores or any(w.cls != "memo" for w in stores):
            continue
        for w in ws_list:
            if w.cls == "shared" and ((w.kind == "mutator" and w.detail in ("pop", "popitem", "clear")) or w.kind == "delete"):
                w.cls, w.reason = "memo", "eviction from a container that only holds key-determined memo entries"
    return sites


def percall_violations(model: Model) -> List[Tuple[FuncInfo, ast.AST, str]]:
    """Constructor sites of per-call classes whose instance escapes to an attribute or module level."""
    out: List[Tuple[FuncInfo, ast.AST, str]] = []
    names = {q.split(".")[-1]: q for q in PER_CALL_CLASSES}
    for mod in model.modules.values():
        for st in mod.tree.body:
            for c in ast.walk(st) if not isinstance(st, (ast.FunctionDef, ast.ClassDef)) else []:
                if isinstance(c, ast.Call) and isinstance(c.func, ast.Name) and c.func.id in names:
                    out.append((None, c, f"{c.func.id}() at module level"))  # type: ignore[arg-type]
    for fi in model.functions.values():
        for n in walk_own(fi.node):
            if isinstance(n, (ast.Assign, ast.AnnAssign)):
                val = n.value
                if val is None:
                    continue
                calls = [c for c in ast.walk(val) if isinstance(c, ast.Call) and ((isinstance(c.func, ast.Name) and c.func.id in names) or (isinstance(c.func, ast.Attribute) and c.func.attr in names))]
                if not calls:
                    continue
                tg = n.targets if isinstance(n, ast.Assign) else [n.target]
                for t in tg:
                    if isinstance(t, (ast.Attribute, ast.Subscript)):
                        cname = calls[0].func.id if isinstance(calls[0].func, ast.Name) else calls[0].func.attr  # type: ignore[union-attr]
                        # an attribute of another per-call object is fine (TokenStreamIterator.stream)
                        if fi.cls is not None and fi.cls.qualname in PER_CALL_CLASSES:
                            continue
                        out.append((fi, n, f"a {cname} instance is stored in {ast.unparse(t)}"))
    return out


def class_level_mutables(model: Model) -> List[Tuple[ClassInfo, str, ast.expr]]:
    out = []
    for ci in model.classes.values():
        if any(b in ("Enum", "enum.Enum") for b in ci.all_external_bases()):
            continue
        for name, e in ci.attrs.items():
            if name == "__slots__":
                continue
            if isinstance(e, (ast.Dict, ast.List, ast.Set, ast.DictComp, ast.ListComp, ast.SetComp)) or (
                isinstance(e, ast.Call) and ast.unparse(e.func) in FRESH_CALLS - {"tuple", "frozenset", "sorted"}
            ):
                out.append((ci, name, e))
    return out


def class_level_mutable_writes(model: Model) -> List[Tuple[ClassInfo, str, "WriteSite"]]:
    """Write sites whose receiver is a class-level mutable container reached through an instance (`self.X`), the class
    (`cls.X`, `C.X`, `type(self).X`): one object shared by every instance, whatever the instance's own lifetime.  An
    attribute that the class's constructor rebinds on the instance (`self.X = ...`) is not shared."""
    out: List[Tuple[ClassInfo, str, WriteSite]] = []
    shared = {}
    for ci, name, _e in class_level_mutables(model):
        rebound = False
        for c2 in [ci] + list(model.subclasses(ci)):
            init = c2.methods.get("__init__")
            if init is None:
                continue
            for n in walk_own(init.node):
                tg = n.targets if isinstance(n, ast.Assign) else [n.target] if isinstance(n, ast.AnnAssign) and n.value is not None else []
                for t in tg:
                    if isinstance(t, ast.Attribute) and t.attr == name and isinstance(t.value, ast.Name) and t.value.id == "self":
                        rebound = True
        if not rebound:
            shared[(ci.qualname, name)] = ci
    if not shared:
        return out
    for w in census(model, exclude_modules=()):
        if w.fn.cls is None:
            continue
        try:
            e = ast.parse(w.receiver, mode="eval").body
        except SyntaxError:
            continue
        # self.X / cls.X / type(self).X / ClassName.X  (possibly followed by subscripts)
        while isinstance(e, ast.Subscript):
            e = e.value
        if not isinstance(e, ast.Attribute):
            continue
        base = ast.unparse(e.value)
        for c2 in w.fn.cls.mro():
            key = (c2.qualname, e.attr)
            if key in shared and (base in ("self", "cls", "type(self)", "self.__class__") or base == c2.name):
                if w.kind in ("mutator", "item-store", "delete", "inplace", "aug"):
                    out.append((c2, e.attr, w))
    return out


CACHE_DECORATORS = ("lru_cache", "cache", "memoize", "cached")


def _raw_decorators(fi: FuncInfo) -> List[str]:
    return [ast.unparse(d) for d in fi.node.decorator_list]


def cache_decorators(fi: FuncInfo) -> List[str]:
    return [d for d in fi.decorators if d.split(".")[-1].split("(")[0] in CACHE_DECORATORS]


def cache_key_problem(model: Model, fi: FuncInfo) -> Optional[str]:
    """Why a functools-style cache on `fi` may return a result computed for different inputs, or None.

    The cache key is the argument tuple compared with ==/hash.  For a method the instance is part of the key through
    its class's __eq__/__hash__: every attribute the method reads must take part in both (identity keys are faithful
    as long as attributes are only assigned in constructors, which C16 R16.2 checks).  Module-level mutable state read
    by the body is not part of any key."""

    def self_attrs(f: Optional[FuncInfo]) -> Set[str]:
        if f is None:
            return set()
        return {n.attr for n in ast.walk(f.node) if isinstance(n, ast.Attribute) and isinstance(n.value, ast.Name) and n.value.id == "self"}

    if fi.is_generator:
        return "the function is a generator: the cached object is a one-shot iterator that is exhausted after its first use"
    # functools keys compare with == / hash: true == 1 == 1.0 and false == 0 == 0.0 are one key unless typed=True,
    # and even typed=True does not look inside containers.  A parameter is safe when it can only hold strings.
    typed = any("typed=True" in d.replace(" ", "") for d in _raw_decorators(fi) if d.split("(")[0].split(".")[-1] in CACHE_DECORATORS)
    SAFE_ANN = {"str", "bytes", "Optional[str]", "Pattern[str]", "re.Pattern[str]", "Token", "TokenType", "ExpressionType"}
    for a in fi.node.args.posonlyargs + fi.node.args.args + fi.node.args.kwonlyargs:
        if a.arg in ("self", "cls") and fi.cls is not None:
            continue
        ann = ast.unparse(a.annotation).strip("'\"") if a.annotation is not None else None
        if ann in SAFE_ANN:
            continue
        if typed and ann in ("int", "float", "bool", "Union[int, float]", "Union[int, str]"):
            continue
        return (
            f"parameter '{a.arg}' ({ann or 'unannotated'}) may hold JSON values that compare equal without being the same value "
            "(true / 1 / 1.0, false / 0): they share one cache entry" + ("" if typed else " (typed=True is not set)")
        )
    # mutable module-level containers read by the body
    for n in ast.walk(fi.node):
        if isinstance(n, ast.Name) and isinstance(n.ctx, ast.Load):
            v = fi.module.assigns.get(n.id)
            if isinstance(v, (ast.Dict, ast.List, ast.Set)) or (isinstance(v, ast.Call) and ast.unparse(v.func) in FRESH_CALLS - {"tuple", "frozenset"}):
                for w in census(model, exclude_modules=()):
                    if w.receiver == n.id and w.cls == "shared":
                        return f"reads the module-level container {n.id}, which is written elsewhere and is not part of the cache key"
    if fi.cls is None:
        return None
    reads = self_attrs(fi) - set(fi.cls.methods)
    eq, hs = fi.cls.find_method("__eq__"), fi.cls.find_method("__hash__")
    if eq is None and hs is None:
        return None
    missing = sorted(a for a in reads if a not in self_attrs(eq) or a not in self_attrs(hs))
    if missing:
        return f"reads self.{', self.'.join(missing)}, which __eq__/__hash__ of {fi.cls.name} do not cover: instances that agree on the compared attributes share one cache entry"
    return None


_WRITTEN_CACHE: Dict[Tuple[int, str], Set[str]] = {}


def written_attrs(model: Model, cls_qual: str) -> Set[str]:
    ck = (id(model), cls_qual)
    if ck in _WRITTEN_CACHE:
        return _WRITTEN_CACHE[ck]
    _WRITTEN_CACHE[ck] = r = _written_attrs(model, cls_qual)
    return r


def _written_attrs(model: Model, cls_qual: str) -> Set[str]:
    """Attributes X of class instances such that a non-constructor method writes self.X / self.X[..] / self.X.mutator()."""
    out: Set[str] = set()
    ci = model.cls(cls_qual)
    quals = {c.qualname for c in ci.mro()}
    for w in census(model, exclude_modules=()):
        if w.fn.cls is None or w.fn.cls.qualname not in quals:
            continue
        if w.cls in ("init", "fresh", "exception"):
            continue
        try:
            e = ast.parse(w.receiver, mode="eval").body
        except SyntaxError:
            continue
        chain: List[str] = []
        while isinstance(e, (ast.Attribute, ast.Subscript)):
            if isinstance(e, ast.Attribute):
                chain.append(e.attr)
            e = e.value
        if isinstance(e, ast.Name) and e.id == "self":
            if chain:
                out.add(chain[-1])
            elif w.kind in ("attr-store", "delete") and w.detail.isidentifier():
                out.add(w.detail)
    return out




def written_attr_kinds(model: Model, cls_qual: str) -> Dict[str, str]:
    """For each attribute of `written_attrs`: 'int' / 'bool' when every store anywhere in the class (constructor
    included) writes an integer / a boolean, else 'unknown'."""
    ci = model.cls(cls_qual)
    names = written_attrs(model, cls_qual)
    votes: Dict[str, List[str]] = {n: [] for n in names}

    def kind_of(v: ast.expr, attr: str) -> str:
        if isinstance(v, ast.Constant):
            if isinstance(v.value, bool):
                return "bool"
            if isinstance(v.value, int):
                return "int"
            return "unknown"
        if isinstance(v, ast.UnaryOp) and isinstance(v.op, (ast.USub, ast.UAdd)):
            return kind_of(v.operand, attr)
        if isinstance(v, ast.BinOp) and isinstance(v.op, (ast.Add, ast.Sub, ast.Mult)):
            a, b = kind_of(v.left, attr), kind_of(v.right, attr)
            return "int" if a == b == "int" else "unknown"
        if isinstance(v, ast.Attribute) and isinstance(v.value, ast.Name) and v.value.id == "self" and v.attr == attr:
            return "int"  # self.x = self.x + 1: decided by the other stores
        return "unknown"

    for c in ci.mro():
        for m in c.methods.values():
            for n in walk_own(m.node):
                tgt = val = None
                if isinstance(n, ast.Assign) and len(n.targets) == 1:
                    tgt, val = n.targets[0], n.value
                elif isinstance(n, ast.AnnAssign) and n.value is not None:
                    tgt, val = n.target, n.value
                elif isinstance(n, ast.AugAssign):
                    tgt, val = n.target, n.value
                if isinstance(tgt, ast.Attribute) and isinstance(tgt.value, ast.Name) and tgt.value.id == "self" and tgt.attr in votes:
                    votes[tgt.attr].append(kind_of(val, tgt.attr))
    out: Dict[str, str] = {}
    for n, v in votes.items():
        out[n] = v[0] if v and all(x == v[0] for x in v) and v[0] in ("int", "bool") else "unknown"
    return out
