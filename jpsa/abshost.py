"""Host-language semantics for the abstract interpreter (assumption A1 of DESIGN.md).

Everything the analysed code does to values that is *not* package code lands
here: truthiness, comparison, subscripts, builtins, stdlib calls.  Each model
says what CPython does on abstract operands; where the answer depends on
unknown content it forks through Ctx.choose with a key the oracles understand.
"""

from __future__ import annotations

import ast
from typing import Any
from typing import Dict
from typing import List
from typing import Optional
from typing import Tuple

from .absctx import Infeasible
from .absctx import Unsupported
from .absval import *  # noqa: F403
from .absval import AV
from .numeric import Lin

BUILTINS = {
    "isinstance", "len", "abs", "int", "float", "str", "bool", "list", "tuple", "dict", "set",
    "frozenset", "iter", "next", "enumerate", "zip", "range", "reversed", "sorted", "repr", "ord",
    "chr", "hash", "slice", "min", "max", "any", "all", "print", "id", "type", "bytes", "object",
    "sum", "map", "filter", "callable", "issubclass", "super", "property", "staticmethod",
    "classmethod", "NotImplemented", "divmod", "round", "format", "hex", "open", "vars", "getattr",
    "setattr", "hasattr", "eval", "exec", "globals", "locals", "__import__", "input", "bin", "oct", "ascii",
}
BUILTIN_EXCS = {k for k in BUILTIN_EXC_BASES if "." not in k}

NONE = Const(None)
TRUE = Const(True)
FALSE = Const(False)

NUMCAT = {"int", "float", "bool"}


def const_kind(v: Any) -> Optional[str]:
    if v is None:
        return "null"
    if isinstance(v, bool):
        return "bool"
    if isinstance(v, int):
        return "int"
    if isinstance(v, float):
        return "float"
    if isinstance(v, str):
        return "str"
    return None


def category(kind: str) -> str:
    return "num" if kind in NUMCAT else kind


class HostBase:
    def __init__(self, interp: Any) -> None:
        self.i = interp
        self.ctx = interp.ctx
        self.len_vars: Dict[Any, int] = {}
        self.members: Dict[Any, AV] = {}
        self.elem_by_var: Dict[int, Elem] = {}
        self.elem_by_str: Dict[int, Elem] = {}
        self.chars: Dict[Any, SymChar] = {}
        self.len_syms: Dict[int, List[Any]] = {}
        self.conversions: Dict[Any, AV] = {}
        self.regex_module: Dict[int, str] = {}
        self.int_origin: Dict[int, Any] = {}
        self.match_text: Dict[int, str] = {}

    # ----------------------------------------------------------- utilities
    def raise_(self, name: str, msg: str = "", node: Any = None):
        from .absint import AbsRaise

        return AbsRaise(HostExc(name, msg), self.i.site(node) if node is not None else None)

    def unsupported(self, node: Any, why: str) -> Unsupported:
        if node is not None:
            return self.i.unsupported(node, why)
        return Unsupported(why)

    def builtin(self, name: str, node: Any = None) -> AV:
        if name in BUILTINS or name in BUILTIN_EXCS:
            return ExternalV(f"builtins.{name}")
        raise self.unsupported(node, f"unknown name {name!r}")

    def as_lin(self, v: AV) -> Optional[Lin]:
        if isinstance(v, IntV):
            return v.lin
        if isinstance(v, Const) and isinstance(v.value, int) and not isinstance(v.value, bool):
            return Lin.k(v.value)
        if isinstance(v, Const) and isinstance(v.value, bool):
            return Lin.k(int(v.value))
        return None

    def from_lin(self, f: Lin) -> AV:
        if f.is_const():
            return Const(f.const)
        return IntV(f)

    def json_kind(self, v: AV) -> Optional[str]:
        if isinstance(v, Sym):
            return self.i.kind_of(v)
        if isinstance(v, Const):
            return const_kind(v.value)
        return None

    def len_var(self, key: Any, label: str, origin: Any = None) -> int:
        if key not in self.len_vars:
            self.len_vars[key] = self.ctx.new_int(f"len({label})", 0)
            if origin is not None:
                self.ctx.len_origin[self.len_vars[key]] = origin
        return self.len_vars[key]

    def abstract_nodelist(self, ci: Any, label: str, lo: int, hi: Optional[int], node_cls: Any, value_of=None) -> Inst:
        """A node list of unknown length in [lo, hi] whose nodes are generic."""
        inst = self.i.new_inst(ci, label)
        lv = self.ctx.new_int(f"len({label})", lo, hi)
        inst.attrs["__len__"] = IntV(Lin.var(lv))
        inst.attrs["__node_cls__"] = ClassV(node_cls)
        if value_of is not None:
            inst.attrs["__value0__"] = value_of
        return inst

    # ----------------------------------------------------------------- len
    def length(self, v: AV, node: Any = None) -> AV:
        if isinstance(v, (PyList, PyTuple)):
            return Const(len(v.items))
        if isinstance(v, (PyDict, PySet)):
            return Const(len(v.items))
        if isinstance(v, Const):
            if isinstance(v.value, (str, bytes)):
                return Const(len(v.value))
            raise self.raise_("TypeError", f"object of type {type(v.value).__name__} has no len()", node)
        if isinstance(v, SymStr):
            self.ctx.len_origin.setdefault(v.len_var, v)
            return IntV(Lin.var(v.len_var))
        if isinstance(v, Sym):
            k = self.i.kind_of(v)
            if k in ("str", "list", "dict"):
                lv = self.len_var(("sym", v.id), v.label)
                self.len_syms.setdefault(lv, [v]) if k == "list" else None
                return IntV(Lin.var(lv))
            raise self.raise_("TypeError", f"object of kind {k} has no len()", node)
        if isinstance(v, Inst):
            if "__len__" in v.attrs:
                return v.attrs["__len__"]
            m = v.cls.find_method("__len__")
            if m is not None:
                return self.i.call_function(m, [v], {}, node, self_av=v)
            if v.seq is not None:
                return self.length(v.seq, node)
            raise self.raise_("TypeError", f"object of type {v.cls.name} has no len()", node)
        if isinstance(v, Source):
            return IntV(Lin.var(self.len_var(("src", v.id), repr(v))))
        if isinstance(v, Stream):
            if all(e.kind == "yield" for e in v.events):
                return Const(len(v.events))
            if v.events and all(e.kind == "foreach" and not any(b.kind in ("yield", "yield_from", "foreach") for b in e.body) for e in v.events):
                # built by loops whose generic iteration contributes nothing on this path (a filter that is false for
                # the generic element): on this path the result is empty
                return Const(0)
            return IntV(Lin.var(self.len_var(("stream", v.id), "stream")))
        if isinstance(v, AbsQueue):
            if v.items is not None:
                return Const(len(v.items))
            return Term("len", (v,), self.ctx.new_id())
        if isinstance(v, (Opaque, Term)):
            r = IntV(Lin.var(self.len_var(("op", v.id), getattr(v, "label", v.__class__.__name__), origin=v)))
            if self._nonempty_match_text(v):
                self.ctx.assume_le0(Lin.k(1) - r.lin)
            self._match_within_subject(v, r)
            return r
        if isinstance(v, (IntV, EnumV, FuncV, BoundMethod, ClassV)):
            raise self.raise_("TypeError", "object has no len()", node)
        raise self.unsupported(node, f"len of {v!r}")

    def _match_within_subject(self, v: AV, r: IntV) -> None:
        """A1: the text matched by `pattern.match(subject, pos)` lies within the subject: pos + len(m.group()) <= len(subject)."""
        if not (isinstance(v, Term) and v.op == "call" and len(v.args) >= 3 and v.args[1] == "group"):
            return
        recv = v.args[0]
        if not (isinstance(recv, Term) and recv.op in ("re.match", "re.fullmatch", "re.search") and len(recv.args) >= 2):
            return
        subj = recv.args[1]
        if not isinstance(subj, SymStr):
            return
        n = Lin.var(subj.len_var)
        pos = recv.args[2] if len(recv.args) > 2 else None
        if recv.op != "re.search" and isinstance(pos, IntV):
            self.ctx.assume_le0(pos.lin + r.lin - n)
        elif recv.op != "re.search" and isinstance(pos, Const) and isinstance(pos.value, int) and pos.value >= 0:
            self.ctx.assume_le0(Lin.k(pos.value) + r.lin - n)
        else:
            self.ctx.assume_le0(r.lin - n)

    def _nonempty_match_text(self, v: AV) -> bool:
        """`m.group()` / `m.group(0)` / `m[0]` of a match of a constant pattern that cannot match the empty string."""
        if not (isinstance(v, Term) and v.op == "call" and len(v.args) >= 3):
            return False
        recv, name, args = v.args[0], v.args[1], v.args[2]
        if name != "group" or not (args == () or (len(args) == 1 and isinstance(args[0], Const) and args[0].value == 0)):
            return False
        if not (isinstance(recv, Term) and recv.op in ("re.match", "re.fullmatch", "re.search") and recv.args):
            return False
        comp = recv.args[0]
        if not (isinstance(comp, Term) and comp.op == "re.compile" and comp.args and isinstance(comp.args[0], Const) and isinstance(comp.args[0].value, str)):
            return False
        pat = comp.args[0].value
        cache = self.__dict__.setdefault("_nullable_cache", {})
        if pat not in cache:
            try:
                from .automata import accepts, from_sre

                cache[pat] = bool(accepts(from_sre(pat), ""))
            except Exception:  # noqa: BLE001
                cache[pat] = True  # unknown: may be empty
        return not cache[pat]

    # --------------------------------------------------------------- truth
    def truth(self, v: AV, node: Any = None) -> bool:
        if isinstance(v, Const):
            return bool(v.value)
        if isinstance(v, IntV):
            # v != 0
            f = v.lin
            le0 = self.ctx.decide_le0(f)
            if not le0:
                return True
            ge0 = self.ctx.decide_le0(-f)
            return not ge0
        if isinstance(v, Sym):
            k = self.i.kind_of(v)
            if k == "null":
                return False
            if k in ("bool", "int", "float"):
                return self.ctx.choose(("truth", v.id), [True, False])
            ln = self.length(v, node)
            return self.truth(ln, node)
        if isinstance(v, (PyList, PyTuple, PyDict, PySet)):
            return len(v.items) > 0
        if isinstance(v, Inst):
            m = v.cls.find_method("__bool__")
            if m is not None:
                return self.truth(self.i.call_function(m, [v], {}, node, self_av=v), node)
            if "__len__" in v.attrs or v.seq is not None or v.cls.find_method("__len__") is not None:
                return self.truth(self.length(v, node), node)
            return True
        if isinstance(v, (SymStr,)):
            return self.truth(IntV(Lin.var(v.len_var)), node)
        if isinstance(v, SymChar):
            return True
        if isinstance(v, (Opaque,)):
            return self.ctx.choose(("truth", "opaque", v.id), [True, False])
        if isinstance(v, AbsQueue):
            if v.items is not None:
                return len(v.items) > 0
            return self.ctx.choose(("truth", "queue", v.id, len(v.log)), [True, False])
        if isinstance(v, Term):
            if v.op == "strpart":
                self.ctx.atom_info[("truth", "term", v.id)] = {"kind": "nonempty", "recv": v}
            return self.ctx.choose(("truth", "term", v.id), [True, False])
        if isinstance(v, (Source, Stream)):
            return self.truth(self.length(v, node), node)
        if isinstance(v, (FuncV, BoundMethod, ClassV, EnumV, ExternalV, HostMethod, ModuleV, LambdaV, GenV, SliceV)):
            return True
        if isinstance(v, HostExc):
            return True
        raise self.unsupported(node, f"truth of {v!r}")

    # ------------------------------------------------------------ isinstance
    def host_class_names(self, v: AV) -> Optional[List[str]]:
        """Host class chain of a value, most derived first (None = not a host value)."""
        if isinstance(v, Const):
            val = v.value
            if val is None:
                return ["NoneType", "object"]
            if isinstance(val, bool):
                return ["bool", "int", "object"]
            if isinstance(val, int):
                return ["int", "object"]
            if isinstance(val, float):
                return ["float", "object"]
            if isinstance(val, str):
                return ["str", "Sequence", "Sized", "Iterable", "object"]
            if isinstance(val, bytes):
                return ["bytes", "Sequence", "Sized", "Iterable", "object"]
        if isinstance(v, Sym):
            k = self.i.kind_of(v)
            return {
                "null": ["NoneType", "object"],
                "bool": ["bool", "int", "object"],
                "int": ["int", "object"],
                "float": ["float", "object"],
                "str": ["str", "Sequence", "Sized", "Iterable", "object"],
                "list": ["list", "Sequence", "MutableSequence", "Sized", "Iterable", "object"],
                "dict": ["dict", "Mapping", "MutableMapping", "Sized", "Iterable", "object"],
            }[k]
        if isinstance(v, IntV):
            return ["int", "object"]
        if isinstance(v, (SymStr, SymChar)):
            return ["str", "Sequence", "Sized", "Iterable", "object"]
        if isinstance(v, PyList):
            return ["list", "Sequence", "MutableSequence", "Sized", "Iterable", "object"]
        if isinstance(v, PyTuple):
            return ["tuple", "Sequence", "Sized", "Iterable", "object"]
        if isinstance(v, PyDict):
            return ["dict", "Mapping", "MutableMapping", "Sized", "Iterable", "object"]
        if isinstance(v, PySet):
            return ["frozenset" if v.frozen else "set", "Sized", "Iterable", "object"]
        if isinstance(v, Source):
            return ["list", "Sequence", "Sized", "Iterable", "object"] if v.fresh else ["Iterable", "object"]
        if isinstance(v, SliceV):
            return ["slice", "object"]
        if isinstance(v, (FuncV, BoundMethod, LambdaV)):
            return ["function", "object"]
        return None

    def isinstance_(self, v: AV, spec: AV, node: Any = None) -> bool:
        if isinstance(spec, PyTuple):
            return any(self.isinstance_(v, s, node) for s in spec.items)
        if isinstance(spec, ClassV):
            if isinstance(v, Inst):
                return v.cls.is_subclass_of(spec.ci)
            if isinstance(v, Opaque):
                if v.hint is not None:
                    if v.hint.is_subclass_of(spec.ci):
                        return True
                    if spec.ci.is_subclass_of(v.hint):
                        return self.ctx.choose(("isinst", v.id, spec.ci.qualname), [True, False])
                    return False
                return self.ctx.choose(("isinst", v.id, spec.ci.qualname), [True, False])
            if isinstance(v, Term):
                return self.ctx.choose(("isinst", "term", v.id, spec.ci.qualname), [True, False])
            return False
        if isinstance(spec, ExternalV) and isinstance(v, HostExc):
            full = spec.name[9:] if spec.name.startswith("builtins.") else spec.name
            return full == "object" or builtin_exc_is_subclass(v.name, full) or builtin_exc_is_subclass(v.name, full.split(".")[-1]) or builtin_exc_is_subclass(v.name.split(".")[-1], full.split(".")[-1])
        if isinstance(spec, ExternalV):
            name = spec.name.split(".")[-1]
            if isinstance(v, Inst):
                names = [b.split("[")[0] for b in v.cls.all_external_bases()]
                if "List" in names or "list" in names:
                    names += ["list", "Sequence", "MutableSequence", "Sized", "Iterable"]
                for b in list(names):
                    cur = b
                    while cur in BUILTIN_EXC_BASES and BUILTIN_EXC_BASES[cur]:
                        cur = BUILTIN_EXC_BASES[cur]
                        names.append(cur)
                if v.cls.find_method("__len__") is not None:
                    names.append("Sized")
                return name in names or name == "object"
            chain = self.host_class_names(v)
            if chain is not None:
                return name in chain
            if isinstance(v, (Opaque, Term)):
                return self.ctx.choose(("isinst", v.id, name), [True, False])
            if isinstance(v, (EnumV, ClassV, ModuleV, ExternalV, HostExc)):
                return name == "object"
            raise self.unsupported(node, f"isinstance({v!r}, {name})")
        raise self.unsupported(node, f"isinstance spec {spec!r}")

    # ------------------------------------------------------------- equality
    def rel(self, a: AV, b: AV) -> str:
        """Order relation 'lt'|'eq'|'gt' between two JSON scalars of one category."""

        def desc(x: AV):
            if isinstance(x, Sym):
                return ("s", x.id)
            return ("c", repr(x.value))

        if isinstance(a, Const) and isinstance(b, Const):
            return "lt" if a.value < b.value else ("eq" if a.value == b.value else "gt")
        da, db = desc(a), desc(b)
        if da == db:
            return "eq"
        if da <= db:
            return self.ctx.choose(("rel", da, db), ["lt", "eq", "gt"])
        r = self.ctx.choose(("rel", db, da), ["lt", "eq", "gt"])
        return {"lt": "gt", "eq": "eq", "gt": "lt"}[r]

    def py_eq(self, a: AV, b: AV, node: Any = None) -> bool:
        # dunder dispatch on package classes
        for x, y in ((a, b), (b, a)):
            if isinstance(x, Inst):
                m = x.cls.find_method("__eq__")
                if m is not None:
                    return self.truth(self.i.call_function(m, [x, y], {}, node, self_av=x), node)
        if isinstance(a, Inst) or isinstance(b, Inst):
            if isinstance(a, Inst) and isinstance(b, Inst):
                if a.id == b.id:
                    return True
                if (a.seq is not None or "__len__" in a.attrs) and (b.seq is not None or "__len__" in b.attrs):
                    return self.list_eq(a, b, node)
                return False
            other = b if isinstance(a, Inst) else a
            inst = a if isinstance(a, Inst) else b
            if inst.seq is not None or "__len__" in inst.attrs:
                # list subclass compared with a host value: equal only to a list
                k = self.json_kind(other)
                if k == "list" or isinstance(other, PyList):
                    return self.ctx.choose(("nodelist_eq_hostlist", inst.id), [False, True])
                return False
            return False
        la, lb = self.as_lin(a), self.as_lin(b)
        if la is not None and lb is not None:
            d = la - lb
            if not self.ctx.decide_le0(d):
                return False
            return self.ctx.decide_le0(-d)
        if isinstance(a, Const) and isinstance(b, Const):
            return a.value == b.value
        if isinstance(a, EnumV) or isinstance(b, EnumV):
            return isinstance(a, EnumV) and isinstance(b, EnumV) and a.key() == b.key()
        if isinstance(a, (SymChar, SymStr)) or isinstance(b, (SymChar, SymStr)):
            return self.str_eq(a, b, node)
        ka, kb = self.json_kind(a), self.json_kind(b)
        if ka is not None and kb is not None:
            ca, cb = category(ka), category(kb)
            if ca != cb:
                return False
            if ca == "null":
                return True
            if ca in ("num", "str"):
                return self.rel(a, b) == "eq"
            # containers: host == recurses with host == (leaks bool/number at depth)
            ia, ib = sorted([a.id, b.id])  # type: ignore[union-attr]
            if ia == ib:
                return True
            w = self.ctx.choose(("deep", ia, ib), ["rfc_eq", "host_eq_only", "ne"])
            return w != "ne"
        if isinstance(a, (PyTuple, PyList)) and isinstance(b, (PyTuple, PyList)):
            if type(a) is not type(b) or len(a.items) != len(b.items):
                return False
            return all(self.py_eq(x, y, node) for x, y in zip(a.items, b.items))
        if isinstance(a, (PyTuple, PyList, PyDict, PySet)) or isinstance(b, (PyTuple, PyList, PyDict, PySet)):
            if isinstance(a, PySet) and isinstance(b, PySet):
                return a.items == b.items
            kother = self.json_kind(b if isinstance(a, (PyTuple, PyList, PyDict, PySet)) else a)
            if kother is not None or isinstance(a, (IntV, EnumV)) or isinstance(b, (IntV, EnumV)):
                return False
        if isinstance(a, ClassV) and isinstance(b, ClassV):
            return a.ci is b.ci
        if isinstance(a, (Opaque, Term)) or isinstance(b, (Opaque, Term)):
            if a is b:
                return True
            ida = getattr(a, "id", None)
            idb = getattr(b, "id", None)
            return self.ctx.choose(("opaque_eq", repr(a) if ida is None else ida, repr(b) if idb is None else idb), [False, True])
        if isinstance(a, SliceV) and isinstance(b, SliceV):
            return self.py_eq(a.start, b.start) and self.py_eq(a.stop, b.stop) and self.py_eq(a.step, b.step)
        if (self.json_kind(a) is not None or isinstance(a, IntV)) != (self.json_kind(b) is not None or isinstance(b, IntV)):
            return False
        if isinstance(a, IntV) or isinstance(b, IntV):
            # symbolic index integer against a JSON value
            k = self.json_kind(a if not isinstance(a, IntV) else b)
            if k in ("int", "float", "bool"):
                return self.ctx.choose(("inteq", repr(a), repr(b)), [False, True])
            return False
        if a is b:
            return True
        raise self.unsupported(node, f"== between {a!r} and {b!r}")

    def list_eq(self, a: Inst, b: Inst, node: Any) -> bool:
        la, lb = self.length(a, node), self.length(b, node)
        if not self.py_eq(la, lb, node):
            return False
        if isinstance(la, Const) and la.value == 0:
            return True
        return self.ctx.choose(("nodelists_eq", a.id, b.id), [False, True])

    def str_eq(self, a: AV, b: AV, node: Any) -> bool:
        if isinstance(b, SymChar) and not isinstance(a, SymChar):
            a, b = b, a
        if isinstance(a, SymChar):
            if isinstance(b, Const):
                if not isinstance(b.value, str) or len(b.value) != 1:
                    return False
                return self.char_is(a, b.value)
            if isinstance(b, SymChar):
                if a.id == b.id:
                    return True
                fa, fb = self.ctx.char_fixed.get(a.id), self.ctx.char_fixed.get(b.id)
                if fa is not None and fb is not None:
                    return fa == fb
                return self.ctx.choose(("chareq", min(a.id, b.id), max(a.id, b.id)), [False, True])
            return False
        if isinstance(b, SymStr) and not isinstance(a, SymStr):
            a, b = b, a
        assert isinstance(a, SymStr)
        if isinstance(b, Const):
            if not isinstance(b.value, str):
                return False
            return self.ctx.choose(("streq", a.id, b.value), [False, True])
        if isinstance(b, SymStr):
            if a.id == b.id:
                return True
            return self.ctx.choose(("streq", min(a.id, b.id), max(a.id, b.id)), [False, True])
        if isinstance(b, Sym):
            if self.i.kind_of(b) != "str":
                return False
            return self.ctx.choose(("streq", a.id, ("sym", b.id)), [False, True])
        return False

    def char_is(self, ch: SymChar, c: str) -> bool:
        fixed = self.ctx.char_fixed.get(ch.id)
        if fixed is not None:
            return fixed == c
        excl = self.ctx.char_excl.setdefault(ch.id, set())
        if c in excl:
            return False
        # consistency with code point bounds
        cp = ord(c)
        lo, hi = self.ctx.oct.bounds_var(ch.cp_var)
        if cp < lo or cp > hi:
            excl.add(c)
            return False
        r = self.ctx.choose(("charis", ch.id, c), [True, False])
        if r:
            self.ctx.char_fixed[ch.id] = c
            self.ctx.assume_le0(Lin({ch.cp_var: 1}, -cp))
            self.ctx.assume_le0(Lin({ch.cp_var: -1}, cp))
        else:
            excl.add(c)
        return r

    def identical(self, a: AV, b: AV, node: Any = None) -> bool:
        if isinstance(a, Const) and isinstance(b, Const):
            if a.value is None or b.value is None or isinstance(a.value, bool) or isinstance(b.value, bool):
                return a.value is b.value
            return a.value == b.value and type(a.value) is type(b.value)
        for x, y in ((a, b), (b, a)):
            if isinstance(x, Sym) and isinstance(y, Const):
                k = self.i.kind_of(x)
                if y.value is None:
                    return k == "null"
                if isinstance(y.value, bool):
                    if k != "bool":
                        return False
                    t = self.ctx.choose(("truth", x.id), [True, False])
                    return t == y.value
                return False
        if isinstance(a, Inst) and isinstance(b, Inst):
            return a.id == b.id
        if isinstance(a, EnumV) and isinstance(b, EnumV):
            return a.key() == b.key()
        if isinstance(a, ClassV) and isinstance(b, ClassV):
            return a.ci is b.ci
        if isinstance(a, Sym) and isinstance(b, Sym):
            if a.id == b.id:
                return True
            ka, kb = self.i.kind_of(a), self.i.kind_of(b)
            if ka != kb:
                return False
            if ka == "null":
                return True
            if ka == "bool":
                return self.rel(a, b) == "eq"
            return self.ctx.choose(("same_object", min(a.id, b.id), max(a.id, b.id)), [False, True])
        for x, y in ((a, b), (b, a)):
            # state left behind by earlier calls may be any object that existed before this call: a document value,
            # another harness-made object, a singleton; never an object created during this call
            if isinstance(x, Opaque) and x.label.startswith("state-left-by-earlier-calls") and x is not y:
                older = isinstance(y, (Sym, Opaque)) or (isinstance(y, Inst) and not y.constructed) or (isinstance(y, Const) and (y.value is None or isinstance(y.value, bool)))
                if older:
                    return self.ctx.choose(("same_object", "state", x.id, getattr(y, "id", repr(y))), [False, True])
                return False
        if type(a) is not type(b):
            if isinstance(a, (Opaque, Term)) or isinstance(b, (Opaque, Term)):
                if isinstance(a, Const) or isinstance(b, Const):
                    c = a if isinstance(a, Const) else b
                    o = b if isinstance(a, Const) else a
                    return self.ctx.choose(("is", o.id, repr(c.value)), [False, True])
            return False
        if isinstance(a, (Opaque, Term)):
            return a.id == b.id or (a is b)
        return a is b

    # ------------------------------------------------------------- ordering
    def py_lt(self, a: AV, b: AV, node: Any = None) -> bool:
        la, lb = self.as_lin(a), self.as_lin(b)
        if la is not None and lb is not None and (isinstance(a, IntV) or isinstance(b, IntV)):
            # a < b  <=>  a - b + 1 <= 0
            return self.ctx.decide_le0(la - lb + Lin.k(1))
        if isinstance(a, Const) and isinstance(b, Const):
            try:
                return bool(a.value < b.value)
            except TypeError:
                raise self.raise_("TypeError", "'<' not supported", node) from None
        ka, kb = self.json_kind(a), self.json_kind(b)
        if ka is not None and kb is not None:
            ca, cb = category(ka), category(kb)
            if ca == cb and ca in ("num", "str"):
                return self.rel(a, b) == "lt"
            if ca == cb == "list":
                r = self.ctx.choose(("hostlt_list", a.id, b.id), [False, True, "TypeError"])  # type: ignore[union-attr]
                if r == "TypeError":
                    raise self.raise_("TypeError", "'<' between list elements", node)
                return bool(r)
            raise self.raise_("TypeError", f"'<' not supported between {ka} and {kb}", node)
        for x, y, refl in ((a, b, "__lt__"), (b, a, "__gt__")):
            if isinstance(x, Inst):
                m = x.cls.find_method(refl)
                if m is not None:
                    return self.truth(self.i.call_function(m, [x, y], {}, node, self_av=x), node)
        if isinstance(a, (Inst, PyList, PyTuple, PyDict, EnumV)) or isinstance(b, (Inst, PyList, PyTuple, PyDict, EnumV)):
            if isinstance(a, (Opaque, Term)) or isinstance(b, (Opaque, Term)):
                pass
            else:
                raise self.raise_("TypeError", "'<' not supported between these operands", node)
        if isinstance(a, (Opaque, Term)) or isinstance(b, (Opaque, Term)):
            r = self.ctx.choose(("opaque_lt", getattr(a, "id", repr(a)), getattr(b, "id", repr(b))), [False, True, "TypeError"])
            if r == "TypeError":
                raise self.raise_("TypeError", "'<' on unknown operands", node)
            return bool(r)
        if (ka is None) != (kb is None):
            if isinstance(a, IntV) or isinstance(b, IntV):
                k = ka or kb
                if k in NUMCAT:
                    return self.ctx.choose(("intlt", repr(a), repr(b)), [False, True])
            raise self.raise_("TypeError", "'<' not supported between these operands", node)
        raise self.unsupported(node, f"< between {a!r} and {b!r}")

    def compare(self, op: str, a: AV, b: AV, node: Any = None) -> bool:
        if op == "Eq":
            return self.py_eq(a, b, node)
        if op == "NotEq":
            for x, y in ((a, b),):
                if isinstance(x, Inst):
                    m = x.cls.find_method("__ne__")
                    if m is not None:
                        return self.truth(self.i.call_function(m, [x, y], {}, node, self_av=x), node)
            return not self.py_eq(a, b, node)
        if op == "Lt":
            return self.py_lt(a, b, node)
        if op == "Gt":
            return self.py_lt(b, a, node)
        if op in ("LtE", "GtE"):
            x, y = (a, b) if op == "LtE" else (b, a)
            lx, ly = self.as_lin(x), self.as_lin(y)
            if lx is not None and ly is not None and (isinstance(x, IntV) or isinstance(y, IntV)):
                return self.ctx.decide_le0(lx - ly)
            if isinstance(x, Const) and isinstance(y, Const):
                try:
                    return bool(x.value <= y.value)
                except TypeError:
                    raise self.raise_("TypeError", "'<=' not supported", node) from None
            kx, ky = self.json_kind(x), self.json_kind(y)
            if kx is not None and ky is not None:
                cx, cy = category(kx), category(ky)
                if cx == cy and cx in ("num", "str"):
                    return self.rel(x, y) in ("lt", "eq")
                if cx == cy == "list":
                    r = self.ctx.choose(("hostle_list", x.id, y.id), [False, True, "TypeError"])  # type: ignore[union-attr]
                    if r == "TypeError":
                        raise self.raise_("TypeError", "'<=' between list elements", node)
                    return bool(r)
                raise self.raise_("TypeError", f"'<=' not supported between {kx} and {ky}", node)
            if self.py_lt(x, y, node):
                return True
            return self.py_eq(x, y, node)
        if op == "Is":
            return self.identical(a, b, node)
        if op == "IsNot":
            return not self.identical(a, b, node)
        if op == "In":
            return self.contains(b, a, node)
        if op == "NotIn":
            return not self.contains(b, a, node)
        raise self.unsupported(node, f"comparison {op}")

    def contains(self, cont: AV, item: AV, node: Any = None) -> bool:
        if isinstance(cont, (PyTuple, PyList)):
            return any(self.py_eq(item, x, node) for x in cont.items)
        if isinstance(cont, (PyDict, PySet)):
            if isinstance(item, SymChar):
                for k in sorted(cont.items, key=repr):
                    kav = cont.keys_av[k]
                    if self.py_eq(item, kav, node):
                        return True
                return False
            if isinstance(item, (Sym, SymStr, Opaque, Term, IntV)):
                for k in sorted(cont.items, key=repr):
                    if self.py_eq(item, cont.keys_av[k], node):
                        return True
                return False
            from .absint import hkey

            return hkey(item) in cont.items
        if isinstance(cont, Const) and isinstance(cont.value, str):
            if isinstance(item, Const):
                if not isinstance(item.value, str):
                    raise self.raise_("TypeError", "'in <string>' requires string", node)
                return item.value in cont.value
            if isinstance(item, SymChar):
                for c in cont.value:
                    if self.char_is(item, c):
                        return True
                return False
        if isinstance(cont, SymStr) and isinstance(item, Const):
            key = ("substr_in", item.value, cont.id)
            self.ctx.atom_info[key] = {"kind": "contains", "recv": cont, "item": item.value}
            return self.ctx.choose(key, [False, True])
        if isinstance(cont, Sym):
            k = self.i.kind_of(cont)
            if k == "dict":
                return self.has_key(cont, item)
            if k == "list":
                return self.ctx.choose(("in_list", cont.id, repr(item)), [False, True])
            if k == "str":
                if self.json_kind(item) == "str" or isinstance(item, (SymStr, SymChar)):
                    return self.ctx.choose(("in_str", cont.id, repr(item)), [False, True])
                raise self.raise_("TypeError", "'in <string>' requires string as left operand", node)
            raise self.raise_("TypeError", f"argument of kind {k} is not iterable", node)
        if isinstance(cont, Inst) and (cont.seq is not None):
            return self.contains(cont.seq, item, node)
        if isinstance(cont, (Opaque, Term, Source, Stream)):
            return self.ctx.choose(("in", getattr(cont, "id", 0), repr(item)), [False, True])
        if isinstance(cont, Inst) and not any(cont.cls.find_method(m) is not None for m in ("__contains__", "__iter__", "__getitem__")):
            raise self.raise_("TypeError", f"argument of type {cont.cls.name!r} is not iterable", node)
        if isinstance(cont, Const) and not isinstance(cont.value, (str, bytes, tuple, list, dict, set, frozenset)):
            raise self.raise_("TypeError", f"argument of type {type(cont.value).__name__!r} is not iterable", node)
        raise self.unsupported(node, f"{item!r} in {cont!r}")

    def key_desc(self, key: AV) -> Any:
        if isinstance(key, Const):
            return ("c", repr(key.value))
        if isinstance(key, (SymStr, Sym, Opaque, Term, SymChar)):
            return ("s", key.id)
        if isinstance(key, IntV):
            return ("i", key.lin.key())
        return ("r", repr(key))

    def has_key(self, d: Sym, key: AV) -> bool:
        if isinstance(key, SymStr) and key.id in self.elem_by_str and self.elem_by_str[key.id].src.base is d:
            return True
        return self.ctx.choose(("haskey", d.id, self.key_desc(key)), [True, False])

    def member(self, d: Sym, key: AV, label: Optional[str] = None) -> AV:
        if isinstance(key, SymStr) and key.id in self.elem_by_str:
            el = self.elem_by_str[key.id]
            if el.src.base is d or (isinstance(el.src.base, Source) and el.src.base.base is d):
                return el.val  # type: ignore[return-value]
        k = ("member", d.id, self.key_desc(key))
        if k not in self.members:
            self.members[k] = self.i.new_sym(label or f"{d.label}[{getattr(key, 'label', getattr(key, 'value', '?'))}]", origin=("member", d, key))
        return self.members[k]
