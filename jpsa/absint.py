"""Finite-domain abstract interpreter over the package's AST.

It interprets the *source text* of the analysed package on abstract values
(kinds, linear integer forms, symbolic characters, opaque objects).  Unknown
conditions fork through Ctx.choose, so one call of `explore` enumerates every
syntactic path of the interpreted function for the given abstract input cell.
Loops over unbounded data are executed once on a generic element and recorded
as a `foreach` event (see absval.Ev).  Nothing of the package is imported or run.
"""

from __future__ import annotations

import ast
from typing import Any
from typing import Dict
from typing import List
from typing import Optional
from typing import Tuple

from .absctx import Ctx
from .absctx import Infeasible
from .absctx import Unsupported
from .absval import *  # noqa: F403
from .absval import AV
from .model import ClassInfo
from .model import FuncInfo
from .model import Model
from .model import ModuleInfo
from .numeric import Lin


class AbsRaise(Exception):
    def __init__(self, exc: AV, site: Any = None, cause: Any = None) -> None:
        super().__init__(repr(exc))
        self.exc = exc
        self.site = site
        self.cause = cause


class _Return(Exception):
    def __init__(self, value: AV) -> None:
        self.value = value


class _Break(Exception):
    pass


class _Continue(Exception):
    pass


class Frame:
    __slots__ = ("fi", "locals", "parent", "events", "self_av", "mod", "is_gen", "cur_exc", "cls_scope")

    def __init__(self, fi: Optional[FuncInfo], mod: ModuleInfo, parent: Optional["Frame"] = None) -> None:
        self.fi = fi
        self.mod = mod
        self.locals: Dict[str, AV] = {}
        self.parent = parent
        self.events: Optional[List[Ev]] = None
        self.self_av: Optional[AV] = None
        self.is_gen = False
        self.cur_exc: Optional[AbsRaise] = None
        self.cls_scope: Any = None


NONE = Const(None)
TRUE = Const(True)
FALSE = Const(False)

KIND_HOST = {
    "null": "NoneType",
    "bool": "bool",
    "int": "int",
    "float": "float",
    "str": "str",
    "list": "list",
    "dict": "dict",
}


def hkey(av: AV) -> Any:
    if isinstance(av, Const):
        v = av.value
        if isinstance(v, bool):
            return ("c", "bool", v)
        return ("c", type(v).__name__, v)
    if isinstance(av, EnumV):
        return ("e",) + av.key()
    if isinstance(av, PyTuple):
        return ("t", tuple(hkey(x) for x in av.items))
    if isinstance(av, Inst):
        return ("i", av.id)
    if isinstance(av, (FuncV,)):
        return ("f", av.fi.qualname)
    raise Unsupported(f"unhashable abstract value {av!r}")


class Interp:
    MAX_DEPTH = 60

    def __init__(self, model: Model, ctx: Ctx) -> None:
        self.model = model
        self.ctx = ctx
        self.stack: List[Frame] = []
        self.loop_depth = 0
        self.sink_stack: List[List[Ev]] = [ctx.log]
        self.global_cache: Dict[Tuple[str, str], AV] = {}
        self.class_attr_cache: Dict[Tuple[str, str], AV] = {}
        self.active: List[Tuple[str, int]] = []  # functions on the stack (for recursion cut)
        self.hooks: Dict[str, Any] = {}  # qualname -> callable(interp, args, kwargs) override
        self.touched: set = set()
        self.opaque_calls: List[Any] = []
        self.stubs: Dict[Any, Any] = {}  # (inst id, method name) -> AV | callable
        self.genexp_origin: Dict[int, Any] = {}  # id(value of a generator expression) -> (node, frame, value)
        from .abshost2 import Host

        self.host = Host(self)

    # ------------------------------------------------------------ utilities
    def site(self, node: ast.AST, fr: Optional[Frame] = None) -> Tuple[str, int, str]:
        fr = fr or (self.stack[-1] if self.stack else None)
        if fr is None:
            return ("?", getattr(node, "lineno", 0), "?")
        return (fr.mod.relpath, getattr(node, "lineno", 0), fr.fi.qualname if fr.fi else "<module>")

    def unsupported(self, node: ast.AST, why: str) -> Unsupported:
        f, l, q = self.site(node)
        return Unsupported(f"{f}:{l} in {q}: {why}")

    @property
    def sink(self) -> List[Ev]:
        return self.sink_stack[-1]

    def emit(self, ev: Ev) -> None:
        self.sink.append(ev)

    def new_sym(self, label: str, kinds=JSON_KINDS, origin: Any = None) -> Sym:
        return Sym(self.ctx.new_id(), label, kinds, origin)

    def new_int(self, label: str, lo: Any = None, hi: Any = None) -> IntV:
        return IntV(Lin.var(self.ctx.new_int(label, lo, hi)))

    def new_str(self, label: str, origin: Any = None) -> SymStr:
        lv = self.ctx.new_int(f"len({label})", 0)
        return SymStr(self.ctx.new_id(), label, lv, origin)

    def new_opaque(self, label: str, hint: Any = None) -> Opaque:
        return Opaque(self.ctx.new_id(), label, hint)

    def new_list(self, items=()) -> PyList:
        return PyList(items, depth=self.loop_depth, oid=self.ctx.new_id())

    def new_inst(self, ci: ClassInfo, label: str = "") -> Inst:
        return Inst(ci, self.ctx.new_id(), depth=self.loop_depth, label=label)

    def harness_inst(self, ci: ClassInfo, label: str = "") -> Inst:
        """An instance handed to the analysed code from outside (made by a rule's harness, attributes filled in by hand).
        Every attribute that some non-constructor method of its class writes is unknown: the object may have been
        through any number of earlier calls."""
        from . import effects

        inst = self.new_inst(ci, label)
        self.havoc_written(inst, ci.name)
        return inst

    def compile_time_config(self, env: Inst) -> Dict[str, AV]:
        """Replace every configuration attribute of the environment (class attributes with a bool / int default) by a
        fresh unknown for the duration of a constructor evaluation; returns the attributes to restore afterwards.
        The configuration is public and mutable: its value when a query was compiled says nothing about its value
        when the query is applied."""
        saved = dict(env.attrs)
        for ci in env.cls.mro():
            for name, default in ci.attrs.items():
                if isinstance(default, ast.Constant) and isinstance(default.value, bool):
                    env.attrs[name] = Const(self.ctx.choose(("compile-time-config", env.id, name), [False, True]))
                elif (isinstance(default, ast.Constant) and isinstance(default.value, int)) or isinstance(default, (ast.UnaryOp, ast.BinOp)):
                    env.attrs[name] = self.new_int(f"compile-time {name}")
        return saved

    def havoc_written(self, inst: Inst, label: str) -> List[str]:
        from . import effects

        done = []
        for name, kind in sorted(effects.written_attr_kinds(self.model, inst.cls.qualname).items()):
            lab = f"state-left-by-earlier-calls:{label}.{name}"
            if kind == "int":
                inst.attrs[name] = self.new_int(lab)
            elif kind == "bool":
                inst.attrs[name] = Const(self.ctx.choose(("state", inst.id, name), [False, True]))
            else:
                inst.attrs[name] = self.new_opaque(lab)
            done.append(f"{label}.{name}")
        return done

    def kind_of(self, s: Sym) -> str:
        ks = sorted(s.kinds, key=JSON_KINDS.index)
        return self.ctx.choose(("kind", s.id), ks)

    def host_exc(self, name: str, msg: str = "", node: Any = None) -> AbsRaise:
        return AbsRaise(HostExc(name, msg), self.site(node) if node is not None else None)

    # -------------------------------------------------------------- globals
    def module_global(self, mod: ModuleInfo, name: str, node: Optional[ast.AST] = None) -> AV:
        key = (mod.name, name)
        if key in self.global_cache:
            return self.global_cache[key]
        r = self.model.resolve_global(mod, name)
        if r is None:
            return self.host.builtin(name, node)
        kind = r[0]
        if kind == "class":
            v: AV = ClassV(r[1])
        elif kind == "func":
            v = FuncV(r[1])
        elif kind == "module":
            v = ModuleV(r[1])
        elif kind == "external":
            v = ExternalV(r[1])
        elif kind == "assign":
            m2, n2 = r[1], r[2]
            key2 = (m2.name, n2)
            if key2 in self.global_cache:
                return self.global_cache[key2]
            fr = Frame(None, m2)
            self.stack.append(fr)
            try:
                v = self.eval(m2.assigns[n2], fr)
                self.global_cache[key2] = v
                # module-level statements that go on filling the object after it is bound (X.update(...), X[k] = v,
                # X.append(...), X += ...) are part of its value
                for st in getattr(m2, "tree", None).body if getattr(m2, "tree", None) is not None else ():
                    tgt = None
                    if isinstance(st, ast.Expr) and isinstance(st.value, ast.Call) and isinstance(st.value.func, ast.Attribute) and isinstance(st.value.func.value, ast.Name):
                        tgt = st.value.func.value.id
                    elif isinstance(st, ast.Assign) and len(st.targets) == 1 and isinstance(st.targets[0], ast.Subscript) and isinstance(st.targets[0].value, ast.Name):
                        tgt = st.targets[0].value.id
                    elif isinstance(st, ast.AugAssign) and isinstance(st.target, ast.Name):
                        tgt = st.target.id
                    if tgt == n2 and st.lineno > getattr(m2.assigns[n2], "lineno", 0):
                        self.exec_block([st], fr)
                        v = fr.locals.get(n2, v)
            finally:
                self.stack.pop()
            if isinstance(v, (PyDict, PyList, PySet)) and self._module_state_written(m2, n2):
                # a module-level container that functions go on writing (and whose content is not determined by its
                # key): what it holds when the analysed call starts was left there by earlier calls
                v = self.new_opaque(f"state-left-by-earlier-calls:{m2.short}.{n2}")
            self.global_cache[key2] = v
        else:
            raise Unsupported(f"cannot resolve global {name} in {mod.name}")
        self.global_cache[key] = v
        return v

    def _module_state_written(self, mod: ModuleInfo, name: str) -> bool:
        from . import effects

        for w in effects.census(self.model, exclude_modules=()):
            if w.cls != "shared" or w.fn.module is not mod:
                continue
            recv = w.receiver.split(".")[0].split("[")[0]
            if recv != name:
                continue
            a = w.fn.node.args
            local = {x.arg for x in a.args + a.kwonlyargs + a.posonlyargs}
            for n in ast.walk(w.fn.node):
                if isinstance(n, ast.Name) and isinstance(n.ctx, ast.Store) and n.id == name:
                    local.add(name)
            declared_global = any(isinstance(n, ast.Global) and name in n.names for n in ast.walk(w.fn.node))
            if name not in local or declared_global:
                return True
        return False

    def lookup(self, name: str, fr: Frame, node: Optional[ast.AST] = None) -> AV:
        f: Optional[Frame] = fr
        while f is not None:
            if name in f.locals:
                return f.locals[name]
            if f.cls_scope is not None:
                r = self.host.class_attr(f.cls_scope, name, None, node)
                if r is not None:
                    return r
            f = f.parent
        return self.module_global(fr.mod, name, node)

    # ------------------------------------------------------------ expressions
    def eval(self, node: ast.expr, fr: Frame) -> AV:
        m = getattr(self, "e_" + type(node).__name__, None)
        if m is None:
            raise self.unsupported(node, f"expression {type(node).__name__}")
        return m(node, fr)

    def e_Constant(self, node: ast.Constant, fr: Frame) -> AV:
        if node.value is Ellipsis:
            return Const(None)
        return Const(node.value)

    def e_Name(self, node: ast.Name, fr: Frame) -> AV:
        return self.lookup(node.id, fr, node)

    def e_Tuple(self, node: ast.Tuple, fr: Frame) -> AV:
        return PyTuple(self.eval_seq(node.elts, fr))

    def e_List(self, node: ast.List, fr: Frame) -> AV:
        return self.new_list(self.eval_seq(node.elts, fr))

    def eval_seq(self, elts: List[ast.expr], fr: Frame) -> List[AV]:
        out: List[AV] = []
        for e in elts:
            if isinstance(e, ast.Starred):
                v = self.eval(e.value, fr)
                out.extend(self.concrete_items(v, e))
            else:
                out.append(self.eval(e, fr))
        return out

    def e_Set(self, node: ast.Set, fr: Frame) -> AV:
        s = PySet(depth=self.loop_depth, oid=self.ctx.new_id())
        for e in self.eval_seq(node.elts, fr):
            k = hkey(e)
            s.items.add(k)
            s.keys_av[k] = e
        return s

    def e_Dict(self, node: ast.Dict, fr: Frame) -> AV:
        d = PyDict(depth=self.loop_depth, oid=self.ctx.new_id())
        for k, v in zip(node.keys, node.values):
            if k is None:
                src = self.eval(v, fr)
                if not isinstance(src, PyDict):
                    raise self.unsupported(node, "dict unpacking of a non-literal mapping")
                for hk2, v2 in src.items.items():
                    d.items[hk2] = v2
                    d.keys_av[hk2] = src.keys_av[hk2]
                continue
            kv = self.eval(k, fr)
            hk = hkey(kv)
            d.items[hk] = self.eval(v, fr)
            d.keys_av[hk] = kv
        return d

    def e_JoinedStr(self, node: ast.JoinedStr, fr: Frame) -> AV:
        parts: List[Any] = []
        concrete = True
        for v in node.values:
            if isinstance(v, ast.Constant):
                parts.append(Const(v.value))
            elif isinstance(v, ast.FormattedValue):
                x = self.eval(v.value, fr)
                conv = v.conversion
                if v.format_spec is not None:
                    spec = self.eval(v.format_spec, fr)
                    if isinstance(x, Const) and isinstance(spec, Const) and isinstance(spec.value, str) and conv == -1:
                        try:
                            parts.append(Const(format(x.value, spec.value)))
                        except (ValueError, TypeError) as err:
                            raise AbsRaise(HostExc(type(err).__name__, str(err)), self.site(node, fr)) from None
                        continue
                    if not (isinstance(spec, Const) and spec.value == ""):
                        raise self.unsupported(node, "format specification on a symbolic value")
                s = self.host.to_str(x, repr_=(conv == 114), node=node)
                parts.append(s)
                if not isinstance(s, Const):
                    concrete = False
            else:
                raise self.unsupported(node, "f-string part")
        if concrete:
            return Const("".join(p.value for p in parts))
        return Term("fstr", tuple(parts), self.ctx.new_id())

    def e_Attribute(self, node: ast.Attribute, fr: Frame) -> AV:
        v = self.eval(node.value, fr)
        return self.getattr(v, node.attr, node)

    def e_Subscript(self, node: ast.Subscript, fr: Frame) -> AV:
        v = self.eval(node.value, fr)
        if isinstance(node.slice, ast.Slice):
            lo = self.eval(node.slice.lower, fr) if node.slice.lower else NONE
            hi = self.eval(node.slice.upper, fr) if node.slice.upper else NONE
            st = self.eval(node.slice.step, fr) if node.slice.step else NONE
            idx: AV = SliceV(lo, hi, st, self.ctx.new_id())
        else:
            idx = self.eval(node.slice, fr)
        return self.host.subscript(v, idx, node)

    def e_Starred(self, node: ast.Starred, fr: Frame) -> AV:
        raise self.unsupported(node, "starred outside call/sequence")

    def e_IfExp(self, node: ast.IfExp, fr: Frame) -> AV:
        if self.truth(self.eval(node.test, fr), node.test):
            return self.eval(node.body, fr)
        return self.eval(node.orelse, fr)

    def e_BoolOp(self, node: ast.BoolOp, fr: Frame) -> AV:
        is_and = isinstance(node.op, ast.And)
        v: AV = TRUE
        for e in node.values:
            v = self.eval(e, fr)
            t = self.truth(v, e)
            if is_and and not t:
                return v
            if not is_and and t:
                return v
        return v

    def e_UnaryOp(self, node: ast.UnaryOp, fr: Frame) -> AV:
        v = self.eval(node.operand, fr)
        if isinstance(node.op, ast.Not):
            return Const(not self.truth(v, node.operand))
        if isinstance(node.op, ast.USub):
            if isinstance(v, Const) and isinstance(v.value, (int, float)):
                return Const(-v.value)
            if isinstance(v, IntV):
                return IntV(-v.lin)
        if isinstance(node.op, ast.UAdd) and isinstance(v, (Const, IntV)):
            return v
        raise self.unsupported(node, f"unary {type(node.op).__name__} on {v!r}")

    def e_BinOp(self, node: ast.BinOp, fr: Frame) -> AV:
        a = self.eval(node.left, fr)
        b = self.eval(node.right, fr)
        return self.host.binop(type(node.op).__name__, a, b, node)

    def e_Compare(self, node: ast.Compare, fr: Frame) -> AV:
        left = self.eval(node.left, fr)
        res = True
        for op, rhs in zip(node.ops, node.comparators):
            right = self.eval(rhs, fr)
            r = self.host.compare(type(op).__name__, left, right, node)
            if not r:
                return FALSE
            left = right
        return Const(res)

    def e_Call(self, node: ast.Call, fr: Frame) -> AV:
        # super() special form
        if isinstance(node.func, ast.Attribute) and isinstance(node.func.value, ast.Call):
            inner = node.func.value
            if isinstance(inner.func, ast.Name) and inner.func.id == "super" and not inner.args:
                return self.call_super(node, fr)
        lazy = self.lazy_genexp_call(node, fr)
        if lazy is not None:
            return lazy
        fn = self.eval(node.func, fr)
        args: List[AV] = []
        for a in node.args:
            if isinstance(a, ast.Starred):
                args.extend(self.concrete_items(self.eval(a.value, fr), a))
            else:
                args.append(self.eval(a, fr))
        kwargs: Dict[str, AV] = {}
        for k in node.keywords:
            if k.arg is None:
                raise self.unsupported(node, "**kwargs call")
            kwargs[k.arg] = self.eval(k.value, fr)
        return self.call(fn, args, kwargs, node)

    def lazy_genexp_call(self, node: ast.Call, fr: Frame) -> Optional[AV]:
        """next(<genexp>[, default]) / any(<genexp>) / all(<genexp>) over a concrete iterable: elements are produced one
        at a time and consumption stops as the builtin stops, so side effects in the conditions / element expression
        (Lexer.accept, stream advances) happen exactly as often as at run time.  None = not this idiom."""
        if not (isinstance(node.func, ast.Name) and node.func.id in ("next", "any", "all") and node.args and isinstance(node.args[0], ast.GeneratorExp)):
            return None
        if node.keywords or len(node.args) > (2 if node.func.id == "next" else 1):
            return None
        try:
            bv = self.lookup(node.func.id, fr, node)
        except Exception:  # noqa: BLE001
            return None
        if not (isinstance(bv, ExternalV) and bv.name == f"builtins.{node.func.id}"):
            return None
        ge = node.args[0]
        if len(ge.generators) != 1 or ge.generators[0].is_async:
            return None
        g = ge.generators[0]
        src = self.eval(g.iter, fr)
        kind, payload = self.host.iterate(src, g.iter)
        which = node.func.id
        if kind == "abstract" and which in ("any", "all"):
            # a quantifier over unbounded data, decided on a generic element x:  all(P(x) for x in S if C(x)) is true
            # when every x with C(x) has P(x).  The path fixes what the generic element is like; the result is the one
            # the quantifier has when *every* element is like that (all) / *some* element is like that (any).  The
            # event lets rules see which elements were tested with what outcome.
            # the source may be empty: all() is then true and any() false whatever P is (vacuous truth), with no
            # element tested.  Decided against what is known about the length of the source.
            empty = self._source_may_be_empty(src, g.iter)
            if empty:
                t0 = which == "all"
                self.emit(Ev("quantifier", src=payload, elem=None, value=None, info=(which, False, t0, "empty-source"), site=self.site(node, fr)))
                return TRUE if t0 else FALSE
            cfr = Frame(fr.fi, fr.mod, parent=fr)
            cfr.self_av = fr.self_av
            el = self.host.make_elem(payload, g.iter)
            self.assign_target(g.target, el.target, cfr)
            passed = all(self.truth(self.eval(c, cfr), c) for c in g.ifs)
            v = self.eval(ge.elt, cfr) if passed else None
            t = self.truth(v, ge.elt) if passed else (which == "all")
            self.emit(Ev("quantifier", src=payload, elem=el, value=v, info=(which, passed, t), site=self.site(node, fr)))
            return TRUE if t else FALSE
        if kind != "concrete":
            return None
        cfr = Frame(fr.fi, fr.mod, parent=fr)
        cfr.self_av = fr.self_av
        for item in payload:
            self.assign_target(g.target, item, cfr)
            if not all(self.truth(self.eval(c, cfr), c) for c in g.ifs):
                continue
            v = self.eval(ge.elt, cfr)
            if which == "next":
                return v
            t = self.truth(v, ge.elt)
            if which == "any" and t:
                return TRUE
            if which == "all" and not t:
                return FALSE
        if which == "next":
            if len(node.args) == 2:
                return self.eval(node.args[1], fr)
            raise AbsRaise(HostExc("StopIteration", ""), self.site(node, fr))
        return FALSE if which == "any" else TRUE

    def e_Lambda(self, node: ast.Lambda, fr: Frame) -> AV:
        return LambdaV(node, fr, fr.mod)

    def e_ListComp(self, node: ast.ListComp, fr: Frame) -> AV:
        return self.comprehension(node, node.elt, node.generators, fr, "list")

    def e_GeneratorExp(self, node: ast.GeneratorExp, fr: Frame) -> AV:
        v = self.comprehension(node, node.elt, node.generators, fr, "iter")
        # a generator expression is evaluated lazily, in the enclosing scope's bindings at the time each element is
        # requested; remember where the value came from so that a loop that rebinds one of its free variables can
        # be executed as the nested loop it really is (s_For)
        self.genexp_origin[id(v)] = (node, fr, v)
        return v

    def e_DictComp(self, node: ast.DictComp, fr: Frame) -> AV:
        pair = ast.Tuple(elts=[node.key, node.value], ctx=ast.Load())
        ast.copy_location(pair, node)
        v = self.comprehension(node, pair, node.generators, fr, "list")
        if not isinstance(v, PyList):
            raise self.unsupported(node, "dict comprehension over abstract data")
        d = PyDict(depth=self.loop_depth, oid=self.ctx.new_id())
        for e in v.items:
            if not (isinstance(e, PyTuple) and len(e.items) == 2):
                raise self.unsupported(node, "dict comprehension element")
            hk = hkey(e.items[0])
            d.items[hk] = e.items[1]
            d.keys_av[hk] = e.items[0]
        return d

    def e_SetComp(self, node: ast.SetComp, fr: Frame) -> AV:
        v = self.comprehension(node, node.elt, node.generators, fr, "list")
        if isinstance(v, PyList):
            s = PySet(depth=self.loop_depth, oid=self.ctx.new_id())
            for e in v.items:
                try:
                    k = hkey(e)
                except Unsupported:
                    k = ("obj", getattr(e, "id", id(e)))
                s.items.add(k)
                s.keys_av[k] = e
            return s
        assert isinstance(v, Stream)
        src = Source("opaque", v, ["set"], fresh=True, id=self.ctx.new_id(), depth=self.loop_depth)
        return src

    def e_Yield(self, node: ast.Yield, fr: Frame) -> AV:
        v = self.eval(node.value, fr) if node.value else NONE
        cb = self.hooks.get("__on_yield__")
        if cb is not None:
            cb(self, v, fr, node)
        self.emit(Ev("yield", value=v, site=self.site(node, fr)))
        return NONE

    def e_YieldFrom(self, node: ast.YieldFrom, fr: Frame) -> AV:
        v = self.eval(node.value, fr)
        self.splice(v, node, fr)
        return NONE

    def e_NamedExpr(self, node: ast.NamedExpr, fr: Frame) -> AV:
        v = self.eval(node.value, fr)
        fr.locals[node.target.id] = v
        return v

    # ------------------------------------------------------- comprehension
    def comprehension(self, node: ast.AST, elt: ast.expr, gens: List[ast.comprehension], fr: Frame, kind: str) -> AV:
        cfr = Frame(fr.fi, fr.mod, parent=fr)
        cfr.self_av = fr.self_av
        events: List[Ev] = []
        self.sink_stack.append(events)
        try:

            def rec(i: int) -> None:
                if i == len(gens):
                    v = self.eval(elt, cfr)
                    self.emit(Ev("yield", value=v, site=self.site(elt, fr)))
                    return
                g = gens[i]
                it = self.eval(g.iter, cfr if i else fr)

                def body() -> None:
                    for cond in g.ifs:
                        if not self.truth(self.eval(cond, cfr), cond):
                            return
                    rec(i + 1)

                self.run_loop(g.target, it, body, cfr, g.iter, allow_ctrl=False)

            rec(0)
        finally:
            self.sink_stack.pop()
        if all(e.kind == "yield" for e in events):
            items = [e.value for e in events]
            if kind == "list":
                return self.new_list(items)
            return Stream(events, None, "iter", self.ctx.new_id())
        return Stream(events, None, kind, self.ctx.new_id())

    # --------------------------------------------------------------- truth
    def truth(self, v: AV, node: Optional[ast.AST] = None) -> bool:
        return self.host.truth(v, node)

    # ------------------------------------------------------------- getattr
    def getattr(self, v: AV, name: str, node: Optional[ast.AST] = None) -> AV:
        return self.host.getattr(v, name, node)

    # ---------------------------------------------------------------- calls
    def call_super(self, node: ast.Call, fr: Frame) -> AV:
        if fr.fi is None or fr.fi.cls is None or fr.self_av is None:
            raise self.unsupported(node, "super() outside method")
        assert isinstance(node.func, ast.Attribute)
        mname = node.func.attr
        args = self.eval_seq(node.args, fr)
        kwargs = {k.arg: self.eval(k.value, fr) for k in node.keywords if k.arg}
        self_av = fr.self_av
        inst_cls: ClassInfo = self_av.cls if isinstance(self_av, Inst) else fr.fi.cls
        mro = inst_cls.mro()
        try:
            start = [i for i, c in enumerate(mro) if c is fr.fi.cls][0] + 1
        except IndexError:
            start = 0
        for c in mro[start:]:
            if mname in c.methods:
                return self.call_function(c.methods[mname], [self_av] + args, kwargs, node, self_av=self_av)
        # external base (Exception, object, list)
        return self.host.external_super(self_av, mname, args, kwargs, node)

    def call(self, fn: AV, args: List[AV], kwargs: Dict[str, AV], node: Optional[ast.AST] = None) -> AV:
        if isinstance(fn, FuncV):
            return self.call_function(fn.fi, args, kwargs, node, closure=fn.closure)
        if isinstance(fn, BoundMethod):
            return self.call_function(fn.fi, [fn.self_av] + args, kwargs, node, self_av=fn.self_av)
        if isinstance(fn, ClassV):
            return self.instantiate(fn.ci, args, kwargs, node)
        if isinstance(fn, LambdaV):
            lfr = Frame(fn.env.fi, fn.mod, parent=fn.env)
            lfr.self_av = fn.env.self_av
            self.bind_args(fn.node.args, args, kwargs, lfr, node, "<lambda>")
            return self.eval(fn.node.body, lfr)
        if isinstance(fn, Inst):
            m = fn.cls.find_method("__call__")
            if m is not None:
                return self.call_function(m, [fn] + args, kwargs, node, self_av=fn)
            return self.host.opaque_call(fn, "__call__", args, kwargs, node)
        return self.host.call(fn, args, kwargs, node)

    def bind_args(self, a: ast.arguments, args: List[AV], kwargs: Dict[str, AV], fr: Frame, node: Any, qual: str, cls: Any = None) -> None:
        def dframe() -> Frame:
            d = Frame(None, fr.mod)
            d.cls_scope = cls
            return d

        params = [p.arg for p in a.posonlyargs + a.args]
        defaults = a.defaults
        n_no_default = len(params) - len(defaults)
        kwargs = dict(kwargs)
        if len(args) > len(params) and a.vararg is None:
            raise AbsRaise(HostExc("TypeError", f"{qual}() takes {len(params)} positional arguments but {len(args)} were given"), self.site(node) if node else None)
        for i, p in enumerate(params):
            if i < len(args):
                fr.locals[p] = args[i]
                if p in kwargs:
                    raise AbsRaise(HostExc("TypeError", f"{qual}() got multiple values for {p}"), None)
            elif p in kwargs:
                fr.locals[p] = kwargs.pop(p)
            elif i >= n_no_default:
                fr.locals[p] = self.eval(defaults[i - n_no_default], dframe())
            else:
                raise AbsRaise(HostExc("TypeError", f"{qual}() missing argument {p}"), self.site(node) if node else None)
        if a.vararg is not None:
            fr.locals[a.vararg.arg] = PyTuple(args[len(params):])
        for p, d in zip(a.kwonlyargs, a.kw_defaults):
            if p.arg in kwargs:
                fr.locals[p.arg] = kwargs.pop(p.arg)
            elif d is not None:
                fr.locals[p.arg] = self.eval(d, dframe())
            else:
                raise AbsRaise(HostExc("TypeError", f"{qual}() missing keyword argument {p.arg}"), self.site(node) if node else None)
        if a.kwarg is not None:
            d2 = PyDict(depth=self.loop_depth, oid=self.ctx.new_id())
            for k, v in kwargs.items():
                hk = hkey(Const(k))
                d2.items[hk] = v
                d2.keys_av[hk] = Const(k)
            fr.locals[a.kwarg.arg] = d2
        elif kwargs:
            raise AbsRaise(HostExc("TypeError", f"{qual}() got unexpected keyword {sorted(kwargs)}"), self.site(node) if node else None)

    def call_function(
        self,
        fi: FuncInfo,
        args: List[AV],
        kwargs: Dict[str, AV],
        node: Optional[ast.AST] = None,
        self_av: Optional[AV] = None,
        closure: Optional[Frame] = None,
    ) -> AV:
        hook = self.hooks.get(fi.qualname)
        if hook is not None:
            r = hook(self, fi, args, kwargs, node)
            if r is not NotImplemented:
                return r
        if fi.cls is not None and args and self.stubs:
            # an explicit per-instance stub wins over the class's own method (harness-made instances of concrete classes)
            stub0 = self.stubs.get((getattr(args[0], "id", None), fi.name))
            if stub0 is not None and "abstractmethod" not in fi.decorators:
                return stub0(self, args[1:], kwargs) if callable(stub0) else stub0
        if "abstractmethod" in fi.decorators:
            recv = args[0] if args else None
            stub = self.stubs.get((getattr(recv, "id", None), fi.name))
            if stub is not None:
                return stub(self, args[1:], kwargs) if callable(stub) else stub
            return self.host.opaque_call(args[0] if args else None, fi.name, args[1:], kwargs, node)
        if "staticmethod" in fi.decorators and self_av is not None:
            args = args[1:]
        if fi.decorators and any(d.split(".")[-1].split("(")[0] in ("lru_cache", "cache") for d in fi.decorators):
            # functools caches hash their arguments before the body runs: an array, an object, a nodelist or an
            # instance of a class that defines __eq__ without __hash__ raises TypeError at the call (A1)
            for a in list(args) + list(kwargs.values()):
                why = self._unhashable(a)
                if why:
                    raise AbsRaise(HostExc("TypeError", f"unhashable type: {why} (argument of the cached function {fi.qualname})"), self.site(node) if node else None)
        self.touched.add(fi.qualname)
        fr = Frame(fi, fi.module, parent=closure)
        fr.self_av = self_av if self_av is not None else (args[0] if fi.cls is not None and args else None)
        self.bind_args(fi.node.args, args, kwargs, fr, node, fi.qualname, cls=fi.cls)
        if fi.is_generator:
            fr.is_gen = True
            g = GenV(fi, fr, self_av=fr.self_av, id=self.ctx.new_id())
            return g
        # recursion cut
        depth = sum(1 for q in self.active if q == fi.qualname)
        if depth >= 1 and fi.qualname in self.hooks.get("__recursion_cut__", ()):
            return Term("rec", (fi.qualname, tuple(args)), self.ctx.new_id())
        if len(self.stack) > self.MAX_DEPTH:
            raise Unsupported(f"call depth exceeded at {fi.qualname}")
        self.stack.append(fr)
        self.active.append(fi.qualname)
        try:
            self.exec_block(fi.node.body, fr)
            return NONE
        except _Return as r:
            return r.value
        finally:
            self.active.pop()
            self.stack.pop()

    def instantiate(self, ci: ClassInfo, args: List[AV], kwargs: Dict[str, AV], node: Optional[ast.AST]) -> AV:
        ext = ci.all_external_bases()
        if any(b in ("Enum", "enum.Enum") for b in ext):
            raise self.unsupported(node, "enum call") if node else Unsupported("enum call")
        if any(b.split(".")[-1] == "NamedTuple" for b in ext):
            # an instance of a typing.NamedTuple class is a tuple with named positions
            fields = list(ci.attr_annotations)
            vals: List[AV] = list(args)
            for f in fields[len(vals):]:
                if f in kwargs:
                    vals.append(kwargs[f])
                elif f in ci.attrs:
                    fr0 = Frame(None, ci.module)
                    vals.append(self.eval(ci.attrs[f], fr0))
                else:
                    raise AbsRaise(HostExc("TypeError", f"missing argument {f}"), self.site(node) if node is not None else None)
            if len(vals) != len(fields):
                raise AbsRaise(HostExc("TypeError", "too many arguments"), self.site(node) if node is not None else None)
            return PyTuple(vals, fields=tuple(fields))
        inst = self.new_inst(ci)
        if "list" in ext or any(b.startswith("List") for b in ext):
            # list subclass: first positional arg is the iterable
            if args:
                inst.seq = self.host.materialize(args[0], node)
            else:
                inst.seq = self.new_list([])
            init = ci.find_method("__init__")
            if init is None:
                return inst
        init = ci.find_method("__init__")
        inst.constructed = True
        if init is not None:
            self.call_function(init, [inst] + args, kwargs, node, self_av=inst)
        else:
            self.host.external_init(inst, args, kwargs, node)
        return inst

    # ------------------------------------------------------------ generators
    def run_gen(self, g: GenV) -> Tuple[List[Ev], Optional[AbsRaise]]:
        if g.ran:
            return g.events or [], g.terminal
        fi = g.fi
        if fi.qualname in self.active and fi.qualname in self.hooks.get("__recursion_cut__", ()):
            ev = Ev("yield_from", value=Term("rec", (fi.qualname, g.env.locals.copy()), self.ctx.new_id()))
            g.events, g.terminal, g.ran = [ev], None, True
            return g.events, None
        if sum(1 for q in self.active if q == fi.qualname) > 12:
            raise Unsupported(f"unbounded recursion through generator {fi.qualname}")
        events: List[Ev] = []
        fr: Frame = g.env
        fr.events = events
        self.stack.append(fr)
        self.active.append(fi.qualname)
        self.sink_stack.append(events)
        saved_depth = self.loop_depth
        terminal: Optional[AbsRaise] = None
        try:
            self.exec_block(fi.node.body, fr)
        except _Return:
            pass
        except AbsRaise as r:
            terminal = r
            events.append(Ev("raise", value=r.exc, site=r.site))
        finally:
            self.loop_depth = saved_depth
            self.sink_stack.pop()
            self.active.pop()
            self.stack.pop()
        g.events, g.terminal, g.ran = events, terminal, True
        return events, terminal

    def splice(self, v: AV, node: ast.AST, fr: Frame) -> None:
        """`yield from v`."""
        if isinstance(v, GenV):
            events, terminal = self.run_gen(v)
            for e in events:
                if e.kind == "raise" and e is events[-1] and terminal is not None:
                    continue
                self.emit(e)
            if terminal is not None:
                raise terminal
            return
        if isinstance(v, Stream):
            for e in v.events:
                self.emit(e)
            return
        if isinstance(v, (Opaque, Term)):
            self.emit(Ev("yield_from", value=v, site=self.site(node, fr)))
            return
        kind, payload = self.host.iterate(v, node)
        if kind == "concrete":
            for x in payload:
                self.emit(Ev("yield", value=x, site=self.site(node, fr)))
            return
        if kind == "abstract":
            src: Source = payload
            el = self.host.make_elem(src, node)
            self.emit(Ev("foreach", src=src, elem=el, body=[Ev("yield", value=el.target, site=self.site(node, fr))], site=self.site(node, fr)))
            return
        self.emit(Ev("yield_from", value=v, site=self.site(node, fr)))

    # ----------------------------------------------------------------- loops
    def concrete_items(self, v: AV, node: Optional[ast.AST]) -> List[AV]:
        if isinstance(v, Term) and v.op == "slice_indices":
            return [Term("getitem", (v, Const(k)), self.ctx.new_id()) for k in range(3)]
        kind, payload = self.host.iterate(v, node)
        if kind != "concrete":
            raise (self.unsupported(node, f"needs a concrete sequence, got {v!r}") if node else Unsupported(f"needs concrete sequence: {v!r}"))
        return payload

    def assign_target(self, t: ast.expr, v: AV, fr: Frame) -> None:
        if isinstance(t, ast.Name):
            fr.locals[t.id] = v
        elif isinstance(t, (ast.Tuple, ast.List)):
            items = self.host.unpack(v, len(t.elts), t)
            for sub, x in zip(t.elts, items):
                self.assign_target(sub, x, fr)
        elif isinstance(t, ast.Attribute):
            obj = self.eval(t.value, fr)
            self.host.setattr(obj, t.attr, v, t)
        elif isinstance(t, ast.Subscript):
            obj = self.eval(t.value, fr)
            idx = self.eval(t.slice, fr)
            self.host.setitem(obj, idx, v, t)
        else:
            raise self.unsupported(t, "assignment target")

    def run_loop(self, target: ast.expr, it: AV, body, fr: Frame, node: ast.AST, allow_ctrl: bool = True, orelse=None) -> None:
        """Run `for target in it: body()`.  body is a python callable executing the loop body."""
        if isinstance(it, GenV):
            events, terminal = self.run_gen(it)
            self.map_events(events, target, body, fr, node)
            if terminal is not None:
                raise terminal
            if orelse:
                orelse()
            return
        if isinstance(it, Stream):
            self.map_events(it.events, target, body, fr, node)
            if orelse:
                orelse()
            return
        kind, payload = self.host.iterate(it, node)
        if kind == "concrete":
            broke = False
            for x in payload:
                self.assign_target(target, x, fr)
                try:
                    body()
                except _Break:
                    broke = True
                    break
                except _Continue:
                    continue
            if orelse and not broke:
                orelse()
            return
        if kind == "abstract":
            src: Source = payload
            el = self.host.make_elem(src, node)
            self.abstract_iteration(src, el, target, body, fr, node)
            if orelse:
                orelse()
            return
        raise self.unsupported(node, f"cannot iterate {it!r}")

    def abstract_iteration(self, src: Any, el: Elem, target: ast.expr, body, fr: Frame, node: ast.AST) -> None:
        for nm in self._lookup_state_carried(node, fr):
            # a dict / set that the loop body both consults and fills: in the generic iteration it holds whatever the
            # earlier iterations put there
            fr.locals[nm] = self.new_opaque(f"state-carried-across-iterations:{nm}")
        before = dict(fr.locals)
        sub: List[Ev] = []
        self.sink_stack.append(sub)
        self.loop_depth += 1
        try:
            self.assign_target(target, el.target, fr)
            try:
                body()
            except _Continue:
                pass
            except _Break:
                sub.append(Ev("break", site=self.site(node, fr)))
            except _Return as r:
                sub.append(Ev("return", value=r.value, site=self.site(node, fr)))
            except AbsRaise as r:
                sub.append(Ev("raise", value=r.exc, site=r.site))
        finally:
            self.loop_depth -= 1
            self.sink_stack.pop()
        tnames = {n.id for n in ast.walk(target) if isinstance(n, ast.Name)}
        for k, v in before.items():
            if k in tnames:
                continue
            if fr.locals.get(k) is not v:
                sub.append(Ev("carried", value=k, site=self.site(node, fr), info=fr.locals.get(k)))
        self.emit(Ev("foreach", src=src, elem=el, body=sub, site=self.site(node, fr)))

    def _lookup_state_carried(self, node: ast.AST, fr: Frame) -> List[str]:
        body = getattr(node, "body", None)
        if not isinstance(node, (ast.For, ast.While)) or not isinstance(body, list):
            return []
        out: List[str] = []
        for nm, v in fr.locals.items():
            if not isinstance(v, (PyDict, PySet)):
                continue
            wr = rd = False
            for b in body:
                for n in ast.walk(b):
                    if isinstance(n, ast.Subscript) and isinstance(n.value, ast.Name) and n.value.id == nm:
                        if isinstance(n.ctx, ast.Store):
                            wr = True
                        elif isinstance(n.ctx, ast.Load):
                            rd = True
                    elif isinstance(n, ast.Call) and isinstance(n.func, ast.Attribute) and isinstance(n.func.value, ast.Name) and n.func.value.id == nm:
                        if n.func.attr in ("add", "update", "setdefault", "pop", "discard", "remove", "clear", "popitem"):
                            wr = True
                        if n.func.attr in ("get", "setdefault", "pop", "keys", "values", "items"):
                            rd = True
                    elif isinstance(n, ast.Compare) and any(isinstance(c, ast.Name) and c.id == nm for c in n.comparators) and any(isinstance(o, (ast.In, ast.NotIn)) for o in n.ops):
                        rd = True
            if wr and rd:
                out.append(nm)
        return out

    def map_events(self, events: List[Ev], target: ast.expr, body, fr: Frame, node: ast.AST) -> None:
        """Consume a trace with a loop body: structural map over the trace tree."""
        for e in events:
            if e.kind == "yield":
                self.assign_target(target, e.value, fr)
                try:
                    body()
                except _Continue:
                    continue
                except _Break:
                    self.emit(Ev("break", site=self.site(node, fr)))
                    return
            elif e.kind == "foreach":
                sub: List[Ev] = []
                before = dict(fr.locals)
                self.sink_stack.append(sub)
                self.loop_depth += 1
                try:
                    try:
                        self.map_events(e.body, target, body, fr, node)
                    except _Return as r:
                        sub.append(Ev("return", value=r.value, site=self.site(node, fr)))
                    except AbsRaise as r:
                        sub.append(Ev("raise", value=r.exc, site=r.site))
                finally:
                    self.loop_depth -= 1
                    self.sink_stack.pop()
                tnames = {n.id for n in ast.walk(target) if isinstance(n, ast.Name)}
                for k, v in before.items():
                    if k not in tnames and fr.locals.get(k) is not v:
                        sub.append(Ev("carried", value=k, site=self.site(node, fr), info=fr.locals.get(k)))
                self.emit(Ev("foreach", src=e.src, elem=e.elem, body=sub, site=e.site))
            elif e.kind == "yield_from":
                # unknown stream: run the body once on an opaque element
                src = Source("opaque", e.value, id=self.ctx.new_id(), depth=self.loop_depth)
                el = self.host.make_elem(src, node)
                self.abstract_iteration(src, el, target, body, fr, node)
            else:
                self.emit(e)

    # ------------------------------------------------------------ statements
    def exec_block(self, body: List[ast.stmt], fr: Frame) -> None:
        for st in body:
            m = getattr(self, "s_" + type(st).__name__, None)
            if m is None:
                raise self.unsupported(st, f"statement {type(st).__name__}")
            m(st, fr)

    def s_Expr(self, st: ast.Expr, fr: Frame) -> None:
        if isinstance(st.value, ast.Constant):
            return
        self.eval(st.value, fr)

    def s_Pass(self, st: ast.Pass, fr: Frame) -> None:
        return

    def s_Assign(self, st: ast.Assign, fr: Frame) -> None:
        v = self.eval(st.value, fr)
        for t in st.targets:
            self.assign_target(t, v, fr)

    def s_AnnAssign(self, st: ast.AnnAssign, fr: Frame) -> None:
        if st.value is not None:
            self.assign_target(st.target, self.eval(st.value, fr), fr)

    def s_AugAssign(self, st: ast.AugAssign, fr: Frame) -> None:
        if isinstance(st.target, ast.Name):
            cur = self.lookup(st.target.id, fr, st)
        elif isinstance(st.target, ast.Attribute):
            cur = self.getattr(self.eval(st.target.value, fr), st.target.attr, st)
        elif isinstance(st.target, ast.Subscript):
            cur = self.host.subscript(self.eval(st.target.value, fr), self.eval(st.target.slice, fr), st)
        else:
            raise self.unsupported(st, "augassign target")
        v = self.host.binop(type(st.op).__name__, cur, self.eval(st.value, fr), st, inplace=True)
        self.assign_target(st.target, v, fr)

    def s_Return(self, st: ast.Return, fr: Frame) -> None:
        raise _Return(self.eval(st.value, fr) if st.value else NONE)

    def s_If(self, st: ast.If, fr: Frame) -> None:
        if self.truth(self.eval(st.test, fr), st.test):
            self.exec_block(st.body, fr)
        else:
            self.exec_block(st.orelse, fr)

    def s_For(self, st: ast.For, fr: Frame) -> None:
        it = self.eval(st.iter, fr)
        org = self.genexp_origin.get(id(it))
        if org is not None and org[2] is it and org[1] is fr and len(org[0].generators) == 1 and not st.orelse:
            ge = org[0]
            bound = {n.id for g in ge.generators for n in ast.walk(g.target) if isinstance(n, ast.Name)}
            free = {n.id for n in ast.walk(ge) if isinstance(n, ast.Name) and isinstance(n.ctx, ast.Load)} - bound
            rebound = {n.id for n in ast.walk(st.target) if isinstance(n, ast.Name)}
            for b in st.body:
                for n in ast.walk(b):
                    if isinstance(n, ast.Name) and isinstance(n.ctx, ast.Store):
                        rebound.add(n.id)
            if free & rebound:
                # late binding: each element is computed when the loop asks for it, with whatever the loop has made
                # of the shared names by then.  Execute  for <target> in (<elt> for <t> in <iter> if <conds>): <body>
                # as  for <t> in <iter>: if <conds>: <target> = <elt>; <body>
                g = ge.generators[0]
                inner: List[ast.stmt] = [ast.Assign(targets=[st.target], value=ge.elt, lineno=st.lineno, col_offset=st.col_offset)] + list(st.body)
                for cond in reversed(g.ifs):
                    inner = [ast.If(test=cond, body=inner, orelse=[], lineno=st.lineno, col_offset=st.col_offset)]
                loop = ast.For(target=g.target, iter=g.iter, body=inner, orelse=[], lineno=st.lineno, col_offset=st.col_offset)
                ast.fix_missing_locations(loop)
                self.genexp_origin.pop(id(it), None)
                return self.s_For(loop, fr)
        self.run_loop(
            st.target,
            it,
            lambda: self.exec_block(st.body, fr),
            fr,
            st,
            orelse=(lambda: self.exec_block(st.orelse, fr)) if st.orelse else None,
        )

    def _unhashable(self, a: Any) -> Optional[str]:
        if isinstance(a, (PyList, PyDict, PySet)):
            return type(a).__name__[2:].lower()
        if isinstance(a, Sym):
            k = self.kind_of(a)
            return k if k in ("list", "dict") else None
        if isinstance(a, Inst):
            for c in a.cls.mro() if hasattr(a.cls, "mro") else [a.cls]:
                names = set(getattr(c, "methods", {}) or {})
                if "__hash__" in names:
                    return None
                if "__eq__" in names:
                    return c.name
            if a.seq is not None or any(str(b).split("[")[0].split(".")[-1] in ("list", "dict", "set", "List", "Dict") for c in a.cls.mro() for b in c.external_bases):
                return a.cls.name
        return None

    def _source_may_be_empty(self, src: Any, node: ast.AST) -> bool:
        """Fork on 'the iterated value is empty' for a JSON value / abstract source whose length is a linear form;
        the choice is recorded in the octagon so that later length tests agree with it."""
        if not isinstance(src, (Sym, Source)):
            return False
        if isinstance(src, Sym) and self.kind_of(src) not in ("list", "dict", "str"):
            return False
        try:
            n = self.host.length(src, node)
        except Exception:  # noqa: BLE001
            return False
        if not isinstance(n, IntV):
            return False
        if self.ctx.oct.entails_le0(Lin.k(1) - n.lin):
            return False
        if self.ctx.oct.entails_le0(n.lin):
            return True
        if self.ctx.choose(("empty-source", getattr(src, "id", 0)), [False, True]):
            self.ctx.assume_le0(n.lin)
            return True
        self.ctx.assume_le0(Lin.k(1) - n.lin)
        return False

    def s_While(self, st: ast.While, fr: Frame) -> None:
        probe = None
        if isinstance(st.test, ast.Name):
            probe = fr.locals.get(st.test.id)
        if isinstance(probe, AbsQueue) and probe.items is None:
            # work-queue loop: run the body once on a generic iteration
            src = Source("while", probe, id=self.ctx.new_id(), depth=self.loop_depth)
            el = Elem(self.ctx.new_id(), src)
            before = dict(fr.locals)
            sub: List[Ev] = []
            self.sink_stack.append(sub)
            self.loop_depth += 1
            try:
                try:
                    self.exec_block(st.body, fr)
                except _Continue:
                    pass
                except _Break:
                    sub.append(Ev("break", site=self.site(st, fr)))
                except _Return as r:
                    sub.append(Ev("return", value=r.value, site=self.site(st, fr)))
                except AbsRaise as r:
                    sub.append(Ev("raise", value=r.exc, site=r.site))
            finally:
                self.loop_depth -= 1
                self.sink_stack.pop()
            for k, v in before.items():
                if fr.locals.get(k) is not v:
                    sub.append(Ev("carried", value=k, site=self.site(st, fr), info=fr.locals.get(k)))
            self.emit(Ev("foreach", src=src, elem=el, body=sub, site=self.site(st, fr)))
            return
        once = self.hooks.get("__while_once__", ())
        if fr.fi is not None and fr.fi.qualname in once:
            # analyse ONE generic iteration of this loop: the state at its end is the result
            cbh = self.hooks.get("__while_head__")
            if cbh is not None:
                cbh(self, fr, st)
            if not self.truth(self.eval(st.test, fr), st.test):
                self.exec_block(st.orelse, fr)
                return
            try:
                self.exec_block(st.body, fr)
            except _Break:
                return
            except _Continue:
                pass
            cbt = self.hooks.get("__while_tail__")
            if cbt is not None:
                cbt(self, fr, st)
            raise _Return(Term("loop-continues", (dict(fr.locals),), self.ctx.new_id()))
        if self._scan_run_idiom(st, fr):
            return
        n = 0
        forked = 0
        limit = self.hooks.get("__while_limit__", 64)
        fork_limit = self.hooks.get("__while_fork_limit__", 3)
        body_forked = 0
        body_fork_limit = self.hooks.get("__while_body_fork_limit__", 6)
        while True:
            before_choices = len(self.ctx.choices)
            if not self.truth(self.eval(st.test, fr), st.test):
                self.exec_block(st.orelse, fr)
                return
            n += 1
            if len(self.ctx.choices) > before_choices:
                # the loop condition depends on unknown data: every iteration forks; a loop like this scans
                # unbounded input and cannot be unrolled (state functions are analysed per generic iteration instead)
                forked += 1
                if forked > fork_limit:
                    raise self.unsupported(st, "while loop over unbounded data (its condition stays undetermined); only state functions are analysed per generic iteration")
            if n > limit:
                raise self.unsupported(st, "while loop did not terminate within the unrolling bound")
            body_choices = len(self.ctx.choices)
            try:
                self.exec_block(st.body, fr)
            except _Break:
                return
            except _Continue:
                pass
            if len(self.ctx.choices) > body_choices:
                # every iteration consults unknown data again: unrolling it multiplies the paths without bound
                body_forked += 1
                if body_forked > body_fork_limit:
                    raise self.unsupported(st, "while loop whose body keeps branching on unknown data (unrolling it does not converge)")

    def _scan_run_idiom(self, st: ast.While, fr: Frame) -> bool:
        """`while i < n and P(s[i]): i += 1` with s a symbolic string, n its length and P a character-class test
        (`.isspace()`, `.isdigit()`, `in "<constant>"`): skipping a maximal run of the class.  It is executed as the
        equivalent `m = re.compile("[class]+").match(s, i); if m: i += len(m.group())`, so that the lexical rules see
        the class exactly as they see a regex."""
        from . import abscalls

        if st.orelse or len(st.body) != 1:
            return False
        b = st.body[0]
        if not (isinstance(b, ast.AugAssign) and isinstance(b.op, ast.Add) and isinstance(b.target, ast.Name) and isinstance(b.value, ast.Constant) and b.value.value == 1):
            return False
        iname = b.target.id
        t = st.test
        if not (isinstance(t, ast.BoolOp) and isinstance(t.op, ast.And) and len(t.values) == 2):
            return False
        bound, pred = t.values
        if not (isinstance(bound, ast.Compare) and len(bound.ops) == 1 and isinstance(bound.ops[0], ast.Lt) and isinstance(bound.left, ast.Name) and bound.left.id == iname):
            return False

        def char_of(e: ast.expr) -> Optional[str]:
            if isinstance(e, ast.Subscript) and isinstance(e.value, ast.Name) and isinstance(e.slice, ast.Name) and e.slice.id == iname:
                return e.value.id
            return None

        sname = None
        pattern = None
        if isinstance(pred, ast.Call) and isinstance(pred.func, ast.Attribute) and not pred.args and pred.func.attr in ("isspace", "isdigit", "isdecimal"):
            sname = char_of(pred.func.value)
            pattern = {"isspace": "\\s+", "isdigit": None, "isdecimal": "\\d+"}[pred.func.attr]
        elif isinstance(pred, ast.Compare) and len(pred.ops) == 1 and isinstance(pred.ops[0], ast.In) and isinstance(pred.comparators[0], ast.Constant) and isinstance(pred.comparators[0].value, str) and pred.comparators[0].value:
            sname = char_of(pred.left)
            import re as _re

            pattern = "[" + "".join(_re.escape(c) for c in pred.comparators[0].value) + "]+"
        if sname is None or pattern is None:
            return False
        sv, iv = fr.locals.get(sname), fr.locals.get(iname)
        if not (isinstance(sv, SymStr) and isinstance(iv, (IntV, Const))):
            return False
        nv = self.eval(bound.comparators[0], fr)
        if not (isinstance(nv, IntV) and nv.lin == Lin.var(sv.len_var)):
            return False
        h = self.host
        comp = Term("re.compile", (Const(pattern),), self.ctx.new_id())
        h.regex_module[comp.id] = "re"
        m = abscalls.call_method(h, comp, "match", [sv, iv], {}, st)
        if self.truth(m, st):
            g = abscalls.call_method(h, m, "group", [], {}, st)
            ln = h.length(g, st)
            if isinstance(ln, IntV):
                self.ctx.assume_le0(Lin.k(1) - ln.lin)  # a match of C+ is at least one character long
            fr.locals[iname] = h.binop("Add", iv, ln, st)
        return True

    def s_Match(self, st: ast.Match, fr: Frame) -> None:
        """`match subject:` with value / singleton / or / wildcard / capture patterns and guards, executed as the
        if / elif chain it abbreviates (value patterns compare with ==, singletons with `is`)."""
        subj = self.eval(st.subject, fr)
        tmp = f"__match_subject_{id(st)}"
        fr.locals[tmp] = subj

        def test_of(pat: ast.pattern) -> Optional[ast.expr]:
            """An expression that is true iff the pattern matches (None = always)."""
            name = ast.Name(id=tmp, ctx=ast.Load())
            if isinstance(pat, ast.MatchValue):
                return ast.Compare(left=name, ops=[ast.Eq()], comparators=[pat.value])
            if isinstance(pat, ast.MatchSingleton):
                return ast.Compare(left=name, ops=[ast.Is()], comparators=[ast.Constant(pat.value)])
            if isinstance(pat, ast.MatchOr):
                tests = [test_of(p_) for p_ in pat.patterns]
                if any(t_ is None for t_ in tests):
                    return None
                return ast.BoolOp(op=ast.Or(), values=tests)
            if isinstance(pat, ast.MatchClass) and not pat.patterns and not pat.kwd_patterns:
                return ast.Call(func=ast.Name(id="isinstance", ctx=ast.Load()), args=[name, pat.cls], keywords=[])
            if isinstance(pat, ast.MatchAs) and pat.pattern is None:
                return None  # wildcard or bare capture
            if isinstance(pat, ast.MatchAs):
                return test_of(pat.pattern)
            raise self.unsupported(st, f"match pattern {type(pat).__name__}")

        def captures(pat: ast.pattern) -> List[str]:
            if isinstance(pat, ast.MatchAs) and pat.name:
                return [pat.name] + (captures(pat.pattern) if pat.pattern is not None else [])
            return []

        for case in st.cases:
            t = test_of(case.pattern)
            if t is not None:
                ast.fix_missing_locations(ast.copy_location(t, st))
                for sub in ast.walk(t):
                    ast.copy_location(sub, st)
                if not self.truth(self.eval(t, fr), st):
                    continue
            for nm in captures(case.pattern):
                fr.locals[nm] = subj
            if case.guard is not None and not self.truth(self.eval(case.guard, fr), case.guard):
                continue
            self.exec_block(case.body, fr)
            return

    def s_Break(self, st: ast.Break, fr: Frame) -> None:
        raise _Break()

    def s_Continue(self, st: ast.Continue, fr: Frame) -> None:
        raise _Continue()

    def s_FunctionDef(self, st: ast.FunctionDef, fr: Frame) -> None:
        qual = f"{fr.fi.qualname}.<locals>.{st.name}" if fr.fi else st.name
        fi = self.model.functions.get(qual)
        if fi is None:
            raise self.unsupported(st, f"nested function {qual} not indexed")
        fr.locals[st.name] = FuncV(fi, closure=fr)

    def s_Assert(self, st: ast.Assert, fr: Frame) -> None:
        if not self.truth(self.eval(st.test, fr), st.test):
            raise AbsRaise(HostExc("AssertionError", ast.unparse(st.test)), self.site(st, fr))

    def s_Raise(self, st: ast.Raise, fr: Frame) -> None:
        if st.exc is None:
            if fr.cur_exc is None:
                raise self.unsupported(st, "bare raise outside handler")
            raise fr.cur_exc
        v = self.eval(st.exc, fr)
        if isinstance(v, ClassV):
            v = self.instantiate(v.ci, [], {}, st)
        elif isinstance(v, ExternalV):
            v = HostExc(v.name, "")
        cause = self.eval(st.cause, fr) if st.cause is not None else None
        raise AbsRaise(v, self.site(st, fr), cause)

    def exc_matches(self, exc: AV, spec: AV) -> bool:
        if isinstance(spec, PyTuple):
            return any(self.exc_matches(exc, s) for s in spec.items)
        if isinstance(spec, ClassV):
            if isinstance(exc, Inst):
                return exc.cls.is_subclass_of(spec.ci)
            return False
        if isinstance(spec, ExternalV):
            name = spec.name
            if name.startswith("builtins."):
                name = name[9:]
            if isinstance(exc, HostExc):
                return builtin_exc_is_subclass(exc.name, name)
            if isinstance(exc, Inst):
                for b in exc.cls.all_external_bases():
                    if builtin_exc_is_subclass(b, name):
                        return True
                return False
            return False
        raise Unsupported(f"except clause with {spec!r}")

    def s_Try(self, st: ast.Try, fr: Frame) -> None:
        try:
            try:
                self.exec_block(st.body, fr)
            except AbsRaise as r:
                for h in st.handlers:
                    if h.type is None or self.exc_matches(r.exc, self.eval(h.type, fr)):
                        if h.name:
                            fr.locals[h.name] = r.exc
                        saved = fr.cur_exc
                        fr.cur_exc = r
                        try:
                            self.exec_block(h.body, fr)
                        finally:
                            fr.cur_exc = saved
                        break
                else:
                    raise
            else:
                self.exec_block(st.orelse, fr)
        finally:
            if st.finalbody:
                self.exec_block(st.finalbody, fr)

    def s_With(self, st: ast.With, fr: Frame) -> None:
        if len(st.items) != 1:
            raise self.unsupported(st, "multi-item with")
        item = st.items[0]
        cm = self.eval(item.context_expr, fr)
        if isinstance(cm, Term) and cm.op == "suppress":
            try:
                self.exec_block(st.body, fr)
            except AbsRaise as r:
                if not any(self.exc_matches(r.exc, s) for s in cm.args):
                    raise
            return
        raise self.unsupported(st, f"context manager {cm!r}")

    def s_Global(self, st: ast.Global, fr: Frame) -> None:
        raise self.unsupported(st, "global statement")

    def s_Nonlocal(self, st: ast.Nonlocal, fr: Frame) -> None:
        raise self.unsupported(st, "nonlocal statement")

    def s_Delete(self, st: ast.Delete, fr: Frame) -> None:
        raise self.unsupported(st, "del statement")

    def s_Import(self, st: ast.Import, fr: Frame) -> None:
        for a in st.names:
            local = a.asname or a.name.split(".")[0]
            target = a.name if a.asname else a.name.split(".")[0]
            m = self.model.modules.get(target)
            fr.locals[local] = ModuleV(m) if m is not None else ExternalV(target)

    def s_ImportFrom(self, st: ast.ImportFrom, fr: Frame) -> None:
        mod = fr.mod
        is_pkg = mod.path.name == "__init__.py"
        if st.level:
            base = mod.name.split(".")
            if not is_pkg:
                base = base[:-1]
            if st.level > 1:
                base = base[: len(base) - (st.level - 1)]
            if st.module:
                base = base + st.module.split(".")
            mname = ".".join(base)
        else:
            mname = st.module or ""
        for a in st.names:
            local = a.asname or a.name
            m = self.model.modules.get(mname)
            if m is None:
                fr.locals[local] = ExternalV(f"{mname}.{a.name}")
                continue
            sub = self.model.modules.get(f"{mname}.{a.name}")
            try:
                fr.locals[local] = self.module_global(m, a.name, st)
            except Unsupported:
                if sub is None:
                    raise
                fr.locals[local] = ModuleV(sub)
