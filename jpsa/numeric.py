"""Integer linear forms and a small octagon domain (constraints ±x ±y <= c).

Used to decide, for *all* integers, the index/slice/depth/surrogate arithmetic in
the package: comparisons between linear forms are answered by entailment from
the accumulated constraints; when neither an atom nor its negation is entailed
the caller forks and adds the atom.
"""

from __future__ import annotations

from typing import Dict
from typing import Iterable
from typing import List
from typing import Optional
from typing import Tuple

INF = float("inf")


class Lin:
    """Integer linear form sum(coef*var) + const.  Immutable."""

    __slots__ = ("coefs", "const")

    def __init__(self, coefs: Optional[Dict[int, int]] = None, const: int = 0) -> None:
        self.coefs: Dict[int, int] = {v: c for v, c in (coefs or {}).items() if c != 0}
        self.const = const

    @staticmethod
    def var(v: int) -> "Lin":
        return Lin({v: 1}, 0)

    @staticmethod
    def k(c: int) -> "Lin":
        return Lin({}, c)

    def is_const(self) -> bool:
        return not self.coefs

    def __add__(self, o: "Lin") -> "Lin":
        d = dict(self.coefs)
        for v, c in o.coefs.items():
            d[v] = d.get(v, 0) + c
        return Lin(d, self.const + o.const)

    def __neg__(self) -> "Lin":
        return Lin({v: -c for v, c in self.coefs.items()}, -self.const)

    def __sub__(self, o: "Lin") -> "Lin":
        return self + (-o)

    def scale(self, k: int) -> "Lin":
        return Lin({v: c * k for v, c in self.coefs.items()}, self.const * k)

    def key(self) -> Tuple:
        return (tuple(sorted(self.coefs.items())), self.const)

    def __eq__(self, o: object) -> bool:
        return isinstance(o, Lin) and self.key() == o.key()

    def __hash__(self) -> int:
        return hash(self.key())

    def vars(self) -> List[int]:
        return sorted(self.coefs)

    def aligned(self, m: int) -> bool:
        """True if the form is a multiple of m for all integer assignments."""
        return self.const % m == 0 and all(c % m == 0 for c in self.coefs.values())

    def show(self, names: Optional[Dict[int, str]] = None) -> str:
        names = names or {}
        parts = []
        for v, c in sorted(self.coefs.items()):
            n = names.get(v, f"v{v}")
            if c == 1:
                parts.append(f"+{n}")
            elif c == -1:
                parts.append(f"-{n}")
            else:
                parts.append(f"{c:+d}*{n}")
        if self.const or not parts:
            parts.append(f"{self.const:+d}")
        s = "".join(parts)
        return s[1:] if s.startswith("+") else s

    def __repr__(self) -> str:
        return f"Lin({self.show()})"


class Octagon:
    """Constraints of the form ±x ±y <= c over integer variables."""

    def __init__(self) -> None:
        self.index: Dict[int, int] = {}  # var id -> k
        self.m: List[List[float]] = []
        self.empty = False

    def copy(self) -> "Octagon":
        o = Octagon()
        o.index = dict(self.index)
        o.m = [row[:] for row in self.m]
        o.empty = self.empty
        return o

    def _k(self, v: int) -> int:
        if v not in self.index:
            k = len(self.index)
            self.index[v] = k
            n = 2 * (k + 1)
            for row in self.m:
                row.extend([INF, INF])
            self.m.append([INF] * n)
            self.m.append([INF] * n)
            self.m[2 * k][2 * k] = 0
            self.m[2 * k + 1][2 * k + 1] = 0
        return self.index[v]

    def _edge(self, i: int, j: int, c: float) -> None:
        # V_j - V_i <= c
        if c < self.m[i][j]:
            self.m[i][j] = c

    def _close(self) -> None:
        n = len(self.m)
        m = self.m
        for k in range(n):
            mk = m[k]
            for i in range(n):
                mik = m[i][k]
                if mik == INF:
                    continue
                mi = m[i]
                for j in range(n):
                    v = mik + mk[j]
                    if v < mi[j]:
                        mi[j] = v
        # integer tightening + strengthening
        for i in range(n):
            b = i ^ 1
            if m[i][b] != INF:
                m[i][b] = 2 * (m[i][b] // 2)
        for i in range(n):
            for j in range(n):
                v = (m[i][i ^ 1] + m[j ^ 1][j]) / 2
                if v < m[i][j]:
                    m[i][j] = v
        for i in range(n):
            if m[i][i] < 0:
                self.empty = True

    @staticmethod
    def representable(f: Lin) -> bool:
        return len(f.coefs) <= 2 and all(c in (1, -1) for c in f.coefs.values())

    def add_le0(self, f: Lin) -> bool:
        """Add f <= 0.  Returns False if f is not an octagonal constraint."""
        if f.is_const():
            if f.const > 0:
                self.empty = True
            return True
        if not self.representable(f):
            # try dividing by the gcd of coefficients
            from math import gcd

            g = 0
            for c in f.coefs.values():
                g = gcd(g, abs(c))
            if g > 1:
                # sum(c/g x) <= floor(-const/g)
                f2 = Lin({v: c // g for v, c in f.coefs.items()}, -((-f.const) // g))
                if self.representable(f2):
                    return self.add_le0(f2)
            return False
        c = -f.const
        items = sorted(f.coefs.items())
        if len(items) == 1:
            (v, s), = items
            k = self._k(v)
            if s == 1:  # x <= c
                self._edge(2 * k + 1, 2 * k, 2 * c)
            else:  # -x <= c
                self._edge(2 * k, 2 * k + 1, 2 * c)
        else:
            (x, sx), (y, sy) = items
            kx, ky = self._k(x), self._k(y)
            px = 2 * kx if sx == 1 else 2 * kx + 1  # node of the +term sx*x
            py = 2 * ky if sy == 1 else 2 * ky + 1
            # sx*x + sy*y <= c  <=>  V_px - V_(py^1) <= c
            self._edge(py ^ 1, px, c)
            self._edge(px ^ 1, py, c)
        self._close()
        return True

    def bounds_var(self, v: int) -> Tuple[float, float]:
        if v not in self.index:
            return (-INF, INF)
        k = self.index[v]
        hi = self.m[2 * k + 1][2 * k]
        lo = self.m[2 * k][2 * k + 1]
        return (-lo / 2 if lo != INF else -INF, hi / 2 if hi != INF else INF)

    def max_of(self, f: Lin) -> float:
        if f.is_const():
            return f.const
        best = INF
        if self.representable(f):
            items = sorted(f.coefs.items())
            if len(items) == 1:
                (v, s), = items
                lo, hi = self.bounds_var(v)
                best = hi if s == 1 else -lo
            else:
                (x, sx), (y, sy) = items
                if x in self.index and y in self.index:
                    kx, ky = self.index[x], self.index[y]
                    px = 2 * kx if sx == 1 else 2 * kx + 1
                    py = 2 * ky if sy == 1 else 2 * ky + 1
                    best = self.m[py ^ 1][px]
            if best != INF:
                return best + f.const
        # interval arithmetic fallback
        total = float(f.const)
        for v, c in f.coefs.items():
            lo, hi = self.bounds_var(v)
            total += c * hi if c > 0 else c * lo
        return total if total == total else INF  # NaN guard (inf - inf)

    def min_of(self, f: Lin) -> float:
        return -self.max_of(-f)

    def entails_le0(self, f: Lin) -> bool:
        return self.max_of(f) <= 0

    def entails_ge1(self, f: Lin) -> bool:
        return self.min_of(f) >= 1

    def describe(self, names: Optional[Dict[int, str]] = None) -> List[str]:
        out = []
        for v in self.index:
            lo, hi = self.bounds_var(v)
            n = (names or {}).get(v, f"v{v}")
            if lo != -INF or hi != INF:
                out.append(f"{lo} <= {n} <= {hi}")
        return out


def lin_sum(parts: Iterable[Lin]) -> Lin:
    out = Lin()
    for p in parts:
        out = out + p
    return out
