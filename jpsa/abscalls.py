"""Models of builtins, stdlib / third-party functions and host-object methods."""

from __future__ import annotations

from typing import Any
from typing import Dict
from typing import List

from .abshost import FALSE
from .abshost import NONE
from .abshost import TRUE
from .absctx import Unsupported
from .absval import *  # noqa: F403
from .absval import AV
from .numeric import Lin


def _plain(v: AV) -> Any:
    """Convert an all-concrete abstract value to the python value (for str methods)."""
    if isinstance(v, Const):
        return v.value
    if isinstance(v, PyTuple):
        return tuple(_plain(x) for x in v.items)
    if isinstance(v, PyList):
        return [_plain(x) for x in v.items]
    if isinstance(v, PyDict):
        return {_plain(v.keys_av[k]): _plain(x) for k, x in v.items.items()}
    raise ValueError


def _wrap(h: Any, v: Any) -> AV:
    if isinstance(v, (str, int, float, bool, bytes)) or v is None:
        return Const(v)
    if isinstance(v, tuple):
        return PyTuple([_wrap(h, x) for x in v])
    if isinstance(v, list):
        return h.i.new_list([_wrap(h, x) for x in v])
    raise Unsupported(f"cannot wrap {v!r}")


def call_external(h: Any, name: str, args: List[AV], kwargs: Dict[str, AV], node: Any) -> AV:
    i = h.i
    ctx = h.ctx
    short = name[9:] if name.startswith("builtins.") else name
    xh = i.hooks.get("__external__", {}).get(short)
    if xh is not None:
        r = xh(i, args, kwargs, node)
        if r is not NotImplemented:
            return r

    if short == "isinstance":
        return Const(h.isinstance_(args[0], args[1], node))
    if short == "len":
        return h.length(args[0], node)
    if short == "abs":
        f = h.as_lin(args[0])
        if f is not None:
            if f.is_const():
                return Const(abs(f.const))
            if ctx.decide_le0(-f):  # f >= 0
                return h.from_lin(f)
            return h.from_lin(-f)
        if isinstance(args[0], Const):
            return Const(abs(args[0].value))
        raise h.unsupported(node, f"abs({args[0]!r})")
    if short == "bool":
        return Const(h.truth(args[0], node)) if args else FALSE
    if short == "str":
        if not args:
            return Const("")
        return h.to_str(args[0], False, node)
    if short == "repr":
        return h.to_str(args[0], True, node)
    if short == "format" and len(args) == 1 and not kwargs:
        return h.to_str(args[0], False, node)  # format(x) == str(x) for the value kinds modelled
    if short == "ascii":
        r = h.to_str(args[0], True, node)
        if isinstance(r, Const) and isinstance(r.value, str):
            return Const(ascii(args[0].value) if isinstance(args[0], Const) else r.value)
        return Term("ascii", (args[0],), ctx.new_id()) if not (isinstance(r, Term) and r.op == "repr") else Term("ascii", r.args, ctx.new_id())
    if short in ("int", "float"):
        return convert_number(h, short, args, node)
    if short in ("decimal.Decimal", "Decimal") and len(args) == 1 and not kwargs and isinstance(args[0], (SymStr, Const)):
        # A1: decimal.Decimal(str) accepts the numeric-string syntax (that of float(), for the shapes a token regex
        # can leave) and raises decimal.InvalidOperation - an ArithmeticError, not a ValueError - for anything else,
        # and also for a well-formed literal whose exponent lies outside the context's Emax (about 19 digits)
        v = args[0]
        if isinstance(v, Const):
            import decimal as _dec

            try:
                _dec.Decimal(v.value)
            except _dec.InvalidOperation:
                raise h.raise_("decimal.InvalidOperation", "invalid literal for Decimal", node) from None
            except TypeError:
                raise h.raise_("TypeError", "Decimal() argument", node) from None
            return Term("decimal", (v,), ctx.new_id())
        ctx.atom_info[("decimal", "of-str", v.id)] = {"kind": "convert", "which": "decimal", "recv": v}
        if ctx.choose(("decimal", "of-str", v.id), ["ok", "InvalidOperation"]) != "ok":
            raise h.raise_("decimal.InvalidOperation", "invalid literal for Decimal", node)
        if ctx.choose(("decimal-range", v.id), ["ok", "InvalidOperation"]) != "ok":
            raise h.raise_("decimal.InvalidOperation", "exponent outside the range of the decimal context", node)
        return Term("decimal", (v,), ctx.new_id())
    if short in ("list", "tuple"):
        if not args:
            return i.new_list([]) if short == "list" else PyTuple(())
        m = h.materialize(args[0], node)
        if short == "tuple" and isinstance(m, PyList):
            return PyTuple(m.items)
        if short == "tuple" and isinstance(m, Source):
            m.fresh = False
        return m
    if short in ("set", "frozenset"):
        s = PySet(frozen=(short == "frozenset"), depth=i.loop_depth, oid=ctx.new_id())
        if args:
            kind, payload = h.iterate(args[0], node)
            if kind != "concrete":
                src = payload if isinstance(payload, Source) else Source("opaque", args[0], id=ctx.new_id())
                return Source(src.view, src.base, src.order + ["set"], fresh=True, id=ctx.new_id(), depth=i.loop_depth, extra=src.extra)
            from .absint import hkey

            for x in payload:
                k = hkey(x)
                s.items.add(k)
                s.keys_av[k] = x
        return s
    if short == "dict":
        d = PyDict(depth=i.loop_depth, oid=ctx.new_id())
        if args:
            if isinstance(args[0], PyDict):
                d.items.update(args[0].items)
                d.keys_av.update(args[0].keys_av)
            elif isinstance(args[0], (Sym, Opaque, Term, Source)):
                return Term("copy", ("dict", args[0]), ctx.new_id())
            else:
                raise h.unsupported(node, "dict(iterable)")
        from .absint import hkey

        for k, v in kwargs.items():
            d.items[hkey(Const(k))] = v
            d.keys_av[hkey(Const(k))] = Const(k)
        return d
    if short == "iter":
        v = args[0]
        if isinstance(v, (PyList, PyTuple)):
            return Term("iter", (v, [0]), ctx.new_id())
        return v if isinstance(v, (Source, Stream, GenV)) else _iter_of(h, v, node)
    if short == "next":
        return builtin_next(h, args, node)
    if short == "enumerate":
        kind, payload = h.iterate(args[0], node)
        start = args[1] if len(args) > 1 else kwargs.get("start")
        if kind == "concrete":
            s0 = start.value if isinstance(start, Const) else 0
            return i.new_list([PyTuple((Const(k + s0), x)) for k, x in enumerate(payload)])
        if kind == "abstract":
            return Source("enumerate", payload, id=ctx.new_id(), depth=i.loop_depth, extra=start)
        if kind == "stream":
            return Source("enumerate", Source("opaque", payload, id=ctx.new_id()), id=ctx.new_id(), depth=i.loop_depth, extra=start)
    if short == "zip":
        its = [h.iterate(a, node) for a in args]
        if all(k == "concrete" for k, _ in its):
            return i.new_list([PyTuple(t) for t in zip(*[p for _, p in its])])
        srcs = []
        for (k, p), a in zip(its, args):
            if k == "abstract":
                srcs.append(p)
            elif k == "concrete":
                srcs.append(Source("opaque", a, id=ctx.new_id()))
            else:
                srcs.append(Source("opaque", p, id=ctx.new_id()))
        return Source("zip", tuple(srcs), id=ctx.new_id(), depth=i.loop_depth, extra=kwargs.get("strict"))
    if short == "range":
        if all(isinstance(a, Const) for a in args):
            r = range(*[a.value for a in args])
            if len(r) <= 256:
                return i.new_list([Const(k) for k in r])
        # range(len(V)) / range(0, len(V)) over a document array = its index sequence
        stop = None
        if len(args) == 1:
            stop = args[0]
        elif len(args) == 2 and isinstance(args[0], Const) and args[0].value == 0:
            stop = args[1]
        if isinstance(stop, IntV) and len(stop.lin.coefs) == 1 and stop.lin.const == 0:
            (var, c), = stop.lin.coefs.items()
            if c == 1:
                for key, lv in h.len_vars.items():
                    if lv == var and key[0] == "sym":
                        for sym in h.len_syms.get(var, []):
                            return Source("indices", sym, id=ctx.new_id(), depth=i.loop_depth)
        return Source("range", tuple(args), id=ctx.new_id(), depth=i.loop_depth)
    if short in ("reversed", "sorted"):
        kind, payload = h.iterate(args[0], node)
        if kind == "concrete":
            if short == "reversed":
                return i.new_list(list(reversed(payload)))
            try:
                keyf = kwargs.get("key")
                rev = kwargs.get("reverse")
                rv = bool(rev.value) if isinstance(rev, Const) else False
                if keyf is not None:
                    keys = [_plain(i.call(keyf, [x], {}, node)) for x in payload]
                    order = sorted(range(len(payload)), key=lambda k: keys[k], reverse=rv)
                    return i.new_list([payload[k] for k in order])
                vals = sorted(payload, key=lambda x: _plain(x), reverse=rv)
                return i.new_list(vals)
            except (ValueError, TypeError):
                raise h.unsupported(node, "sorted() on symbolic items") from None
        if kind == "abstract":
            s = payload
            return Source(s.view, s.base, s.order + [short], fresh=(short == "sorted"), id=ctx.new_id(), depth=i.loop_depth, extra=s.extra)
        return Source("opaque", payload, [short], id=ctx.new_id(), depth=i.loop_depth)
    if short == "ord":
        v = args[0]
        if isinstance(v, Const):
            return Const(ord(v.value))
        if isinstance(v, SymChar):
            fx = ctx.char_fixed.get(v.id)
            if fx is not None:
                return Const(ord(fx))
            return IntV(Lin.var(v.cp_var))
        raise h.unsupported(node, f"ord({v!r})")
    if short == "chr":
        v = args[0]
        f = h.as_lin(v)
        if f is None:
            raise h.raise_("TypeError", "chr() needs an integer", node)
        if f.is_const():
            try:
                return Const(chr(f.const))
            except (ValueError, OverflowError):
                raise h.raise_("ValueError", "chr() arg not in range(0x110000)", node) from None
        lo_ok = ctx.decide_le0(-f)
        hi_ok = ctx.decide_le0(f - Lin.k(0x10FFFF)) if lo_ok else False
        if not (lo_ok and hi_ok):
            raise h.raise_("ValueError", "chr() arg not in range(0x110000)", node)
        return Term("chr", (IntV(f),), ctx.new_id())
    if short == "hash":
        return Term("hash", tuple(args), ctx.new_id())
    if short == "slice":
        a = list(args) + [NONE] * (3 - len(args))
        if len(args) == 1:
            a = [NONE, args[0], NONE]
        return SliceV(a[0], a[1], a[2], ctx.new_id())
    if short in ("min", "max"):
        vals = args if len(args) > 1 else h.i.concrete_items(args[0], node)
        if all(isinstance(v, Const) for v in vals):
            return Const((min if short == "min" else max)(v.value for v in vals))
        lins = [h.as_lin(v) for v in vals]
        if all(l is not None for l in lins) and len(lins) == 2:
            a0, a1 = lins
            le = ctx.decide_le0(a0 - a1)  # a0 <= a1
            if short == "min":
                return h.from_lin(a0 if le else a1)
            return h.from_lin(a1 if le else a0)
        raise h.unsupported(node, f"{short} of symbolic values")
    if short in ("any", "all"):
        vals = h.i.concrete_items(args[0], node)
        ts = [h.truth(v, node) for v in vals]
        return Const(any(ts) if short == "any" else all(ts))
    if short == "print":
        return NONE
    if short == "type":
        v = args[0]
        if isinstance(v, Inst):
            return ClassV(v.cls)
        chain = h.host_class_names(v)
        if chain:
            return ExternalV(f"builtins.{chain[0]}")
        raise h.unsupported(node, f"type({v!r})")
    if short == "id":
        return Term("id", tuple(args), ctx.new_id())
    if short == "getattr" and len(args) in (2, 3) and isinstance(args[1], Const) and isinstance(args[1].value, str) and args[1].value.isidentifier():
        # the attribute name is a constant of the analysed source (e.g. taken from a module-level table): plain attribute access
        if len(args) == 3:
            try:
                return h.getattr(args[0], args[1].value, node)
            except AbsRaise as r:
                if isinstance(r.exc, HostExc) and r.exc.name == "AttributeError":
                    return args[2]
                raise
        return h.getattr(args[0], args[1].value, node)
    if short == "hasattr" and len(args) == 2 and isinstance(args[1], Const) and isinstance(args[1].value, str) and isinstance(args[0], Inst):
        try:
            h.getattr(args[0], args[1].value, node)
            return Const(True)
        except AbsRaise as r:
            if isinstance(r.exc, HostExc) and r.exc.name == "AttributeError":
                return Const(False)
            raise
    if short in ("getattr", "setattr", "hasattr", "eval", "exec", "globals", "locals", "vars", "__import__"):
        raise h.unsupported(node, f"dynamic feature {short}() (R00)")
    if short in ("functools.reduce", "reduce") and len(args) == 3 and not kwargs:
        # left fold = the loop it abbreviates, executed by the interpreter's own loop machinery (one generic
        # iteration over abstract data, carried accumulator reported)
        import ast as _ast

        from .absint import Frame

        cur = i.stack[-1] if i.stack else None
        fr = Frame(cur.fi if cur is not None else None, cur.mod if cur is not None else None)
        if cur is not None:
            fr.self_av = cur.self_av
        fr.locals.update({"__fold_f": args[0], "__fold_it": args[1], "__fold_acc": args[2]})
        body = _ast.parse("for __fold_x in __fold_it:\n    __fold_acc = __fold_f(__fold_acc, __fold_x)").body
        for st_ in body:
            for sub in _ast.walk(st_):
                if node is not None and hasattr(node, "lineno"):
                    _ast.copy_location(sub, node)
        i.stack.append(fr)
        try:
            i.exec_block(body, fr)
        finally:
            i.stack.pop()
        return fr.locals["__fold_acc"]
    if short == "contextlib.suppress":
        return Term("suppress", tuple(args), ctx.new_id())
    if short == "collections.deque":
        q = AbsQueue(ctx.new_id(), depth=i.loop_depth)
        if args:
            kind, payload = ("none", None)
            try:
                kind, payload = h.iterate(args[0], node)
            except Unsupported:
                kind = "none"
            if kind == "concrete":
                q.items = list(payload)
            else:
                q.items = None
                q.origin = args[0]
                q.log.append(("init", args[0], i.site(node)))
        return q
    if short in BUILTIN_EXC_BASES or short in ("json.JSONDecodeError",):
        msg = ""
        if args:
            s = h.to_str(args[0], False, node)
            msg = s.value if isinstance(s, Const) else repr(s)
        return HostExc(short, msg)
    if short == "random.shuffle":
        tgt = args[0]
        ctx.log.append(("extcall", "random.shuffle", tgt, i.site(node)))
        if isinstance(tgt, Source) and tgt.fresh:
            if tgt.depth < i.loop_depth:
                i.emit(Ev("mutate", value=tgt, info=("random.shuffle",), site=i.site(node)))
            tgt.order.append("shuffled")
            return NONE
        if isinstance(tgt, PyList):
            h.note_mutation(tgt, ("random.shuffle",), node)
            tgt.items = [Term("shuffled", (tuple(tgt.items), k), ctx.new_id()) for k in range(len(tgt.items))]
            return NONE
        i.emit(Ev("mutate", value=tgt, info=("random.shuffle",), site=i.site(node)))
        return NONE
    if short in ("random.choice", "random.sample", "random.random", "random.randint", "random.randrange", "random.choices"):
        ctx.log.append(("extcall", short, tuple(args), i.site(node)))
        if short == "random.choice":
            kind, payload = h.iterate(args[0], node)
            if kind == "concrete" and payload:
                return ctx.choose(("random.choice", ctx.new_id()), payload)
        return Term(short, tuple(args), ctx.new_id())
    if short in ("re.compile", "regex.compile"):
        pat0 = args[0] if args else kwargs.get("pattern")
        if pat0 is not None and not (isinstance(pat0, Const) and isinstance(pat0.value, str)):
            # a pattern computed from data: the engine may refuse it when it is compiled (A1: a pattern the I-Regexp
            # grammar admits can still be rejected by the engine, e.g. a{2,1} or [z-a]); a non-string is a TypeError
            kp = h.json_kind(pat0)
            if (kp is not None and kp != "str") or isinstance(pat0, (Inst, IntV, PyList, PyTuple, PyDict, EnumV)):
                raise h.raise_("TypeError", "first argument must be string or compiled pattern", node)
            mod = short.split(".")[0]
            if ctx.choose(("regex-compile", mod, ctx.new_id()), ["ok", "error"]) != "ok":
                raise h.raise_(f"{mod}.error", "bad pattern", node)
        t = Term("re.compile", tuple(args), ctx.new_id())
        h.regex_module[t.id] = short.split(".")[0]
        return t
    if short == "iregexp_check.check":
        k0 = h.json_kind(args[0]) if args else None
        if not args or (k0 is not None and k0 != "str") or isinstance(args[0], (Inst, IntV, PyList, PyTuple, PyDict, EnumV)):
            # A1: the checker is a compiled extension taking a str; anything else is a TypeError
            raise h.raise_("TypeError", "argument 'pattern': expected str", node)
        opts = [True, False]
        if not isinstance(args[0], Const):
            # A1: the checker encodes its argument as UTF-8; a string taken from the document may hold a lone surrogate
            # (json.loads('"\\ud800"') gives one), which makes that encoding fail with UnicodeEncodeError
            opts = [True, False, "UnicodeEncodeError"]
        r = ctx.choose(("iregexp_check", h.key_desc(args[0])), opts)
        ctx.log.append(("extcall", short, tuple(args), i.site(node)))
        if r == "UnicodeEncodeError":
            raise h.raise_("UnicodeEncodeError", "'utf-8' codec can't encode character: surrogates not allowed", node)
        return Const(r)
    if short in ("regex.fullmatch", "regex.search", "regex.match", "re.fullmatch", "re.search", "re.match"):
        ctx.log.append(("extcall", short, tuple(args), tuple(sorted(kwargs.items())), i.site(node)))
        subject = args[1] if len(args) > 1 else kwargs.get("string")
        ks = h.json_kind(subject) if subject is not None else None
        if (ks is not None and ks != "str") or isinstance(subject, (Inst, IntV, PyList, PyTuple, PyDict, EnumV)):
            raise h.raise_("TypeError", "expected string or buffer", node)
        r = ctx.choose(("regex", short, ctx.new_id()), ["match", "nomatch", "regex.error"])
        if r == "regex.error":
            raise h.raise_("regex.error", "bad pattern", node)
        t = Term(short, tuple(args) + tuple(sorted(kwargs.items())), ctx.new_id())
        ctx.world[("truth", "term", t.id)] = r == "match"
        return t
    if short == "json.JSONEncoder" and not args:
        return Term("json.JSONEncoder", tuple(sorted(kwargs.items())), ctx.new_id())
    if short in ("itertools.chain", "chain") and not kwargs:
        out_items: List[AV] = []
        for a in args:
            kind_, payload_ = h.iterate(a, node)
            if kind_ != "concrete":
                raise h.unsupported(node, "itertools.chain over abstract data")
            out_items.extend(payload_)
        return i.new_list(out_items)
    if short == "map" and len(args) == 2 and not kwargs:
        kind_, payload_ = h.iterate(args[1], node)
        if kind_ == "concrete":
            return i.new_list([i.call(args[0], [x], {}, node) for x in payload_])
        # over abstract data: the generator expression it abbreviates
        import ast as _ast

        from .absint import Frame

        cur = i.stack[-1] if i.stack else None
        fr = Frame(cur.fi if cur is not None else None, cur.mod if cur is not None else None)
        fr.locals.update({"__map_f": args[0], "__map_it": args[1]})
        expr = _ast.parse("(__map_f(__map_x) for __map_x in __map_it)", mode="eval").body
        for sub in _ast.walk(expr):
            if node is not None and hasattr(node, "lineno"):
                _ast.copy_location(sub, node)
        i.stack.append(fr)
        try:
            return i.eval(expr, fr)
        finally:
            i.stack.pop()
    if short in ("json.dumps",):
        if len(args) == 1 and isinstance(args[0], Const) and isinstance(args[0].value, str) and set(kwargs) <= {"ensure_ascii"} and all(isinstance(v, Const) for v in kwargs.values()):
            # A2: model of json.dumps on a constant string
            from .rules._strmodel import model_json_dumps

            ea = kwargs.get("ensure_ascii", Const(True)).value
            return Const(model_json_dumps(args[0].value, bool(ea)))
        return Term("json.dumps", tuple(args) + tuple(sorted(kwargs.items())), ctx.new_id())
    if short.startswith("typing.") or short in ("abc.ABC",):
        return ExternalV(short)
    if short == "builtins.object" or short == "object":
        return i.new_opaque("object()")
    if short == "sum":
        vals = h.i.concrete_items(args[0], node)
        tot = Lin.k(0)
        for v in vals:
            f = h.as_lin(v)
            if f is None:
                raise h.unsupported(node, "sum of non-integers")
            tot = tot + f
        return h.from_lin(tot)
    if short == "sys.exit":
        ctx.log.append(("extcall", "sys.exit", tuple(args), i.site(node)))
        raise h.raise_("SystemExit", "", node)
    ctx.log.append(("extcall", short, tuple(args), tuple(sorted(kwargs.items())), i.site(node)))
    return Term(f"ext:{short}", tuple(args), ctx.new_id())


def _iter_of(h: Any, v: AV, node: Any) -> AV:
    kind, payload = h.iterate(v, node)
    if kind == "concrete":
        return Term("iter", (h.i.new_list(payload), [0]), h.ctx.new_id())
    return payload


def builtin_next(h: Any, args: List[AV], node: Any) -> AV:
    it = args[0]
    if isinstance(it, Inst):
        m = it.cls.find_method("__next__")
        if m is not None:
            return h.i.call_function(m, [it], {}, node, self_av=it)
    if isinstance(it, Term) and it.op == "iter":
        lst, pos = it.args
        if pos[0] < len(lst.items):
            pos[0] += 1
            return lst.items[pos[0] - 1]
        if len(args) > 1:
            return args[1]
        raise h.raise_("StopIteration", "", node)
    if isinstance(it, (PyList, PyTuple, PyDict, PySet)) or (isinstance(it, Const) and not hasattr(it.value, "__next__")):
        raise h.raise_("TypeError", "object is not an iterator", node)
    if isinstance(it, Opaque) or (isinstance(it, Term) and it.op == "ITER"):
        # an object only known to be iterable (e.g. the result of a method declared to return an Iterable): it may be
        # a list, and next() needs an iterator
        if h.ctx.choose(("is-iterator", it.id), [True, False]) is False:
            raise h.raise_("TypeError", f"{getattr(it, 'label', 'the result of finditer()')} may be a plain iterable (a list), not an iterator: next() needs iter() first", node)
    if isinstance(it, GenV):
        events, terminal = h.i.run_gen(it)
        it = Stream(events, terminal, "iter", h.ctx.new_id())
    if isinstance(it, Stream):
        if it.events and it.events[0].kind == "yield":
            return it.events[0].value
        if not it.events:
            if len(args) > 1:
                return args[1]
            raise h.raise_("StopIteration", "", node)
        if it.events[0].kind == "raise":
            from .absint import AbsRaise

            raise AbsRaise(it.events[0].value, it.events[0].site)
    r = h.ctx.choose(("next", getattr(it, "id", 0)), ["item", "StopIteration"])
    if r == "StopIteration":
        if len(args) > 1:
            return args[1]
        raise h.raise_("StopIteration", "", node)
    return Term("first", (it,), h.ctx.new_id())


def convert_number(h: Any, which: str, args: List[AV], node: Any) -> AV:
    if not args:
        return Const(0 if which == "int" else 0.0)
    v = args[0]
    if isinstance(v, Const):
        try:
            return Const(int(v.value) if which == "int" else float(v.value))
        except ValueError:
            raise h.raise_("ValueError", f"invalid literal for {which}()", node) from None
        except OverflowError:
            raise h.raise_("OverflowError", f"cannot convert to {which}", node) from None
        except TypeError:
            raise h.raise_("TypeError", f"{which}() argument", node) from None
    if isinstance(v, IntV):
        return v if which == "int" else Term("float", (v,), h.ctx.new_id())
    if isinstance(v, (SymStr, SymChar)):
        h.ctx.atom_info[(which, "of-str", v.id)] = {"kind": "convert", "which": which, "recv": v}
        r = h.ctx.choose((which, "of-str", v.id), ["ok", "ValueError"])
        if r != "ok":
            raise h.raise_("ValueError", f"invalid literal for {which}()", node)
        if which == "int" and isinstance(v, SymStr):
            # CPython refuses decimal strings of more than sys.int_max_str_digits (4300) digits with a ValueError
            big = h.ctx.choose(("int-digit-limit", v.id), ["ok", "ValueError"])
            if big != "ok":
                raise h.raise_("ValueError", "Exceeds the limit (4300 digits) for integer string conversion", node)
        key = (which, v.id)
        if key not in h.conversions:
            h.conversions[key] = h.i.new_int(f"int({v.label})") if which == "int" else Term("float", (v,), h.ctx.new_id())
        return h.conversions[key]
    if isinstance(v, Term) and v.op == "strpart":
        key = (which, "of-strpart", v.id)
        h.ctx.atom_info[key] = {"kind": "convert", "which": which, "recv": v}
        if h.ctx.choose(key, ["ok", "ValueError"]) != "ok":
            raise h.raise_("ValueError", f"invalid literal for {which}()", node)
        if which == "int":
            if h.ctx.choose(("int-digit-limit", v.id), ["ok", "ValueError"]) != "ok":
                raise h.raise_("ValueError", "Exceeds the limit (4300 digits) for integer string conversion", node)
            return h.i.new_int(f"int({v!r})")
        return Term("float", (v,), h.ctx.new_id())
    if isinstance(v, Term) and v.op == "decimal":
        # int(Decimal) truncates; finite values never fail (a huge exponent only takes long)
        return h.i.new_int(f"int({v!r})") if which == "int" else Term("float", (v,), h.ctx.new_id())
    if isinstance(v, Term) and v.op == "float":
        r = h.ctx.choose(("int-of-float", v.id), ["ok", "OverflowError", "ValueError"])
        if r != "ok":
            raise h.raise_(r, "cannot convert float to integer", node)
        return h.i.new_int(f"int({v!r})")
    if isinstance(v, Sym):
        k = h.i.kind_of(v)
        if k in ("list", "dict", "null"):
            raise h.raise_("TypeError", f"{which}() argument must be a string or a number", node)
        if k == "str":
            r = h.ctx.choose((which, "of-str", v.id), ["ok", "ValueError"])
            if r != "ok":
                raise h.raise_("ValueError", f"invalid literal for {which}()", node)
        if k == "float" and which == "int":
            r = h.ctx.choose(("int-of-float", v.id), ["ok", "OverflowError", "ValueError"])
            if r != "ok":
                raise h.raise_(r, "cannot convert float to integer", node)
        if k == "int" and which == "float":
            # JSON integers are unbounded in Python: float() of one beyond the double range raises OverflowError
            r = h.ctx.choose(("float-of-int", v.id), ["ok", "OverflowError"])
            if r != "ok":
                raise h.raise_("OverflowError", "int too large to convert to float", node)
        return h.i.new_int(f"int({v.label})") if which == "int" else Term("float", (v,), h.ctx.new_id())
    raise h.unsupported(node, f"{which}({v!r})")


def int_table_lookup(h: Any, d: PyDict, key: IntV, node: Any) -> Optional[AV]:
    """d[key] for a symbolic integer key and a table with integer-constant keys.  Keys are grouped into maximal runs of
    consecutive integers whose values are key + c (one outcome per run, like the range tests such a table replaces) or
    a common constant; None means the key is absent."""
    ctx = h.ctx
    entries = []
    for hk, val in d.items.items():
        kav = d.keys_av[hk]
        if not (isinstance(kav, Const) and isinstance(kav.value, int) and not isinstance(kav.value, bool)):
            raise h.unsupported(node, "symbolic integer key in a table with non-integer keys")
        entries.append((kav.value, val))
    entries.sort(key=lambda e: e[0])
    runs: List[Tuple[int, int, str, Any]] = []  # lo, hi, kind ('affine'|'const'), payload
    for k, val in entries:
        if isinstance(val, Const) and isinstance(val.value, int) and not isinstance(val.value, bool):
            off = val.value - k
            if runs and runs[-1][2] == "affine" and runs[-1][3] == off and runs[-1][1] == k - 1:
                runs[-1] = (runs[-1][0], k, "affine", off)
                continue
            runs.append((k, k, "affine", off))
        else:
            if runs and runs[-1][2] == "const" and runs[-1][3] is val and runs[-1][1] == k - 1:
                runs[-1] = (runs[-1][0], k, "const", val)
                continue
            runs.append((k, k, "const", val))
    for lo, hi, kind, payload in runs:
        # lo <= key <= hi ?
        if ctx.decide_le0(Lin.k(lo) - key.lin) and ctx.decide_le0(key.lin - Lin.k(hi)):
            if kind == "affine":
                return h.from_lin(key.lin + Lin.k(payload))
            return payload
    return None


STR_PREDICATES = {"isalnum", "isalpha", "isascii", "isdecimal", "isdigit", "isidentifier", "islower", "isnumeric", "isprintable", "isspace", "istitle", "isupper"}
STR_ONLY_METHODS = STR_PREDICATES | {
    "startswith", "endswith", "lower", "upper", "casefold", "strip", "lstrip", "rstrip", "replace", "encode", "split", "rsplit",
    "splitlines", "partition", "rpartition", "join", "format", "title", "capitalize", "swapcase", "zfill", "center", "ljust", "rjust",
    "expandtabs", "translate", "removeprefix", "removesuffix", "find", "rfind",
}


def call_method(h: Any, recv: AV, name: str, args: List[AV], kwargs: Dict[str, AV], node: Any) -> AV:
    i = h.i
    ctx = h.ctx
    from .absint import hkey

    if name in ("format", "format_map") and not isinstance(recv, Const) and (isinstance(recv, (SymStr, SymChar)) or h.is_strlike(recv) or (isinstance(recv, Sym) and i.kind_of(recv) == "str")):
        # a format string that is not a literal: its braces are data.  A lone '{' or '}' raises ValueError, a
        # field the arguments do not supply raises KeyError / IndexError.
        how = ctx.choose(("dynamic-format", getattr(recv, "id", 0), i.site(node)), ["ok", "ValueError", "KeyError", "IndexError"])
        if how != "ok":
            raise h.raise_(how, "format string built from data: braces in the data are read as replacement fields", node)
        return Term("strmeth", (recv, name, tuple(args)), ctx.new_id())

    # ---------------- concrete lists (also deques)
    if isinstance(recv, PyList):
        if name in ("append", "appendleft", "extend", "extendleft", "pop", "popleft", "insert", "clear", "sort", "reverse", "remove", "rotate"):
            h.note_mutation(recv, (name,), node)
        if name == "append":
            recv.items.append(args[0])
            return NONE
        if name == "appendleft":
            recv.items.insert(0, args[0])
            return NONE
        if name == "extend":
            kind, payload = h.iterate(args[0], node)
            if kind != "concrete":
                raise h.unsupported(node, "extend with abstract iterable")
            recv.items.extend(payload)
            return NONE
        if name in ("pop", "popleft"):
            if not recv.items:
                raise h.raise_("IndexError", "pop from empty list", node)
            if name == "popleft":
                return recv.items.pop(0)
            if args:
                if isinstance(args[0], Const):
                    try:
                        return recv.items.pop(args[0].value)
                    except IndexError:
                        raise h.raise_("IndexError", "pop index out of range", node) from None
                raise h.unsupported(node, "pop(symbolic)")
            return recv.items.pop()
        if name == "insert":
            if isinstance(args[0], Const):
                recv.items.insert(args[0].value, args[1])
                return NONE
        if name == "clear":
            recv.items.clear()
            return NONE
        if name == "copy":
            return i.new_list(recv.items)
        if name == "reverse":
            recv.items.reverse()
            return NONE
        if name == "index":
            for k, x in enumerate(recv.items):
                if h.py_eq(x, args[0], node):
                    return Const(k)
            raise h.raise_("ValueError", "not in list", node)
        if name == "count":
            return Const(sum(1 for x in recv.items if h.py_eq(x, args[0], node)))
        raise h.unsupported(node, f"list.{name}")
    if isinstance(recv, PyTuple):
        if name == "index":
            for k, x in enumerate(recv.items):
                if h.py_eq(x, args[0], node):
                    return Const(k)
            raise h.raise_("ValueError", "not in tuple", node)
        if name == "count":
            return Const(sum(1 for x in recv.items if h.py_eq(x, args[0], node)))
        raise h.unsupported(node, f"tuple.{name}")
    if isinstance(recv, PyDict):
        if name in DICT_MUT:
            h.note_mutation(recv, (name,), node)
        if name == "get":
            default = args[1] if len(args) > 1 else kwargs.get("default", NONE)
            if isinstance(args[0], SymChar):
                fx = ctx.char_fixed.get(args[0].id)
                if fx is not None:
                    return recv.items.get(hkey(Const(fx)), default)
                for k in sorted(recv.items, key=repr):
                    kav = recv.keys_av[k]
                    if isinstance(kav, Const) and isinstance(kav.value, str) and len(kav.value) == 1 and h.char_is(args[0], kav.value):
                        return recv.items[k]
                return default
            if isinstance(args[0], IntV):
                r_ = int_table_lookup(h, recv, args[0], node)
                return default if r_ is None else r_
            try:
                hk = hkey(args[0])
            except Unsupported:
                if isinstance(args[0], (Opaque, Term, Sym, SymStr)):
                    keys = sorted(recv.items, key=repr)
                    r = ctx.choose(("dictkey", recv.oid, getattr(args[0], "id", 0)), keys + ["<missing>"])
                    return default if r == "<missing>" else recv.items[r]
                raise
            return recv.items.get(hk, default)
        if name in ("items", "keys", "values"):
            return Term("dictview", (name, recv), ctx.new_id())
        if name == "setdefault":
            hk = hkey(args[0])
            if hk not in recv.items:
                recv.items[hk] = args[1] if len(args) > 1 else NONE
                recv.keys_av[hk] = args[0]
            return recv.items[hk]
        if name == "pop":
            hk = hkey(args[0])
            if hk in recv.items:
                recv.keys_av.pop(hk)
                return recv.items.pop(hk)
            if len(args) > 1:
                return args[1]
            raise h.raise_("KeyError", repr(args[0]), node)
        if name == "update":
            if args and isinstance(args[0], PyDict):
                recv.items.update(args[0].items)
                recv.keys_av.update(args[0].keys_av)
                return NONE
        if name == "copy":
            d = PyDict(depth=i.loop_depth, oid=ctx.new_id())
            d.items.update(recv.items)
            d.keys_av.update(recv.keys_av)
            return d
        raise h.unsupported(node, f"dict.{name}")
    if isinstance(recv, PySet):
        if name in ("add", "discard", "remove", "update", "clear"):
            h.note_mutation(recv, (name,), node)
        if name == "add":
            try:
                k = hkey(args[0])
            except Unsupported:
                k = ("sym", getattr(args[0], "id", id(args[0])))
            recv.items.add(k)
            recv.keys_av[k] = args[0]
            return NONE
        raise h.unsupported(node, f"set.{name}")
    # ---------------- strings
    if isinstance(recv, Const) and isinstance(recv.value, str):
        try:
            pargs = [_plain(a) for a in args]
            pkw = {k: _plain(v) for k, v in kwargs.items()}
        except ValueError:
            if name == "format":
                import string as _string

                parts: List[AV] = []
                auto = 0
                ok = True
                for lit_, field, spec, conv in _string.Formatter().parse(recv.value):
                    if lit_:
                        parts.append(Const(lit_))
                    if field is None:
                        continue
                    if spec:
                        ok = False
                        break
                    if field == "":
                        val = args[auto] if auto < len(args) else None
                        auto += 1
                    elif field.isdigit():
                        val = args[int(field)] if int(field) < len(args) else None
                    else:
                        val = kwargs.get(field)
                    if val is None:
                        raise h.raise_("IndexError", "format field out of range", node)
                    parts.append(h.to_str(val, repr_=(conv == "r"), node=node))
                if ok:
                    if all(isinstance(x, Const) for x in parts):
                        return Const("".join(x.value for x in parts))
                    return Term("fstr", tuple(parts), ctx.new_id())
            if name == "join":
                kind, payload = h.iterate(args[0], node)
                if kind == "concrete":
                    if all(isinstance(x, Const) and isinstance(x.value, str) for x in payload):
                        return Const(recv.value.join(x.value for x in payload))
                    return Term("join", (recv, tuple(payload)), ctx.new_id())
                return Term("join", (recv, args[0]), ctx.new_id())
            return Term("strmeth", (recv, name, tuple(args)), ctx.new_id())
        try:
            return _wrap(h, getattr(recv.value, name)(*pargs, **pkw))
        except TypeError as err:
            raise h.raise_("TypeError", str(err), node) from None
        except ValueError as err:
            raise h.raise_("ValueError", str(err), node) from None
        except (UnicodeEncodeError, UnicodeDecodeError) as err:
            raise h.raise_(type(err).__name__, str(err), node) from None
    if isinstance(recv, Const) and isinstance(recv.value, bytes) and name == "decode":
        return Const(recv.value.decode(*[_plain(a) for a in args]))
    if isinstance(recv, (SymStr, SymChar)) or (isinstance(recv, Sym) and name in ("startswith", "endswith", "lower", "upper", "strip", "split", "replace", "encode", "count", "find", "rfind", "join", "lstrip", "rstrip", "isdigit")):
        if name in ("startswith", "endswith", "isdigit", "isalpha", "isspace", "isalnum", "isprintable", "isascii", "isidentifier", "islower", "isupper", "isnumeric", "isdecimal"):
            key = ("strpred", name, recv.id, repr(args))
            ctx.atom_info[key] = {"kind": "strpred", "name": name, "recv": recv, "args": list(args)}
            return Const(ctx.choose(key, [False, True]))
        if name in ("partition", "rpartition") and isinstance(recv, SymStr) and len(args) == 1 and isinstance(args[0], Const) and isinstance(args[0].value, str) and args[0].value:
            # (head, separator or "", tail): three strings derived from the receiver; what they are is asked later
            # through conversions / emptiness tests, which the lexical rules translate back to the receiver
            parts = [Term("strpart", (recv, name, args[0].value, k), ctx.new_id()) for k in range(3)]
            return PyTuple(tuple(parts))
        if name == "encode" and isinstance(recv, SymStr):
            org = recv.origin
            if org and org[0] == "substr":
                _, base, lo, hi = org
                ln = hi - lo
                if ln.is_const() and 0 <= ln.const <= 16:
                    out = []
                    for k in range(ln.const):
                        ch = h.subscript(base, h.from_lin(lo + Lin.k(k)), node)
                        out.append(IntV(Lin.var(ch.cp_var)))
                    return i.new_list(out)
            return Source("bytes", recv, id=ctx.new_id(), depth=i.loop_depth)
        if name in ("count", "rfind", "find", "index", "rindex") and isinstance(recv, SymStr):
            lo = 0 if name == "count" else -1
            v = i.new_int(f"{recv.label}.{name}({', '.join(repr(getattr(a, 'value', a)) for a in args)})", lo)
            h.int_origin[v.lin.vars()[0]] = (recv, name, tuple(args))
            return v
        return Term("strmeth", (recv, name, tuple(args)), ctx.new_id())
    # ---------------- document values
    if isinstance(recv, Sym):
        k = i.kind_of(recv)
        if k == "dict":
            if name in ("items", "keys", "values"):
                return Source(name, recv, id=ctx.new_id(), depth=i.loop_depth)
            if name == "get":
                default = args[1] if len(args) > 1 else NONE
                if h.has_key(recv, args[0]):
                    return h.member(recv, args[0])
                return default
            if name == "__getitem__":
                return h.subscript(recv, args[0], node)
            if name == "__contains__":
                return Const(h.has_key(recv, args[0]))
            if name == "copy":
                return Source("items", recv, ["copy"], fresh=True, id=ctx.new_id(), depth=i.loop_depth)
            i.emit(Ev("mutate", value=recv, info=(name,), site=i.site(node)))
            return Term("docmut", (recv, name), ctx.new_id())
        if k == "list":
            if name == "__getitem__":
                return h.subscript(recv, args[0], node)
            if name == "copy":
                return Source("elems", recv, [], fresh=True, id=ctx.new_id(), depth=i.loop_depth)
            if name in ("index", "count"):
                return Term("listq", (recv, name, tuple(args)), ctx.new_id())
            i.emit(Ev("mutate", value=recv, info=(name,), site=i.site(node)))
            return Term("docmut", (recv, name), ctx.new_id())
    # ---------------- abstract sequences
    if isinstance(recv, Source):
        if name in ("sort", "reverse"):
            if recv.fresh:
                if recv.depth < i.loop_depth:
                    i.emit(Ev("mutate", value=recv, info=(name,), site=i.site(node)))
                recv.order.append("sorted" if name == "sort" else "reversed")
                return NONE
            i.emit(Ev("mutate", value=recv, info=(name,), site=i.site(node)))
            return NONE
        if name in ("append", "extend", "pop", "insert", "remove", "clear", "popleft", "appendleft"):
            i.emit(Ev("mutate", value=recv, info=(name, tuple(args)), site=i.site(node)))
            if recv.fresh:
                recv.order.append((name,))
            return Term("srcmut", (recv, name), ctx.new_id())
        if name == "copy":
            return Source(recv.view, recv.base, recv.order, fresh=True, id=ctx.new_id(), depth=i.loop_depth, extra=recv.extra)
        return Term("srcmeth", (recv, name, tuple(args)), ctx.new_id())
    if isinstance(recv, AbsQueue):
        site = i.site(node)
        if recv.items is not None:
            # still concrete
            if name in ("append", "appendleft", "pop", "popleft", "clear"):
                h.note_mutation(recv, (name,), node)
            if name == "append":
                recv.items.append(args[0])
                return NONE
            if name == "appendleft":
                recv.items.insert(0, args[0])
                return NONE
            if name in ("pop", "popleft"):
                if not recv.items:
                    raise h.raise_("IndexError", "pop from an empty deque", node)
                return recv.items.pop(0 if name == "popleft" else -1)
            if name == "clear":
                recv.items.clear()
                return NONE
            if name in ("extend", "extendleft"):
                kind, payload = h.iterate(args[0], node)
                if kind == "concrete" and name == "extend":
                    h.note_mutation(recv, (name,), node)
                    recv.items.extend(payload)
                    return NONE
                # goes abstract
                for x in recv.items:
                    recv.log.append(("append", (x,), site))
                recv.items = None
        if name in ("append", "appendleft", "extend", "extendleft", "clear", "rotate", "remove", "insert"):
            if recv.depth < i.loop_depth:
                i.emit(Ev("queue", value=recv, info=(name, tuple(args)), site=site))
            recv.log.append((name, tuple(args), site))
            return NONE
        if name in ("popleft", "pop"):
            item = _queue_item(h, recv, name)
            if recv.depth < i.loop_depth:
                i.emit(Ev("queue", value=recv, info=(name, (item,)), site=site))
            recv.log.append((name, (item,), site))
            return item
        if name == "copy":
            q = AbsQueue(ctx.new_id(), depth=i.loop_depth, origin=recv)
            q.log.append(("init", recv, site))
            q.items = list(recv.items) if recv.items is not None else None
            return q
        raise h.unsupported(node, f"deque.{name}")
    if isinstance(recv, SliceV):
        if name == "indices":
            st = recv.step
            if not (isinstance(st, Const) and st.value is None):
                f = h.as_lin(st)
                if f is not None:
                    zero = ctx.decide_le0(f) and ctx.decide_le0(-f)
                    if zero:
                        raise h.raise_("ValueError", "slice step cannot be zero", node)
            return Term("slice_indices", (recv, args[0]), ctx.new_id())
        raise h.unsupported(node, f"slice.{name}")
    if isinstance(recv, Inst):
        if recv.seq is not None:
            return call_method(h, recv.seq, name, args, kwargs, node)
        if name == "with_traceback":
            return recv
        if "__len__" in recv.attrs:
            i.emit(Ev("mutate", value=recv, info=(name,), site=i.site(node)))
            return Term("seqmeth", (recv, name), ctx.new_id())
    if isinstance(recv, Stream):
        if all(e.kind == "yield" for e in recv.events):
            return call_method(h, PyList([e.value for e in recv.events]), name, args, kwargs, node)
        return Term("streammeth", (recv, name, tuple(args)), ctx.new_id())
    if isinstance(recv, Term) and recv.op == "json.JSONEncoder" and name == "encode" and len(args) == 1 and not kwargs:
        # JSONEncoder(**options).encode(x) is what json.dumps(x, **options) returns
        return call_external(h, "json.dumps", list(args), dict(recv.args), node)
    if isinstance(recv, Term) and recv.op == "re.compile" and name in ("match", "fullmatch", "search"):
        if (
            h.regex_module.get(recv.id) == "re"
            and len(recv.args) == 1
            and isinstance(recv.args[0], Const)
            and all(isinstance(a, Const) for a in args)
            and not kwargs
        ):
            # constant folding: a stdlib regex literal applied to a constant string
            import re as _re

            m = getattr(_re.compile(recv.args[0].value), name)(*[a.value for a in args])
            t = Term("re." + name, (recv,) + tuple(args), ctx.new_id())
            ctx.world[("truth", "term", t.id)] = m is not None
            if m is not None:
                h.match_text[t.id] = m.group()
            return t
        ctx.log.append(("compiled-call", name, recv, tuple(args), i.site(node)))
        subj0 = args[0] if args else None
        ks0 = h.json_kind(subj0) if subj0 is not None else None
        if (ks0 is not None and ks0 != "str") or isinstance(subj0, (Inst, IntV, PyList, PyTuple, PyDict, EnumV)):
            raise h.raise_("TypeError", "expected string or buffer", node)
        t = Term("re." + name, (recv,) + tuple(args), ctx.new_id())
        ctx.atom_info[("truth", "term", t.id)] = {"kind": "regex", "mode": name, "pattern": recv.args[0] if recv.args else None, "subject": args[0] if args else None, "pos": args[1] if len(args) > 1 else None}
        return t
    if isinstance(recv, Term) and recv.op in ("strmeth", "concat", "fstr", "str", "repr", "ascii", "join", "json.dumps", "strslice", "canonical"):
        if name == "partition" and recv.op == "strmeth" and isinstance(recv.args[0], SymStr) and recv.args[1] in ("lower", "upper", "casefold") and not recv.args[2] and len(args) == 1 and isinstance(args[0], Const) and isinstance(args[0].value, str) and args[0].value:
            # pieces of a case-folded lexeme: derived lexemes as for SymStr.partition
            return PyTuple(tuple(Term("strpart", (recv, name, args[0].value, k), ctx.new_id()) for k in range(3)))
        if name in ("startswith", "endswith") or name in STR_PREDICATES:
            key = ("strpred", name, recv.id, repr(args))
            ctx.atom_info[key] = {"kind": "strpred", "name": name, "recv": recv, "args": list(args)}
            return Const(ctx.choose(key, [False, True]))
        return Term("strmeth", (recv, name, tuple(args)), ctx.new_id())
    if isinstance(recv, (Opaque, Term)):
        return h.opaque_call(recv, name, args, kwargs, node)
    if isinstance(recv, Sym) and name in STR_ONLY_METHODS:
        k = i.kind_of(recv)
        if k != "str":
            raise h.raise_("AttributeError", f"{k} value has no attribute {name!r}", node)
        if name in STR_PREDICATES:
            return Const(ctx.choose(("strpred", recv.id, name), [False, True]))
        if name in ("startswith", "endswith"):
            return Const(ctx.choose(("strpred", recv.id, name, repr(args)), [False, True]))
        return Term("strmeth", (recv, name, tuple(args)), ctx.new_id())
    raise h.unsupported(node, f"method {name} on {recv!r}")


DICT_MUT = {"setdefault", "pop", "update", "popitem", "clear"}


def _first_yield(events: Any) -> Any:
    for e in events:
        if e.kind == "yield":
            return e.value
        if e.kind == "foreach":
            r = _first_yield(e.body)
            if r is not None:
                return r
    return None


def _queue_samples(q: Any, seen: Any = None) -> List[AV]:
    seen = seen if seen is not None else set()
    if q.id in seen:
        return []
    seen.add(q.id)
    out: List[AV] = []
    for entry in q.log:
        op, payload = entry[0], entry[1]
        if op in ("append", "appendleft"):
            out.append(payload[0])
        elif op in ("extend", "extendleft", "init"):
            src = payload[0] if isinstance(payload, tuple) else payload
            if isinstance(src, Stream):
                y = _first_yield(src.events)
                if y is not None:
                    out.append(y)
            elif isinstance(src, PyList) and src.items:
                out.append(src.items[0])
            elif isinstance(src, AbsQueue):
                out += _queue_samples(src, seen)
    return out


def _queue_item(h: Any, q: Any, name: str) -> AV:
    """The generic item taken from a work queue, typed like the items put into it."""
    i = h.i
    samples = _queue_samples(q)
    shape = None
    for smp in samples:
        if isinstance(smp, PyTuple):
            shape = smp
            break
    if shape is None:
        return i.new_opaque(f"queue#{q.id}.{name}()")
    comps: List[AV] = []
    for k, c in enumerate(shape.items):
        if isinstance(c, (IntV,)) or (isinstance(c, Const) and isinstance(c.value, int) and not isinstance(c.value, bool)):
            comps.append(i.new_int(f"queue#{q.id}.item[{k}]"))
        elif isinstance(c, Inst):
            comps.append(i.new_opaque(f"queue#{q.id}.item[{k}]", c.cls))
        elif isinstance(c, Opaque):
            comps.append(i.new_opaque(f"queue#{q.id}.item[{k}]", c.hint))
        else:
            comps.append(i.new_opaque(f"queue#{q.id}.item[{k}]"))
    return PyTuple(comps)
