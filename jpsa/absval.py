"""Abstract values for the finite-domain interpreter (absint.py)."""

from __future__ import annotations

from typing import Any
from typing import Dict
from typing import List
from typing import Optional
from typing import Tuple

from .numeric import Lin

JSON_KINDS = ("null", "bool", "int", "float", "str", "list", "dict")
NUMBER_KINDS = frozenset({"int", "float"})


class AV:
    __slots__ = ()


class Const(AV):
    """A concrete immutable Python constant (None, bool, int, float, str, bytes)."""

    __slots__ = ("value",)

    def __init__(self, value: Any) -> None:
        self.value = value

    def __repr__(self) -> str:
        return f"Const({self.value!r})"


class EnumV(AV):
    __slots__ = ("cls", "member")

    def __init__(self, cls: Any, member: str) -> None:
        self.cls = cls
        self.member = member

    def key(self) -> Tuple[str, str]:
        return (self.cls.qualname, self.member)

    def __repr__(self) -> str:
        return f"{self.cls.name}.{self.member}"


class PyTuple(AV):
    __slots__ = ("items", "fields")

    def __init__(self, items, fields=None) -> None:
        self.items = tuple(items)
        self.fields = fields  # field names of a typing.NamedTuple instance (it is a tuple), else None

    def __repr__(self) -> str:
        return f"PyTuple{self.items!r}"


class PyList(AV):
    __slots__ = ("items", "depth", "oid")

    def __init__(self, items, depth: int = 0, oid: int = 0) -> None:
        self.items = list(items)
        self.depth = depth
        self.oid = oid

    def __repr__(self) -> str:
        return f"PyList{self.items!r}"


class PyDict(AV):
    """Concrete-key dict.  Keys are hashable python keys (see absint.hkey)."""

    __slots__ = ("items", "keys_av", "depth", "oid")

    def __init__(self, depth: int = 0, oid: int = 0) -> None:
        self.items: Dict[Any, AV] = {}
        self.keys_av: Dict[Any, AV] = {}
        self.depth = depth
        self.oid = oid

    def __repr__(self) -> str:
        return f"PyDict({list(self.items)!r})"


class PySet(AV):
    __slots__ = ("items", "keys_av", "frozen", "depth", "oid")

    def __init__(self, frozen: bool = False, depth: int = 0, oid: int = 0) -> None:
        self.items: set = set()
        self.keys_av: Dict[Any, AV] = {}
        self.frozen = frozen
        self.depth = depth
        self.oid = oid


class Sym(AV):
    """A symbolic JSON value: unknown content, one of *kinds*."""

    __slots__ = ("id", "label", "kinds", "origin")

    def __init__(self, id: int, label: str, kinds, origin: Any = None) -> None:
        self.id = id
        self.label = label
        self.kinds = frozenset(kinds)
        self.origin = origin

    def __repr__(self) -> str:
        return f"Sym({self.label})"


class IntV(AV):
    """A symbolic integer: a linear form over integer variables."""

    __slots__ = ("lin",)

    def __init__(self, lin: Lin) -> None:
        self.lin = lin

    def __repr__(self) -> str:
        return f"IntV({self.lin.show()})"


class SymStr(AV):
    __slots__ = ("id", "label", "len_var", "origin")

    def __init__(self, id: int, label: str, len_var: int, origin: Any = None) -> None:
        self.id = id
        self.label = label
        self.len_var = len_var
        self.origin = origin

    def __repr__(self) -> str:
        return f"SymStr({self.label})"


class SymChar(AV):
    __slots__ = ("id", "label", "cp_var")

    def __init__(self, id: int, label: str, cp_var: int) -> None:
        self.id = id
        self.label = label
        self.cp_var = cp_var

    def __repr__(self) -> str:
        return f"SymChar({self.label})"


class Inst(AV):
    """Instance of a class of the analysed package."""

    __slots__ = ("cls", "attrs", "id", "seq", "depth", "label", "constructed")

    def __init__(self, cls: Any, id: int, depth: int = 0, label: str = "") -> None:
        self.constructed = False  # True once the class's own constructor has run on it (Interp.instantiate)
        self.cls = cls
        self.attrs: Dict[str, AV] = {}
        self.id = id
        self.seq: Optional[AV] = None  # for list subclasses: PyList or SeqV
        self.depth = depth
        self.label = label

    def __repr__(self) -> str:
        return f"Inst({self.cls.name}#{self.id}{' ' + self.label if self.label else ''})"


class Opaque(AV):
    """An object about which nothing is known except (maybe) its declared class."""

    __slots__ = ("id", "label", "hint", "children")

    def __init__(self, id: int, label: str, hint: Any = None) -> None:
        self.id = id
        self.label = label
        self.hint = hint  # ClassInfo or None
        self.children: Dict[str, AV] = {}

    def __repr__(self) -> str:
        return f"Opaque({self.label})"


class Term(AV):
    """Result of a modelled external / unknown operation."""

    __slots__ = ("op", "args", "id")

    def __init__(self, op: str, args: Tuple[Any, ...], id: int = 0) -> None:
        self.op = op
        self.args = tuple(args)
        self.id = id

    def __repr__(self) -> str:
        return f"Term({self.op}, {self.args!r})"


class FuncV(AV):
    __slots__ = ("fi", "closure")

    def __init__(self, fi: Any, closure: Any = None) -> None:
        self.fi = fi
        self.closure = closure

    def __repr__(self) -> str:
        return f"FuncV({self.fi.qualname})"


class BoundMethod(AV):
    __slots__ = ("self_av", "fi")

    def __init__(self, self_av: AV, fi: Any) -> None:
        self.self_av = self_av
        self.fi = fi

    def __repr__(self) -> str:
        return f"BoundMethod({self.self_av!r}.{self.fi.name})"


class ClassV(AV):
    __slots__ = ("ci",)

    def __init__(self, ci: Any) -> None:
        self.ci = ci

    def __repr__(self) -> str:
        return f"ClassV({self.ci.qualname})"


class ModuleV(AV):
    __slots__ = ("mod",)

    def __init__(self, mod: Any) -> None:
        self.mod = mod


class ExternalV(AV):
    """A name from outside the package (stdlib, regex, builtins)."""

    __slots__ = ("name",)

    def __init__(self, name: str) -> None:
        self.name = name

    def __repr__(self) -> str:
        return f"ExternalV({self.name})"


class HostMethod(AV):
    __slots__ = ("recv", "name")

    def __init__(self, recv: AV, name: str) -> None:
        self.recv = recv
        self.name = name

    def __repr__(self) -> str:
        return f"HostMethod({self.recv!r}.{self.name})"


class LambdaV(AV):
    __slots__ = ("node", "env", "mod")

    def __init__(self, node: Any, env: Any, mod: Any) -> None:
        self.node = node
        self.env = env
        self.mod = mod


class SliceV(AV):
    __slots__ = ("start", "stop", "step", "id")

    def __init__(self, start: AV, stop: AV, step: AV, id: int = 0) -> None:
        self.start = start
        self.stop = stop
        self.step = step
        self.id = id

    def __repr__(self) -> str:
        return f"SliceV({self.start!r},{self.stop!r},{self.step!r})"


# ----------------------------------------------------------------- iteration


class Elem:
    """The generic element of one abstract iteration."""

    __slots__ = ("id", "src", "key", "val", "target", "info")

    def __init__(self, id: int, src: "Source") -> None:
        self.id = id
        self.src = src
        self.key: Optional[AV] = None
        self.val: Optional[AV] = None
        self.target: Optional[AV] = None  # what the loop variable is bound to
        self.info: Any = None

    def __repr__(self) -> str:
        return f"Elem#{self.id}<{self.src!r}>"


class Source(AV):
    """An abstract iterable with order provenance.

    view: 'items' | 'keys' | 'values' | 'enumerate' | 'elems' | 'opaque' | 'zip' | 'range'
          | 'slice' | 'chars' | 'bytes'
    base: the container (Sym / Opaque / Term / tuple of Sources for zip)
    order: list of order transformations applied, e.g. [] (own order), ['reversed'],
           ['shuffled'], ['sorted'], ['set'] ...
    fresh: True if this is a new list object (copy) owned by the frame
    """

    __slots__ = ("view", "base", "order", "fresh", "id", "depth", "extra")

    def __init__(self, view: str, base: Any, order=(), fresh: bool = False, id: int = 0, depth: int = 0, extra: Any = None) -> None:
        self.view = view
        self.base = base
        self.order = list(order)
        self.fresh = fresh
        self.id = id
        self.depth = depth
        self.extra = extra

    def __repr__(self) -> str:
        o = "".join(f".{x}" for x in self.order)
        return f"Source({self.view}:{self.base!r}{o}{' fresh' if self.fresh else ''})"


class Ev:
    """One event of a generator / loop trace."""

    __slots__ = ("kind", "value", "src", "elem", "body", "site", "info")

    def __init__(self, kind: str, value: Any = None, src: Any = None, elem: Any = None, body: Any = None, site: Any = None, info: Any = None) -> None:
        self.kind = kind  # yield | foreach | yield_from | raise | mutate | carried | extcall | break | return
        self.value = value
        self.src = src
        self.elem = elem
        self.body = body
        self.site = site
        self.info = info

    def __repr__(self) -> str:
        if self.kind == "foreach":
            return f"Ev(foreach {self.src!r} -> {self.body!r})"
        return f"Ev({self.kind} {self.value!r})"


class GenV(AV):
    __slots__ = ("fi", "env", "events", "terminal", "ran", "self_av", "id")

    def __init__(self, fi: Any, env: Any, self_av: Any = None, id: int = 0) -> None:
        self.fi = fi
        self.env = env
        self.events: Optional[List[Ev]] = None
        self.terminal: Any = None
        self.ran = False
        self.self_av = self_av
        self.id = id

    def __repr__(self) -> str:
        return f"GenV({self.fi.qualname})"


class Stream(AV):
    """A materialised trace (result of running a generator or a comprehension)."""

    __slots__ = ("events", "terminal", "kind", "id")

    def __init__(self, events: List[Ev], terminal: Any = None, kind: str = "iter", id: int = 0) -> None:
        self.events = events
        self.terminal = terminal
        self.kind = kind  # 'iter' | 'list'
        self.id = id

    def __repr__(self) -> str:
        return f"Stream({self.kind}, {self.events!r})"


class AbsQueue(AV):
    """A deque whose content is not tracked concretely; operations are logged."""

    __slots__ = ("id", "log", "depth", "origin", "items")

    def __init__(self, id: int, depth: int = 0, origin: Any = None) -> None:
        self.id = id
        self.items: Optional[List[Any]] = []  # concrete content; None once it went abstract
        self.log: List[Any] = []
        self.depth = depth
        self.origin = origin  # what it was built from (deque(iterable))

    def __repr__(self) -> str:
        return f"AbsQueue#{self.id}"


class HostExc(AV):
    """An exception of a builtin class raised by a modelled host operation."""

    __slots__ = ("name", "msg")

    def __init__(self, name: str, msg: str = "") -> None:
        self.name = name
        self.msg = msg

    def __repr__(self) -> str:
        return f"HostExc({self.name}: {self.msg})"


BUILTIN_EXC_BASES = {
    "BaseException": None,
    "Exception": "BaseException",
    "ArithmeticError": "Exception",
    "OverflowError": "ArithmeticError",
    "ZeroDivisionError": "ArithmeticError",
    "AssertionError": "Exception",
    "AttributeError": "Exception",
    "LookupError": "Exception",
    "IndexError": "LookupError",
    "KeyError": "LookupError",
    "NameError": "Exception",
    "UnboundLocalError": "NameError",
    "RuntimeError": "Exception",
    "RecursionError": "RuntimeError",
    "NotImplementedError": "RuntimeError",
    "StopIteration": "Exception",
    "TypeError": "Exception",
    "ValueError": "Exception",
    "UnicodeError": "ValueError",
    "UnicodeDecodeError": "UnicodeError",
    "UnicodeEncodeError": "UnicodeError",
    "json.JSONDecodeError": "ValueError",
    "json.decoder.JSONDecodeError": "ValueError",
    "OSError": "Exception",
    "IOError": "Exception",
    "FileNotFoundError": "OSError",
    "PermissionError": "OSError",
    "BrokenPipeError": "OSError",
    "MemoryError": "Exception",
    "KeyboardInterrupt": "BaseException",
    "SystemExit": "BaseException",
    "regex.error": "Exception",
    "re.error": "Exception",
    "decimal.DecimalException": "ArithmeticError",
    "decimal.InvalidOperation": "decimal.DecimalException",
}


def builtin_exc_is_subclass(name: str, base: str) -> bool:
    cur: Optional[str] = name
    seen = 0
    while cur is not None and seen < 20:
        if cur == base:
            return True
        cur = BUILTIN_EXC_BASES.get(cur)
        seen += 1
    return False
