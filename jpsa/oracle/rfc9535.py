"""RFC 9535 ABNF terminals transcribed as regular expressions over code points (DESIGN Appendix B.8)."""

from __future__ import annotations

from ..automata import Alt
from ..automata import Chars
from ..automata import CharSet
from ..automata import Eps
from ..automata import Rep
from ..automata import Rx
from ..automata import Seq
from ..automata import lit
from ..automata import opt
from ..automata import plus
from ..automata import star

C = CharSet

DIGIT = C.rng("0", "9")
DIGIT1 = C.rng("1", "9")
ALPHA = C.rng("a", "z") | C.rng("A", "Z")
LCALPHA = C.rng("a", "z")
HEXDIG = DIGIT | C.rng("A", "F") | C.rng("a", "f")
BLANK = C.of(" \t\n\r")
NON_SURROGATE_HIGH = C([(0x80, 0xD7FF), (0xE000, 0x10FFFF)])

# B = %x20 / %x09 / %x0A / %x0D ; S = *B
blank_run = plus(Chars(BLANK))  # one or more blanks (what a blank-skipping recogniser consumes)

# name-first = ALPHA / "_" / %x80-D7FF / %xE000-10FFFF ; name-char = name-first / DIGIT
NAME_FIRST = ALPHA | C.of("_") | NON_SURROGATE_HIGH
NAME_CHAR = NAME_FIRST | DIGIT
member_name_shorthand = Seq(Chars(NAME_FIRST), star(Chars(NAME_CHAR)))

# int = "0" / (["-"] DIGIT1 *DIGIT)
int_ = Alt(lit("0"), Seq(opt(lit("-")), Chars(DIGIT1), star(Chars(DIGIT))))

# number = (int / "-0") [ frac ] [ exp ] ; frac = "." 1*DIGIT ; exp = "e" [ "-" / "+" ] 1*DIGIT
frac = Seq(lit("."), plus(Chars(DIGIT)))
exp = Seq(Chars(C.of("eE")), opt(Chars(C.of("+-"))), plus(Chars(DIGIT)))
number = Seq(Alt(int_, lit("-0")), opt(frac), opt(exp))

# function-name = function-name-first *function-name-char ; first = LCALPHA ; char = first / "_" / DIGIT
function_name = Seq(Chars(LCALPHA), star(Chars(LCALPHA | C.of("_") | DIGIT)))

# string literal bodies (between the quotes)
ESCAPABLE = C.of("bfnrt/\\")
HIGH_SURR = Seq(Chars(C.of("Dd")), Chars(C.of("89ABab")), Chars(HEXDIG), Chars(HEXDIG))
LOW_SURR = Seq(Chars(C.of("Dd")), Chars(C.of("CDEFcdef")), Chars(HEXDIG), Chars(HEXDIG))
# non-surrogate = ((DIGIT / "A"/"B"/"C" / "E"/"F") 3HEXDIG) / ("D" %x30-37 2HEXDIG )
NON_SURR = Alt(
    Seq(Chars(DIGIT | C.of("ABCEFabcef")), Chars(HEXDIG), Chars(HEXDIG), Chars(HEXDIG)),
    Seq(Chars(C.of("Dd")), Chars(C.rng("0", "7")), Chars(HEXDIG), Chars(HEXDIG)),
)
hexchar = Alt(NON_SURR, Seq(HIGH_SURR, lit("\\"), lit("u"), LOW_SURR))
# unescaped = %x20-21 / %x23-26 / %x28-5B / %x5D-D7FF / %xE000-10FFFF   (neither quote, no backslash)
UNESCAPED = C([(0x20, 0x21), (0x23, 0x26), (0x28, 0x5B), (0x5D, 0xD7FF), (0xE000, 0x10FFFF)])


def string_body(quote: str) -> Rx:
    other = "'" if quote == '"' else '"'
    return star(
        Alt(
            Chars(UNESCAPED | C.of(other)),
            Seq(lit("\\"), Alt(Chars(ESCAPABLE | C.of(quote)), Seq(lit("u"), hexchar))),
        )
    )


KEYWORDS = ("true", "false", "null")
COMPARISON_OPS = ("==", "!=", "<=", ">=", "<", ">")
LOGICAL_OPS = ("&&", "||", "!")
