"""Repository model: parsed modules, classes, functions, imports and constants.

Everything here is computed from the *text* of the package under analysis with
``ast``.  The package is never imported.
"""

from __future__ import annotations

import ast
import hashlib
import os
from dataclasses import dataclass
from dataclasses import field
from pathlib import Path
from typing import Dict
from typing import Iterator
from typing import List
from typing import Optional
from typing import Tuple

PKG = "jsonpath_rfc9535"


class AnalysisError(Exception):
    """The analysis cannot reach a verdict (exit 2), never a property verdict."""


def repo_root() -> Path:
    return Path(os.environ.get("VERIF_REPO", "/repo"))


@dataclass
class FuncInfo:
    qualname: str  # e.g. parse.Parser.parse_slice or lex.lex_root
    module: "ModuleInfo"
    node: ast.FunctionDef
    cls: Optional["ClassInfo"] = None
    parent: Optional["FuncInfo"] = None  # enclosing function for closures
    is_generator: bool = False
    decorators: Tuple[str, ...] = ()

    @property
    def name(self) -> str:
        return self.node.name

    @property
    def file(self) -> str:
        return self.module.relpath

    @property
    def line(self) -> int:
        return self.node.lineno

    def __hash__(self) -> int:
        return hash(self.qualname)

    def __repr__(self) -> str:
        return f"<func {self.qualname}>"


@dataclass
class ClassInfo:
    name: str
    module: "ModuleInfo"
    node: ast.ClassDef
    base_exprs: List[ast.expr] = field(default_factory=list)
    methods: Dict[str, FuncInfo] = field(default_factory=dict)
    attrs: Dict[str, ast.expr] = field(default_factory=dict)  # class-level assigns
    attr_annotations: Dict[str, ast.expr] = field(default_factory=dict)
    aliases: Dict[str, str] = field(default_factory=dict)  # apply = find
    nested: Dict[str, "ClassInfo"] = field(default_factory=dict)
    bases: List["ClassInfo"] = field(default_factory=list)
    external_bases: List[str] = field(default_factory=list)

    @property
    def qualname(self) -> str:
        return f"{self.module.short}.{self.name}"

    def mro(self) -> List["ClassInfo"]:
        out: List[ClassInfo] = []
        seen = set()

        def walk(c: "ClassInfo") -> None:
            if id(c) in seen:
                return
            seen.add(id(c))
            out.append(c)
            for b in c.bases:
                walk(b)

        walk(self)
        return out

    def all_external_bases(self) -> List[str]:
        out: List[str] = []
        for c in self.mro():
            out.extend(c.external_bases)
        return out

    def find_method(self, name: str) -> Optional[FuncInfo]:
        for c in self.mro():
            if name in c.methods:
                return c.methods[name]
            if name in c.aliases:
                return c.find_method(c.aliases[name])
        return None

    def find_attr(self, name: str) -> Optional[Tuple["ClassInfo", ast.expr]]:
        for c in self.mro():
            if name in c.attrs:
                return c, c.attrs[name]
        return None

    def is_subclass_of(self, other: "ClassInfo") -> bool:
        return any(c is other for c in self.mro())

    def slots(self) -> Optional[List[str]]:
        e = self.attrs.get("__slots__")
        if e is None:
            return None
        try:
            v = ast.literal_eval(e)
        except Exception:
            return None
        if isinstance(v, str):
            return [v]
        return list(v)

    def __hash__(self) -> int:
        return hash(self.qualname)

    def __repr__(self) -> str:
        return f"<class {self.qualname}>"


@dataclass
class ModuleInfo:
    name: str  # dotted, e.g. jsonpath_rfc9535.parse
    path: Path
    relpath: str
    source: str
    tree: ast.Module
    sha256: str
    # local name -> ("module", dotted) | ("attr", dotted_module, attr)
    imports: Dict[str, Tuple[str, ...]] = field(default_factory=dict)
    classes: Dict[str, ClassInfo] = field(default_factory=dict)
    functions: Dict[str, FuncInfo] = field(default_factory=dict)
    assigns: Dict[str, ast.expr] = field(default_factory=dict)  # module-level NAME = expr
    assign_nodes: Dict[str, ast.stmt] = field(default_factory=dict)
    type_checking_imports: Dict[str, Tuple[str, ...]] = field(default_factory=dict)

    @property
    def short(self) -> str:
        if self.name == PKG:
            return "__init__"
        return self.name[len(PKG) + 1 :]

    def line_text(self, lineno: int) -> str:
        lines = self.source.splitlines()
        if 1 <= lineno <= len(lines):
            return lines[lineno - 1].strip()
        return ""


def _is_generator(fn: ast.FunctionDef) -> bool:
    for node in _walk_own(fn):
        if isinstance(node, (ast.Yield, ast.YieldFrom)):
            return True
    return False


def _walk_own(fn: ast.AST) -> Iterator[ast.AST]:
    """Walk the body of *fn* without descending into nested defs/classes/lambdas."""
    stack = list(ast.iter_child_nodes(fn))
    while stack:
        n = stack.pop()
        yield n
        if isinstance(n, (ast.FunctionDef, ast.AsyncFunctionDef, ast.ClassDef, ast.Lambda)):
            continue
        stack.extend(ast.iter_child_nodes(n))


walk_own = _walk_own


def _decorator_name(d: ast.expr) -> str:
    if isinstance(d, ast.Call):
        d = d.func
    return ast.unparse(d)


class Model:
    """All modules of the package under analysis."""

    def __init__(self, root: Optional[Path] = None) -> None:
        self.root = Path(root) if root else repo_root()
        self.pkg_dir = self.root / PKG
        self.modules: Dict[str, ModuleInfo] = {}
        self.functions: Dict[str, FuncInfo] = {}  # by qualname
        self.classes: Dict[str, ClassInfo] = {}  # by qualname (module.Class)
        self._load()

    # ------------------------------------------------------------------ load
    def _load(self) -> None:
        if not self.pkg_dir.is_dir():
            raise AnalysisError(f"package directory not found: {self.pkg_dir}")
        files = sorted(self.pkg_dir.rglob("*.py"))
        if not files:
            raise AnalysisError(f"no python files under {self.pkg_dir}")
        for path in files:
            rel = path.relative_to(self.root).as_posix()
            parts = list(path.relative_to(self.root).with_suffix("").parts)
            if parts[-1] == "__init__":
                parts = parts[:-1]
            name = ".".join(parts)
            try:
                src = path.read_text(encoding="utf-8")
                tree = ast.parse(src, filename=str(path))
            except (SyntaxError, UnicodeDecodeError, OSError) as err:
                raise AnalysisError(f"cannot parse {rel}: {err}") from err
            mod = ModuleInfo(
                name=name,
                path=path,
                relpath=rel,
                source=src,
                tree=tree,
                sha256=hashlib.sha256(src.encode()).hexdigest(),
            )
            self.modules[name] = mod
        for mod in self.modules.values():
            self._index_module(mod)
        for cls in list(self.classes.values()):
            self._resolve_bases(cls)

    def _index_module(self, mod: ModuleInfo) -> None:
        is_pkg = mod.path.name == "__init__.py"

        def rel_module(level: int, module: Optional[str]) -> str:
            base = mod.name.split(".")
            if not is_pkg:
                base = base[:-1]
            if level > 1:
                base = base[: len(base) - (level - 1)]
            if module:
                base = base + module.split(".")
            return ".".join(base)

        def handle_import(stmt: ast.stmt, table: Dict[str, Tuple[str, ...]]) -> None:
            if isinstance(stmt, ast.Import):
                for a in stmt.names:
                    local = a.asname or a.name.split(".")[0]
                    table[local] = ("module", a.name if a.asname else a.name.split(".")[0])
                    if a.asname:
                        table[local] = ("module", a.name)
            elif isinstance(stmt, ast.ImportFrom):
                m = rel_module(stmt.level, stmt.module) if stmt.level else (stmt.module or "")
                for a in stmt.names:
                    if a.name == "*":
                        raise AnalysisError(f"{mod.relpath}:{stmt.lineno}: star import (R00)")
                    local = a.asname or a.name
                    table[local] = ("attr", m, a.name)

        def visit_body(body: List[ast.stmt], type_checking: bool = False) -> None:
            for stmt in body:
                if isinstance(stmt, (ast.Import, ast.ImportFrom)):
                    handle_import(stmt, mod.imports)
                    if type_checking:
                        handle_import(stmt, mod.type_checking_imports)
                elif isinstance(stmt, ast.FunctionDef):
                    self._index_function(mod, stmt, None, None, prefix=mod.short)
                elif isinstance(stmt, ast.ClassDef):
                    self._index_class(mod, stmt, prefix=mod.short, container=mod.classes)
                elif isinstance(stmt, ast.Assign):
                    for t in stmt.targets:
                        if isinstance(t, ast.Name):
                            mod.assigns[t.id] = stmt.value
                            mod.assign_nodes[t.id] = stmt
                elif isinstance(stmt, ast.AnnAssign):
                    if isinstance(stmt.target, ast.Name) and stmt.value is not None:
                        mod.assigns[stmt.target.id] = stmt.value
                        mod.assign_nodes[stmt.target.id] = stmt
                elif isinstance(stmt, ast.If):
                    test = ast.unparse(stmt.test)
                    if test in ("TYPE_CHECKING", "typing.TYPE_CHECKING"):
                        visit_body(stmt.body, type_checking=True)
                    elif test == "__name__ == '__main__'":
                        pass
                    else:
                        visit_body(stmt.body)
                        visit_body(stmt.orelse)
                elif isinstance(stmt, ast.Try):
                    visit_body(stmt.body)

        visit_body(mod.tree.body)

    def _index_function(
        self,
        mod: ModuleInfo,
        node: ast.FunctionDef,
        cls: Optional[ClassInfo],
        parent: Optional[FuncInfo],
        prefix: str,
    ) -> FuncInfo:
        qual = f"{prefix}.{node.name}"
        fi = FuncInfo(
            qualname=qual,
            module=mod,
            node=node,
            cls=cls,
            parent=parent,
            is_generator=_is_generator(node),
            decorators=tuple(_decorator_name(d) for d in node.decorator_list),
        )
        self.functions[qual] = fi
        if cls is None and parent is None:
            mod.functions[node.name] = fi
        # nested functions
        for sub in _walk_own(node):
            if isinstance(sub, ast.FunctionDef):
                self._index_function(mod, sub, None, fi, prefix=f"{qual}.<locals>")
        return fi

    def _index_class(
        self, mod: ModuleInfo, node: ast.ClassDef, prefix: str, container: Dict[str, ClassInfo]
    ) -> ClassInfo:
        ci = ClassInfo(name=node.name, module=mod, node=node, base_exprs=list(node.bases))
        qual = f"{prefix}.{node.name}"
        # nested classes get a dotted name
        if prefix != mod.short:
            ci.name = qual[len(mod.short) + 1 :]
        container[node.name] = ci
        self.classes[qual] = ci
        for stmt in node.body:
            if isinstance(stmt, ast.FunctionDef):
                fi = self._index_function(mod, stmt, ci, None, prefix=qual)
                ci.methods[stmt.name] = fi
            elif isinstance(stmt, ast.Assign):
                for t in stmt.targets:
                    if isinstance(t, ast.Name):
                        if isinstance(stmt.value, ast.Name) and stmt.value.id in ci.methods:
                            ci.aliases[t.id] = stmt.value.id
                        else:
                            ci.attrs[t.id] = stmt.value
            elif isinstance(stmt, ast.AnnAssign) and isinstance(stmt.target, ast.Name):
                ci.attr_annotations[stmt.target.id] = stmt.annotation
                if stmt.value is not None:
                    ci.attrs[stmt.target.id] = stmt.value
            elif isinstance(stmt, ast.ClassDef):
                self._index_class(mod, stmt, prefix=qual, container=ci.nested)
        return ci

    def _resolve_bases(self, cls: ClassInfo) -> None:
        for b in cls.base_exprs:
            target = b
            if isinstance(target, ast.Subscript):  # Generic[T], List[X]
                target = target.value
            r = self.resolve_expr_static(cls.module, target)
            if r and r[0] == "class":
                cls.bases.append(r[1])
            else:
                cls.external_bases.append(ast.unparse(target))

    # --------------------------------------------------------------- resolve
    def module_of(self, dotted: str) -> Optional[ModuleInfo]:
        return self.modules.get(dotted)

    def resolve_global(self, mod: ModuleInfo, name: str, _depth: int = 0):
        """Resolve a module-level *name* to ("class"|"func"|"assign"|"module"|"external", ...)."""
        if _depth > 10:
            return None
        if name in mod.classes:
            return ("class", mod.classes[name])
        if name in mod.functions:
            return ("func", mod.functions[name])
        if name in mod.assigns:
            return ("assign", mod, name)
        if name in mod.imports:
            imp = mod.imports[name]
            if imp[0] == "module":
                m = self.modules.get(imp[1])
                if m:
                    return ("module", m)
                return ("external", imp[1])
            _, m_name, attr = imp
            m = self.modules.get(m_name)
            if m is None:
                return ("external", f"{m_name}.{attr}")
            # attr may itself be a submodule
            sub = self.modules.get(f"{m_name}.{attr}")
            r = self.resolve_global(m, attr, _depth + 1)
            if r is not None:
                return r
            if sub is not None:
                return ("module", sub)
            return None
        return None

    def resolve_expr_static(self, mod: ModuleInfo, expr: ast.expr):
        if isinstance(expr, ast.Name):
            return self.resolve_global(mod, expr.id)
        if isinstance(expr, ast.Attribute):
            base = self.resolve_expr_static(mod, expr.value)
            if base is None:
                return None
            if base[0] == "module":
                return self.resolve_global(base[1], expr.attr)
            if base[0] == "external":
                return ("external", f"{base[1]}.{expr.attr}")
            if base[0] == "class":
                ci: ClassInfo = base[1]
                if expr.attr in ci.nested:
                    return ("class", ci.nested[expr.attr])
                m = ci.find_method(expr.attr)
                if m:
                    return ("func", m)
        return None

    # --------------------------------------------------------------- helpers
    def func(self, qualname: str) -> FuncInfo:
        try:
            return self.functions[qualname]
        except KeyError:
            raise AnalysisError(f"anchor vanished: function {qualname} not found") from None

    def cls(self, qualname: str) -> ClassInfo:
        try:
            return self.classes[qualname]
        except KeyError:
            raise AnalysisError(f"anchor vanished: class {qualname} not found") from None

    def module(self, short: str) -> ModuleInfo:
        name = PKG if short == "__init__" else f"{PKG}.{short}"
        try:
            return self.modules[name]
        except KeyError:
            raise AnalysisError(f"anchor vanished: module {name} not found") from None

    def subclasses(self, base: ClassInfo, strict: bool = True) -> List[ClassInfo]:
        out = []
        for c in self.classes.values():
            if c.is_subclass_of(base) and (c is not base or not strict):
                out.append(c)
        return out

    def overrides(self, base: ClassInfo, method: str) -> List[FuncInfo]:
        """Concrete implementations of *method* in *base* and all its subclasses."""
        out: List[FuncInfo] = []
        seen = set()
        for c in self.subclasses(base, strict=False):
            m = c.find_method(method)
            if m is None or m.qualname in seen:
                continue
            if "abstractmethod" in m.decorators:
                continue
            seen.add(m.qualname)
            out.append(m)
        return out

    def stats(self) -> Dict[str, int]:
        return {
            "modules": len(self.modules),
            "classes": len(self.classes),
            "functions": len(self.functions),
        }

    def file_digests(self) -> Dict[str, str]:
        return {m.relpath: m.sha256 for m in self.modules.values()}
