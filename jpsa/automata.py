"""Regular languages over Unicode code points: regex ASTs, NFAs, DFAs over an interval
alphabet, language comparison with shortest witnesses per divergence.

Regexes come from two places: the `re` pattern literals found in the analysed source
(parsed with the stdlib's own `re._parser`, never compiled or matched) and the RFC 9535
ABNF terminals transcribed in oracle/rfc9535.py with the combinators below.
"""

from __future__ import annotations

import sys
from typing import Any
from typing import Dict
from typing import FrozenSet
from typing import Iterable
from typing import List
from typing import Optional
from typing import Sequence
from typing import Set
from typing import Tuple

from .model import AnalysisError

MAXCP = 0x10FFFF
Interval = Tuple[int, int]


class CharSet:
    """A set of code points as sorted disjoint intervals."""

    __slots__ = ("iv",)

    def __init__(self, intervals: Iterable[Interval] = ()) -> None:
        iv = sorted((max(0, a), min(MAXCP, b)) for a, b in intervals if a <= b)
        out: List[Interval] = []
        for a, b in iv:
            if out and a <= out[-1][1] + 1:
                out[-1] = (out[-1][0], max(out[-1][1], b))
            else:
                out.append((a, b))
        self.iv = tuple(out)

    @staticmethod
    def of(chars: str) -> "CharSet":
        return CharSet((ord(c), ord(c)) for c in chars)

    @staticmethod
    def rng(a: Any, b: Any) -> "CharSet":
        a = ord(a) if isinstance(a, str) else a
        b = ord(b) if isinstance(b, str) else b
        return CharSet([(a, b)])

    @staticmethod
    def any() -> "CharSet":
        return CharSet([(0, MAXCP)])

    def union(self, o: "CharSet") -> "CharSet":
        return CharSet(self.iv + o.iv)

    __or__ = union

    def negate(self) -> "CharSet":
        out = []
        prev = 0
        for a, b in self.iv:
            if a > prev:
                out.append((prev, a - 1))
            prev = b + 1
        if prev <= MAXCP:
            out.append((prev, MAXCP))
        return CharSet(out)

    def intersect(self, o: "CharSet") -> "CharSet":
        return self.negate().union(o.negate()).negate()

    __and__ = intersect

    def minus(self, o: "CharSet") -> "CharSet":
        return self.intersect(o.negate())

    __sub__ = minus

    def contains(self, cp: int) -> bool:
        return any(a <= cp <= b for a, b in self.iv)

    def empty(self) -> bool:
        return not self.iv

    def __eq__(self, o: object) -> bool:
        return isinstance(o, CharSet) and self.iv == o.iv

    def __hash__(self) -> int:
        return hash(self.iv)

    def size(self) -> int:
        return sum(b - a + 1 for a, b in self.iv)

    def sample(self) -> int:
        """A representative code point, preferring printable ASCII."""
        for a, b in self.iv:
            lo, hi = max(a, 0x21), min(b, 0x7E)
            if lo <= hi:
                for pref in range(lo, hi + 1):
                    if chr(pref).isalnum():
                        return pref
                return lo
        return self.iv[0][0]

    def show(self) -> str:
        def cp(x: int) -> str:
            if 0x21 <= x <= 0x7E:
                return chr(x)
            return f"U+{x:04X}"

        return ",".join(cp(a) if a == b else f"{cp(a)}-{cp(b)}" for a, b in self.iv[:8]) + ("..." if len(self.iv) > 8 else "")

    def __repr__(self) -> str:
        return f"CharSet[{self.show()}]"


# ------------------------------------------------------------------ regex AST
class Rx:
    pass


class Eps(Rx):
    pass


class Chars(Rx):
    def __init__(self, cs: CharSet) -> None:
        self.cs = cs


class Seq(Rx):
    def __init__(self, *parts: Rx) -> None:
        self.parts = list(parts)


class Alt(Rx):
    def __init__(self, *parts: Rx) -> None:
        self.parts = list(parts)


class Rep(Rx):
    def __init__(self, r: Rx, lo: int, hi: Optional[int]) -> None:
        self.r, self.lo, self.hi = r, lo, hi


def lit(s: str) -> Rx:
    return Seq(*[Chars(CharSet.of(c)) for c in s]) if len(s) != 1 else Chars(CharSet.of(s))


def star(r: Rx) -> Rx:
    return Rep(r, 0, None)


def plus(r: Rx) -> Rx:
    return Rep(r, 1, None)


def opt(r: Rx) -> Rx:
    return Rep(r, 0, 1)


_CATS: Dict[str, CharSet] = {}


def category(name: str) -> CharSet:
    """Unicode-aware \\d \\s \\w as the stdlib `re` defines them for str patterns."""
    if not _CATS:
        digit: List[Interval] = []
        space: List[Interval] = []
        word: List[Interval] = []

        def push(lst: List[Interval], cp: int) -> None:
            if lst and lst[-1][1] == cp - 1:
                lst[-1] = (lst[-1][0], cp)
            else:
                lst.append((cp, cp))

        for cp in range(sys.maxunicode + 1):
            c = chr(cp)
            if c.isdecimal():
                push(digit, cp)
            if c.isspace():
                push(space, cp)
            if c.isalnum() or c == "_":
                push(word, cp)
        _CATS["digit"] = CharSet(digit)
        _CATS["space"] = CharSet(space)
        _CATS["word"] = CharSet(word)
    return _CATS[name]


def from_sre(pattern: str, flags: int = 0, mode: Optional[str] = None) -> Rx:
    """Regex AST of a stdlib `re` pattern string (parsed, never compiled).

    mode None: the pattern itself (a token pattern matched at a position).  mode 'match' | 'fullmatch' |
    'search': the language of whole subject strings on which that call succeeds."""
    import re._parser as sp  # type: ignore[import-not-found]
    from re import _constants as sc  # type: ignore[attr-defined]

    try:
        tree = sp.parse(pattern, flags)
    except Exception as err:  # noqa: BLE001
        raise AnalysisError(f"cannot parse regex literal {pattern!r}: {err}") from err

    def cat(c: Any) -> CharSet:
        n = str(c)
        neg = "NOT_" in n
        base = "digit" if "DIGIT" in n else "space" if "SPACE" in n else "word" if "WORD" in n else None
        if base is None:
            raise AnalysisError(f"unsupported regex category {n} in {pattern!r}")
        cs = category(base)
        return cs.negate() if neg else cs

    def conv_in(items: Any) -> CharSet:
        neg = False
        cs = CharSet()
        for op, av in items:
            if op is sc.NEGATE:
                neg = True
            elif op is sc.LITERAL:
                cs = cs | CharSet([(av, av)])
            elif op is sc.RANGE:
                cs = cs | CharSet([av])
            elif op is sc.CATEGORY:
                cs = cs | cat(av)
            else:
                raise AnalysisError(f"unsupported class item {op} in {pattern!r}")
        return cs.negate() if neg else cs

    def conv(seq: Any) -> Rx:
        parts: List[Rx] = []
        for op, av in seq:
            if op is sc.LITERAL:
                parts.append(Chars(CharSet([(av, av)])))
            elif op is sc.NOT_LITERAL:
                parts.append(Chars(CharSet([(av, av)]).negate()))
            elif op is sc.ANY:
                parts.append(Chars(CharSet.of("\n").negate()))
            elif op is sc.IN:
                parts.append(Chars(conv_in(av)))
            elif op is sc.BRANCH:
                parts.append(Alt(*[conv(b) for b in av[1]]))
            elif op is sc.SUBPATTERN:
                parts.append(conv(av[3]))
            elif op in (sc.MAX_REPEAT, sc.MIN_REPEAT) or str(op) == "POSSESSIVE_REPEAT":
                lo, hi, sub = av
                parts.append(Rep(conv(sub), lo, None if hi == sc.MAXREPEAT else hi))
            elif op is sc.CATEGORY:
                parts.append(Chars(cat(av)))
            elif op is sc.AT:
                raise AnalysisError(f"anchors are not supported in token patterns: {pattern!r}")
            else:
                raise AnalysisError(f"unsupported regex construct {op} in {pattern!r}")
        return Seq(*parts) if len(parts) != 1 else parts[0]

    if mode is None:
        items = list(tree)
        if items and items[-1][0] in (sc.ASSERT, sc.ASSERT_NOT) and items[-1][1][0] == 1:
            # a trailing look-ahead constrains what follows the lexeme, not the lexeme (see trailing_lookahead)
            items.pop()
        return conv(items)
    # ---- subject languages: the set of whole subject strings on which re.<mode>(pattern, subject) succeeds.
    # Supported around the core: a leading width-1 lookbehind, a trailing width-1 lookahead, ^ / \\A first, $ / \\Z last.
    sigma = Rep(Chars(CharSet([(0, 0x10FFFF)])), 0, None)
    empty = Chars(CharSet())
    return _subject_language(list(tree), mode, pattern, conv, conv_in, cat, sc, sigma, empty)


def trailing_lookahead(pattern: str, flags: int = 0) -> Optional[Tuple[bool, CharSet]]:
    """(positive, characters) of a one-character look-ahead that ends the pattern, or None."""
    import re._parser as sp  # type: ignore[import-not-found]
    from re import _constants as sc  # type: ignore[attr-defined]

    items = list(sp.parse(pattern, flags))
    if not items or items[-1][0] not in (sc.ASSERT, sc.ASSERT_NOT) or items[-1][1][0] != 1:
        return None
    sub = list(items[-1][1][1])
    if len(sub) == 1 and sub[0][0] is sc.LITERAL:
        return items[-1][0] is sc.ASSERT, CharSet([(sub[0][1], sub[0][1])])
    if len(sub) == 1 and sub[0][0] is sc.NOT_LITERAL:
        return items[-1][0] is sc.ASSERT, CharSet([(sub[0][1], sub[0][1])]).negate()
    raise AnalysisError(f"unsupported lookahead (only one literal character is modelled) in {pattern!r}")


def _subject_language(items: List[Any], mode: str, pattern: str, conv: Any, conv_in: Any, cat: Any, sc: Any, sigma: Rx, empty: Rx) -> Rx:
    """The set of whole subject strings on which re.<mode>(pattern, subject) succeeds, for a pattern whose top level is a
    sequence `items`; a top-level alternation is the union of its branches (each branch may carry its own leading
    look-behind / trailing look-ahead / anchors)."""
    if len(items) == 1 and items[0][0] is sc.BRANCH:
        return Alt(*[_subject_language(list(b), mode, pattern, conv, conv_in, cat, sc, sigma, empty) for b in items[0][1][1]])
    if len(items) == 1 and items[0][0] is sc.SUBPATTERN and items[0][1][3] is not None and len(list(items[0][1][3])) == 1 and list(items[0][1][3])[0][0] is sc.BRANCH:
        return _subject_language(list(items[0][1][3]), mode, pattern, conv, conv_in, cat, sc, sigma, empty)

    def one_char(sub: Any) -> Optional[CharSet]:
        sub = list(sub)
        if len(sub) != 1:
            return None
        op, av = sub[0]
        if op is sc.LITERAL:
            return CharSet([(av, av)])
        if op is sc.NOT_LITERAL:
            return CharSet([(av, av)]).negate()
        if op is sc.IN:
            return conv_in(av)
        if op is sc.CATEGORY:
            return cat(av)
        if op is sc.ANY:
            return CharSet.of("\n").negate()
        return None

    anchored_start = False
    before: Optional[Tuple[bool, CharSet]] = None  # (positive, set) lookbehind of width 1
    while items:
        op, av = items[0]
        if op is sc.AT and str(av) in ("AT_BEGINNING", "AT_BEGINNING_STRING"):
            anchored_start = True
            items.pop(0)
        elif op in (sc.ASSERT, sc.ASSERT_NOT) and av[0] == -1 and before is None:
            cs = one_char(av[1])
            if cs is None:
                raise AnalysisError(f"unsupported lookbehind (only one character wide is modelled) in {pattern!r}")
            before = (op is sc.ASSERT, cs)
            items.pop(0)
        else:
            break
    end_rx: Rx = sigma if mode != "fullmatch" else Eps()
    while items:
        op, av = items[-1]
        if op is sc.AT and str(av) == "AT_END_STRING":
            end_rx = Eps()
            items.pop()
        elif op is sc.AT and str(av) == "AT_END":
            end_rx = Alt(Eps(), Chars(CharSet.of("\n")))
            items.pop()
        elif op in (sc.ASSERT, sc.ASSERT_NOT) and av[0] == 1:
            cs = one_char(av[1])
            if cs is None:
                raise AnalysisError(f"unsupported lookahead (only one character wide is modelled) in {pattern!r}")
            if mode == "fullmatch":
                end_rx = Eps() if op is sc.ASSERT_NOT else empty
            elif op is sc.ASSERT:
                end_rx = Seq(Chars(cs), sigma)
            else:
                end_rx = Alt(Eps(), Seq(Chars(cs.negate()), sigma))
            items.pop()
            break
        else:
            break
    core = conv(items)
    at_zero = mode in ("match", "fullmatch") or anchored_start
    if at_zero:
        if before is not None and before[0]:
            return empty  # nothing precedes position 0
        return Seq(core, end_rx)
    if before is None:
        return Seq(sigma, core, end_rx)
    pos, cs = before
    if pos:
        return Seq(sigma, Chars(cs), core, end_rx)
    return Seq(Alt(Eps(), Seq(sigma, Chars(cs.negate()))), core, end_rx)


# ------------------------------------------------------------------------ NFA
class NFA:
    def __init__(self) -> None:
        self.n = 0
        self.eps: Dict[int, List[int]] = {}
        self.tr: Dict[int, List[Tuple[CharSet, int]]] = {}
        self.start = 0
        self.accept: Set[int] = set()

    def new(self) -> int:
        self.n += 1
        return self.n - 1

    def add_eps(self, a: int, b: int) -> None:
        self.eps.setdefault(a, []).append(b)

    def add(self, a: int, cs: CharSet, b: int) -> None:
        if not cs.empty():
            self.tr.setdefault(a, []).append((cs, b))


def build(rx: Rx) -> NFA:
    nfa = NFA()

    def go(r: Rx) -> Tuple[int, int]:
        if isinstance(r, Eps):
            s = nfa.new()
            return s, s
        if isinstance(r, Chars):
            s, t = nfa.new(), nfa.new()
            nfa.add(s, r.cs, t)
            return s, t
        if isinstance(r, Seq):
            if not r.parts:
                s = nfa.new()
                return s, s
            s, t = go(r.parts[0])
            for p in r.parts[1:]:
                s2, t2 = go(p)
                nfa.add_eps(t, s2)
                t = t2
            return s, t
        if isinstance(r, Alt):
            s, t = nfa.new(), nfa.new()
            for p in r.parts:
                s2, t2 = go(p)
                nfa.add_eps(s, s2)
                nfa.add_eps(t2, t)
            return s, t
        if isinstance(r, Rep):
            s = nfa.new()
            cur = s
            for _ in range(r.lo):
                s2, t2 = go(r.r)
                nfa.add_eps(cur, s2)
                cur = t2
            if r.hi is None:
                s2, t2 = go(r.r)
                loop = nfa.new()
                nfa.add_eps(cur, loop)
                nfa.add_eps(loop, s2)
                nfa.add_eps(t2, loop)
                return s, loop
            end = nfa.new()
            nfa.add_eps(cur, end)
            for _ in range(r.hi - r.lo):
                s2, t2 = go(r.r)
                nfa.add_eps(cur, s2)
                cur = t2
                nfa.add_eps(cur, end)
            return s, end
        raise AnalysisError(f"unknown regex node {r!r}")

    s, t = go(rx)
    nfa.start = s
    nfa.accept = {t}
    return nfa


def endpoints(nfa: NFA) -> Set[int]:
    pts: Set[int] = set()
    for lst in nfa.tr.values():
        for cs, _ in lst:
            for a, b in cs.iv:
                pts.add(a)
                pts.add(b + 1)
    return pts


def partition(*nfas: NFA) -> List[CharSet]:
    pts: Set[int] = {0, MAXCP + 1}
    for n in nfas:
        pts |= endpoints(n)
    s = sorted(p for p in pts if 0 <= p <= MAXCP + 1)
    return [CharSet([(a, b - 1)]) for a, b in zip(s, s[1:])]


class DFA:
    def __init__(self, nfa: NFA, classes: List[CharSet]) -> None:
        self.classes = classes
        self.trans: List[List[int]] = []  # state -> class index -> state (-1 dead)
        self.accepting: List[bool] = []
        index: Dict[FrozenSet[int], int] = {}

        def closure(states: Iterable[int]) -> FrozenSet[int]:
            stack = list(states)
            seen = set(stack)
            while stack:
                x = stack.pop()
                for y in nfa.eps.get(x, []):
                    if y not in seen:
                        seen.add(y)
                        stack.append(y)
            return frozenset(seen)

        reps = [c.iv[0][0] for c in classes]
        start = closure([nfa.start])
        index[start] = 0
        order = [start]
        i = 0
        while i < len(order):
            cur = order[i]
            i += 1
            row: List[int] = []
            for rep in reps:
                tgt: Set[int] = set()
                for x in cur:
                    for cs, y in nfa.tr.get(x, []):
                        if cs.contains(rep):
                            tgt.add(y)
                if not tgt:
                    row.append(-1)
                    continue
                cl = closure(tgt)
                if cl not in index:
                    index[cl] = len(order)
                    order.append(cl)
                    if len(order) > 20000:
                        raise AnalysisError("DFA too large")
                row.append(index[cl])
            self.trans.append(row)
            self.accepting.append(bool(cur & nfa.accept))
        self.n = len(order)

    def alive(self) -> List[bool]:
        """States from which an accepting state is reachable."""
        rev: Dict[int, Set[int]] = {}
        for s, row in enumerate(self.trans):
            for t in row:
                if t >= 0:
                    rev.setdefault(t, set()).add(s)
        good = [False] * self.n
        stack = [s for s in range(self.n) if self.accepting[s]]
        for s in stack:
            good[s] = True
        while stack:
            x = stack.pop()
            for y in rev.get(x, ()):  # noqa: B007
                if not good[y]:
                    good[y] = True
                    stack.append(y)
        return good

    def completion(self, s: int) -> Optional[List[int]]:
        """Shortest list of class indices from s to an accepting state."""
        from collections import deque

        prev: Dict[int, Tuple[int, int]] = {}
        dq = deque([s])
        seen = {s}
        while dq:
            x = dq.popleft()
            if self.accepting[x]:
                out: List[int] = []
                while x != s:
                    p, c = prev[x]
                    out.append(c)
                    x = p
                return out[::-1]
            for c, t in enumerate(self.trans[x]):
                if t >= 0 and t not in seen:
                    seen.add(t)
                    prev[t] = (x, c)
                    dq.append(t)
        return None


class Divergence:
    def __init__(self, side: str, witness: str, prefix: str, cls: CharSet, kind: str) -> None:
        self.side = side  # 'a-only' | 'b-only'
        self.witness = witness
        self.prefix = prefix
        self.cls = cls
        self.kind = kind  # 'edge' | 'accept'

    def key(self) -> str:
        pre = self.prefix.encode("unicode_escape").decode()
        if self.kind == "accept":
            return f"{self.side}:after[{pre}]:end"
        return f"{self.side}:after[{pre}]:{self.cls.show()}"

    def __repr__(self) -> str:
        return f"<{self.key()} witness={self.witness!r}>"


def compare(a: Rx, b: Rx, max_div: int = 40) -> List[Divergence]:
    """All points where L(a) and L(b) part ways, each with a shortest witness string."""
    classes = common_partition([a, b])
    la = Lang.from_rx(a, classes).minimize()
    lb = Lang.from_rx(b, classes).minimize()
    return la.divergences(lb, max_div)


def accepts(rx: Rx, s: str) -> bool:
    """Membership test (used only by the self-checks of this module's oracles)."""
    nfa = build(rx)
    cur = {nfa.start}

    def closure(states: Set[int]) -> Set[int]:
        stack = list(states)
        seen = set(stack)
        while stack:
            x = stack.pop()
            for y in nfa.eps.get(x, []):
                if y not in seen:
                    seen.add(y)
                    stack.append(y)
        return seen

    cur = closure(cur)
    for ch in s:
        nxt: Set[int] = set()
        for x in cur:
            for cs, y in nfa.tr.get(x, []):
                if cs.contains(ord(ch)):
                    nxt.add(y)
        cur = closure(nxt)
        if not cur:
            return False
    return bool(cur & nfa.accept)


def intersect_rx_lang(a: Rx, b: Rx) -> "LangDFA":
    raise NotImplementedError


class Lang:
    """A regular language as a complete DFA over a fixed partition; supports boolean ops."""

    def __init__(self, classes: List[CharSet], trans: List[List[int]], accepting: List[bool], start: int = 0) -> None:
        self.classes = classes
        self.trans = trans
        self.accepting = accepting
        self.start = start

    @staticmethod
    def from_rx(rx: Rx, classes: List[CharSet]) -> "Lang":
        d = DFA(build(rx), classes)
        # complete with a dead state
        dead = d.n
        trans = [[t if t >= 0 else dead for t in row] for row in d.trans] + [[dead] * len(classes)]
        return Lang(classes, trans, d.accepting + [False])

    def minimize(self) -> "Lang":
        """Moore partition refinement on the reachable part."""
        n = len(self.trans)
        # reachable
        reach = [self.start]
        seen = {self.start}
        for x in reach:
            for t in self.trans[x]:
                if t not in seen:
                    seen.add(t)
                    reach.append(t)
        block = {x: (1 if self.accepting[x] else 0) for x in reach}
        while True:
            sig: Dict[Any, int] = {}
            new = {}
            for x in reach:
                key = (block[x], tuple(block[t] for t in self.trans[x]))
                if key not in sig:
                    sig[key] = len(sig)
                new[x] = sig[key]
            if len(sig) == len(set(block.values())):
                block = new
                break
            block = new
        nb = len(set(block.values()))
        trans: List[List[int]] = [[] for _ in range(nb)]
        acc = [False] * nb
        done = set()
        for x in reach:
            b = block[x]
            if b in done:
                continue
            done.add(b)
            trans[b] = [block[t] for t in self.trans[x]]
            acc[b] = self.accepting[x]
        return Lang(self.classes, trans, acc, block[self.start])

    def complement(self) -> "Lang":
        return Lang(self.classes, self.trans, [not a for a in self.accepting], self.start)

    def product(self, o: "Lang", op: str) -> "Lang":
        index: Dict[Tuple[int, int], int] = {(self.start, o.start): 0}
        order = [(self.start, o.start)]
        trans: List[List[int]] = []
        acc: List[bool] = []
        i = 0
        while i < len(order):
            x, y = order[i]
            i += 1
            row = []
            for c in range(len(self.classes)):
                t = (self.trans[x][c], o.trans[y][c])
                if t not in index:
                    index[t] = len(order)
                    order.append(t)
                row.append(index[t])
            trans.append(row)
            a, b = self.accepting[x], o.accepting[y]
            acc.append((a and b) if op == "and" else (a or b) if op == "or" else (a and not b))
        return Lang(self.classes, trans, acc)

    def is_infinite(self) -> bool:
        """The language contains arbitrarily long strings: a cycle lies on a path from the start to an accepting state."""
        n = len(self.trans)
        fwd = {self.start}
        stack = [self.start]
        while stack:
            x = stack.pop()
            for t in self.trans[x]:
                if t not in fwd:
                    fwd.add(t)
                    stack.append(t)
        rev: Dict[int, Set[int]] = {}
        for x, row in enumerate(self.trans):
            for t in row:
                rev.setdefault(t, set()).add(x)
        bwd = {x for x in range(n) if self.accepting[x]}
        stack = list(bwd)
        while stack:
            x = stack.pop()
            for y in rev.get(x, ()):
                if y not in bwd:
                    bwd.add(y)
                    stack.append(y)
        live = fwd & bwd
        # cycle detection restricted to live states
        color: Dict[int, int] = {}
        for s0 in live:
            if s0 in color:
                continue
            st = [(s0, iter(set(self.trans[s0]) & live))]
            color[s0] = 1
            while st:
                x, itr = st[-1]
                nxt = next(itr, None)
                if nxt is None:
                    color[x] = 2
                    st.pop()
                elif color.get(nxt) == 1:
                    return True
                elif nxt not in color:
                    color[nxt] = 1
                    st.append((nxt, iter(set(self.trans[nxt]) & live)))
        return False

    def shortest(self) -> Optional[str]:
        from collections import deque

        prev: Dict[int, Tuple[int, int]] = {}
        dq = deque([self.start])
        seen = {self.start}
        while dq:
            x = dq.popleft()
            if self.accepting[x]:
                out = []
                while x != self.start:
                    p, c = prev[x]
                    out.append(chr(self.classes[c].sample()))
                    x = p
                return "".join(reversed(out))
            for c, t in enumerate(self.trans[x]):
                if t not in seen:
                    seen.add(t)
                    prev[t] = (x, c)
                    dq.append(t)
        return None

    def divergences(self, o: "Lang", max_div: int = 40) -> List[Divergence]:
        """Like compare() but on already-built complete DFAs over the same partition."""
        from collections import deque

        def alive(L: "Lang") -> List[bool]:
            rev: Dict[int, Set[int]] = {}
            for s, row in enumerate(L.trans):
                for t in row:
                    rev.setdefault(t, set()).add(s)
            good = [False] * len(L.trans)
            stack = [s for s in range(len(L.trans)) if L.accepting[s]]
            for s in stack:
                good[s] = True
            while stack:
                x = stack.pop()
                for y in rev.get(x, ()):
                    if not good[y]:
                        good[y] = True
                        stack.append(y)
            return good

        def completion(L: "Lang", s: int) -> List[int]:
            prev: Dict[int, Tuple[int, int]] = {}
            dq = deque([s])
            seen = {s}
            while dq:
                x = dq.popleft()
                if L.accepting[x]:
                    out: List[int] = []
                    while x != s:
                        p, c = prev[x]
                        out.append(c)
                        x = p
                    return out[::-1]
                for c, t in enumerate(L.trans[x]):
                    if t not in seen:
                        seen.add(t)
                        prev[t] = (x, c)
                        dq.append(t)
            return []

        A, B = self, o
        alive_a, alive_b = alive(A), alive(B)
        classes = self.classes
        out: List[Divergence] = []
        start = (A.start, B.start)
        prev: Dict[Tuple[int, int], Tuple[Tuple[int, int], int]] = {}
        seen = {start}
        dq = deque([start])

        def prefix_of(st: Tuple[int, int]) -> List[int]:
            path: List[int] = []
            while st != start:
                p, c = prev[st]
                path.append(c)
                st = p
            return path[::-1]

        def text(idx: List[int]) -> str:
            return "".join(chr(classes[c].sample()) for c in idx)

        while dq:
            sa, sb = dq.popleft()
            if A.accepting[sa] != B.accepting[sb]:
                p = prefix_of((sa, sb))
                out.append(Divergence("a-only" if A.accepting[sa] else "b-only", text(p), text(p), CharSet(), "accept"))
            for c in range(len(classes)):
                ta, tb = A.trans[sa][c], B.trans[sb][c]
                la, lb = alive_a[ta], alive_b[tb]
                if la and lb:
                    if (ta, tb) not in seen:
                        seen.add((ta, tb))
                        prev[(ta, tb)] = ((sa, sb), c)
                        dq.append((ta, tb))
                elif la != lb:
                    p = prefix_of((sa, sb))
                    side = "a-only" if la else "b-only"
                    comp = completion(A, ta) if la else completion(B, tb)
                    merged = False
                    for d in out:
                        if d.kind == "edge" and d.side == side and getattr(d, "_state", None) == (sa, sb, ta if la else tb):
                            d.cls = d.cls | classes[c]
                            merged = True
                            break
                    if not merged:
                        d = Divergence(side, text(p + [c] + comp), text(p), classes[c], "edge")
                        d._state = (sa, sb, ta if la else tb)  # type: ignore[attr-defined]
                        out.append(d)
            if len(out) > max_div:
                break
        return out


def common_partition(rxs: Sequence[Rx]) -> List[CharSet]:
    return partition(*[build(r) for r in rxs])
