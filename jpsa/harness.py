"""Helpers shared by the rules that drive the abstract interpreter."""

from __future__ import annotations

from typing import Any
from typing import Callable
from typing import Dict
from typing import List
from typing import Optional
from typing import Tuple

from .absctx import Ctx
from .absctx import explore
from .absint import AbsRaise
from .absint import Interp
from .absval import *  # noqa: F403
from .model import AnalysisError
from .model import Model

EXAMPLE = {
    "null": "null",
    "bool": "true",
    "int": "1",
    "float": "1.5",
    "str": '"a"',
    "list": "[1]",
    "dict": '{"k":1}',
}


class Run:
    """Outcome of one explored path."""

    def __init__(self, kind: str, value: Any, ctx: Ctx, interp: Interp, extra: Any = None) -> None:
        self.kind = kind  # 'return' | 'raise'
        self.value = value
        self.ctx = ctx
        self.interp = interp
        self.extra = extra

    def exc_name(self) -> str:
        v = self.value
        if isinstance(v, HostExc):
            return v.name
        if isinstance(v, Inst):
            return v.cls.name
        return repr(v)

    def site(self) -> Any:
        return self.extra


MONITOR: Optional[List[Any]] = None  # when a list: every non-JSONPathError raise seen by paths() is recorded


def is_jsonpath_error(exc: Any) -> bool:
    return isinstance(exc, Inst) and any(c.name == "JSONPathError" for c in exc.cls.mro())


def _scan_raises(obj: Any, out: List[Any], depth: int = 0, seen: Any = None) -> None:
    seen = seen if seen is not None else set()
    if depth > 6 or id(obj) in seen:
        return
    seen.add(id(obj))
    if isinstance(obj, AbsRaise):
        out.append((obj.exc, obj.site))
    elif isinstance(obj, Ev):
        if obj.kind == "raise":
            out.append((obj.value, obj.site))
        if obj.body:
            _scan_raises(obj.body, out, depth + 1, seen)
    elif isinstance(obj, (list, tuple)):
        for x in obj:
            _scan_raises(x, out, depth + 1, seen)
    elif isinstance(obj, Stream):
        _scan_raises(obj.events, out, depth + 1, seen)


def _monitor(run: "Run") -> None:
    if MONITOR is None:
        return
    found: List[Any] = []
    if run.kind == "raise":
        found.append((run.value, run.extra))
    else:
        _scan_raises(run.value, found)
    for exc, site in found:
        if is_jsonpath_error(exc):
            continue
        if isinstance(exc, HostExc) and exc.name in ("SystemExit", "StopIteration") and False:
            continue
        MONITOR.append({"exc": exc.name if isinstance(exc, HostExc) else describe(exc), "msg": getattr(exc, "msg", ""), "site": site, "entry": sorted(run.interp.touched)[:3], "world": {str(k): str(v) for k, v in list(run.ctx.world.items())[:12]}})


def paths(model: Model, body: Callable[[Interp], Any], limit: int = 20000) -> List[Run]:
    """Explore every path of body(interp); body returns the value to report."""
    out: List[Run] = []

    def run(ctx: Ctx) -> Run:
        it = Interp(model, ctx)
        try:
            v = body(it)
            return Run("return", v, ctx, it)
        except AbsRaise as r:
            return Run("raise", r.exc, ctx, it, r.site)

    for res, _ctx in explore(run, limit):
        out.append(res)
        _monitor(res)
    return out


def expr_stub(it: Interp, model: Model, result: Any, label: str = "expr", cls_qual: str = "filter_expressions.Expression") -> Inst:
    """An Expression (of the given class) whose evaluate(context) returns *result* (AV or callable)."""
    ci = model.cls(cls_qual)
    inst = it.harness_inst(ci, label)
    inst.attrs["token"] = it.new_opaque(f"{label}.token", model.cls("tokens.Token"))
    if ci.find_method("__init__") is not None and "query" in [a.arg for a in ci.find_method("__init__").node.args.args]:
        inst.attrs["query"] = it.new_opaque(f"{label}.query", model.cls("query.JSONPathQuery"))
    it.stubs[(inst.id, "evaluate")] = result
    return inst


def make_node(it: Interp, model: Model, value: Any, label: str = "node", location: Any = None, root: Any = None) -> Inst:
    ci = model.cls("node.JSONPathNode")
    n = it.harness_inst(ci, label)
    n.attrs["value"] = value
    n.attrs["location"] = location if location is not None else it.new_opaque(f"{label}.location")
    n.attrs["root"] = root if root is not None else it.new_sym(f"{label}.root")
    return n


def make_nodelist(it: Interp, model: Model, nodes: List[Any], label: str = "nodes") -> Inst:
    ci = model.cls("node.JSONPathNodeList")
    nl = it.harness_inst(ci, label)
    nl.seq = it.new_list(nodes)
    return nl


def nothing(it: Interp, model: Model) -> Any:
    return it.module_global(model.module("filter_expressions"), "NOTHING")


def world_get(ctx: Ctx, prefix: Tuple) -> Dict[Tuple, Any]:
    n = len(prefix)
    return {k: v for k, v in ctx.world.items() if isinstance(k, tuple) and k[:n] == prefix}


def rel_of(ctx: Ctx, a: Any, b: Any) -> Optional[str]:
    """World relation between two JSON value symbols (None if never consulted)."""

    def desc(x: Any) -> Tuple:
        if isinstance(x, Sym):
            return ("s", x.id)
        return ("c", repr(x.value))

    da, db = desc(a), desc(b)
    if da <= db:
        return ctx.world.get(("rel", da, db))
    r = ctx.world.get(("rel", db, da))
    if r is None:
        return None
    return {"lt": "gt", "eq": "eq", "gt": "lt"}[r]


def deep_of(ctx: Ctx, a: Sym, b: Sym) -> Optional[str]:
    ia, ib = sorted([a.id, b.id])
    return ctx.world.get(("deep", ia, ib))


def describe(v: Any) -> Any:
    """Stable, readable rendering of an abstract value (no ids)."""
    if isinstance(v, Const):
        return v.value if not isinstance(v.value, (bytes,)) else repr(v.value)
    if isinstance(v, Sym):
        return f"<{v.label}>"
    if isinstance(v, (SymStr, SymChar, Opaque)):
        return f"<{v.label}>"
    if isinstance(v, IntV):
        return f"int:{v.lin.show()}"
    if isinstance(v, Inst):
        if v.cls.name == "JSONPathNode":
            return {"node": {k: describe(x) for k, x in v.attrs.items()}}
        if v.cls.name == "Nothing":
            return "NOTHING"
        if v.seq is not None:
            return {v.cls.name: describe(v.seq)}
        return f"{v.cls.name}({v.label})"
    if isinstance(v, (PyList, PyTuple)):
        return [describe(x) for x in v.items]
    if isinstance(v, EnumV):
        return f"{v.cls.name}.{v.member}"
    if isinstance(v, HostExc):
        return f"{v.name}({v.msg})"
    if isinstance(v, Term):
        return f"{v.op}{tuple(describe(a) for a in v.args)!r}"
    return repr(v)


def real_env(it: Interp, model: Model, nondet: Any = None) -> Inst:
    """An environment built by interpreting JSONPathEnvironment.__init__ (registry, parser tables)."""
    from . import effects

    ci = model.cls("environment.JSONPathEnvironment")
    env = it.instantiate(ci, [], {}, None)
    # the environment may have compiled and evaluated any number of queries before the call under analysis:
    # whatever a non-constructor method writes on it or on its parser is unknown
    for obj, label in ((env, "env"), (env.attrs.get("parser"), "parser")):
        if isinstance(obj, Inst):
            it.havoc_written(obj, label)
    # the registry is a public attribute: a user (or a subclass's setup) may rebind it to another dict after the
    # parser was created, so nothing built earlier may keep relying on the object that was there at construction
    reg = env.attrs.get("function_extensions")
    if isinstance(reg, PyDict):
        fresh = PyDict(depth=it.loop_depth, oid=it.ctx.new_id())
        fresh.items.update(reg.items)
        fresh.keys_av.update(reg.keys_av)
        env.attrs["function_extensions"] = fresh
    return env


def make_token(it: Interp, model: Model, type_name: str, value: Any = None, label: str = "tok", query: Any = None) -> Inst:
    tci = model.cls("tokens.Token")
    tt = model.cls("tokens.TokenType")
    if type_name not in tt.attrs:
        raise AnalysisError(f"anchor vanished: TokenType.{type_name}")
    t = it.harness_inst(tci, label)
    t.attrs["type_"] = EnumV(tt, type_name)
    t.attrs["value"] = value if value is not None else it.new_str(f"{label}.value")
    t.attrs["index"] = it.new_int(f"{label}.index", 0)
    t.attrs["query"] = query if query is not None else it.new_str("query")
    t.attrs["message"] = Const(None)
    return t


def make_stream(it: Interp, model: Model, tokens: List[Any]) -> Inst:
    sci = model.cls("tokens.TokenStream")
    return it.instantiate(sci, [it.new_list(tokens)], {}, None)


def str_parts(av: Any) -> Optional[List[Any]]:
    """A string value as the flat list of its pieces (constants and non-constant parts), whatever mix of f-strings,
    concatenation and literals built it; None if it is not recognisably a string construction."""
    if isinstance(av, Const):
        return [av] if isinstance(av.value, str) else None
    if isinstance(av, Term) and av.op in ("fstr", "concat"):
        out: List[Any] = []
        for a in av.args:
            sub = str_parts(a)
            if sub is None:
                out.append(a)
            else:
                out.extend(sub)
        # merge adjacent constants
        merged: List[Any] = []
        for x in out:
            if merged and isinstance(x, Const) and isinstance(merged[-1], Const):
                merged[-1] = Const(merged[-1].value + x.value)
            else:
                merged.append(x)
        return merged
    if isinstance(av, (Term, SymStr, SymChar)):
        return [av]
    return None
