"""FilterSelector.resolve trace rule (shared by C02, C08, C14/C16, C17)."""

from __future__ import annotations

from typing import Any
from typing import Dict
from typing import List

from ..absctx import Unsupported
from ..absint import AbsRaise
from ..absint import Interp
from ..absval import *  # noqa: F403
from ..harness import describe
from ..harness import make_node
from ..harness import paths
from ..model import AnalysisError
from ..model import Model
from ..protocol import Report
from ._sel import *  # noqa: F403
from ._sel import Expect
from ._selrules import _report
from ._selrules import _world
from ._selrules import rng_problem


def check_filter_selector(model: Model, report: Report, rule: str, nondet: bool = False) -> None:
    ci = model.cls("selectors.FilterSelector")
    fn = ci.find_method("resolve")
    if fn is None:
        raise AnalysisError("anchor vanished: FilterSelector.resolve")
    ctx_cls = model.cls("filter_expressions.FilterContext")
    for kind in KINDS:
        outcomes = ["true", "false", "type-error"] if kind in ("list", "dict") else ["n/a"]
        for outcome in outcomes:
            seen_ctx: List[Any] = []

            def body(it: Interp, kind=kind, outcome=outcome) -> Any:
                env = make_env(it, model, nondet)
                sel = make_selector(it, model, "selectors.FilterSelector", env)
                contexts: List[Any] = []

                def evaluate(interp: Interp, args: List[Any], kwargs: Dict[str, Any]) -> Any:
                    contexts.append((args[0] if args else None, interp.loop_depth))
                    if outcome == "true":
                        return Const(True)
                    if outcome == "false":
                        return Const(False)
                    exc = interp.instantiate(model.cls("exceptions.JSONPathTypeError"), [Const("boom")], {}, None)
                    raise AbsRaise(exc, None)

                expr = it.harness_inst(model.cls("filter_expressions.Expression"), "filter-expression")
                expr.attrs["token"] = it.new_opaque("expr.token")
                it.stubs[(expr.id, "evaluate")] = evaluate
                sel.attrs["expression"] = expr
                v = it.new_sym("V", [kind])
                node = make_node(it, model, v, "node")
                ev, term = run_trace(it, fn, [sel, node], sel)
                return ev, term, node, v, sel, contexts, it

            cell = f"filter:{kind}:{outcome}:{'nondet' if nondet else 'det'}"
            try:
                runs = paths(model, body)
            except Unsupported as err:
                report.undecided(rule, fn.qualname, f"{cell}: {err}")
                continue
            good = True
            for run in runs:
                x = Expect()
                if run.kind == "raise":
                    x.bad(f"raises {run.exc_name()} outside the iterator")
                else:
                    ev, term, node, v, sel, contexts, it = run.value
                    _expect_filter(x, ev, term, node, v, sel, contexts, kind, outcome, nondet, ctx_cls)
                    if not nondet and not x.problem:
                        rp = rng_problem(run)
                        if rp:
                            x.bad(rp)
                good &= _report(report, rule, fn, cell, x, run, {"world": _world(run)})
            if good:
                report.ok(rule, fn.qualname, cell, detail={"paths": len(runs)})
    report.touched(fn.qualname)


def _expect_filter(x: Expect, ev: List[Ev], term: Any, node: Inst, v: Sym, sel: Inst, contexts: List[Any], kind: str, outcome: str, nondet: bool, ctx_cls: Any) -> None:
    if kind not in ("list", "dict"):
        e = expect_empty(ev, term, f"filter selector applied to a {kind} value")
        x.problem, x.ev = e.problem, e.ev
        if contexts and not x.problem:
            x.bad("evaluates the filter expression although the node is not an array or object")
        return
    if term is not None:
        x.bad(f"raises {describe(term.exc)} outside the per-child loop")
        return
    eff = effects_problem(ev)
    if eff:
        x.bad(eff[0], eff[1])
        return
    evs = [e for e in ev if e.kind == "foreach"]
    other = [e for e in ev if e.kind != "foreach"]
    if other or len(evs) != 1:
        x.bad(f"trace is {show_trace(ev)}, expected one loop over the children", (other or evs or [None])[0])
        return
    fe = evs[0]
    if base_of(fe.src) is not v:
        x.bad(f"iterates {fe.src!r}, expected the node's own value", fe)
        return
    op = order_problem(fe.src, allow_shuffle=(nondet and kind == "dict"))
    if op:
        x.bad(op, fe)
        return
    from ._sel import _all_orders

    if nondet and kind == "dict" and "shuffled" not in _all_orders(fe.src):
        x.bad("object members are not shuffled in nondeterministic mode", fe)
        return
    if "shuffled" in _all_orders(fe.src) and not fe.src.fresh:
        x.bad("shuffles a list that is not a fresh copy", fe)
        return
    key, val, pp = elem_pairing(fe.elem)
    if pp:
        x.bad(pp, fe)
        return
    if key is None:
        x.undecided = f"iteration view {fe.src.view} gives no (key, value) pairing"
        return
    # context construction: exactly one evaluation per child, on a fresh context
    if len(contexts) != 1:
        x.bad(f"the filter expression is evaluated {len(contexts)} times per child, expected once", fe)
        return
    c, depth_at_eval = contexts[0]
    if not (isinstance(c, Inst) and c.cls.is_subclass_of(ctx_cls)):
        x.bad(f"the expression is evaluated on {describe(c)!r}, expected a FilterContext", fe)
        return
    if c.depth < 1:
        x.bad("the filter context is created outside the per-child loop (shared between children)", fe)
        return
    if c.attrs.get("current") is not val:
        x.bad(f"context.current is {describe(c.attrs.get('current'))!r}, expected the child being tested (identity)", fe)
        return
    if c.attrs.get("root") is not node.attrs.get("root"):
        x.bad(f"context.root is {describe(c.attrs.get('root'))!r}, expected the root of the query argument (node.root)", fe)
        return
    if c.attrs.get("env") is not sel.attrs.get("env"):
        x.bad("context.env is not the selector's environment", fe)
        return
    body = [e for e in fe.body if not (e.kind == "foreach" and not e.body)]
    if outcome == "true":
        if len(body) != 1 or body[0].kind != "yield":
            x.bad(f"for a true filter the body is {show_trace(body)}, expected exactly the child", body[0] if body else fe)
            return
        p = child_problem(body[0].value, node, val, key)
        if p:
            x.bad(p, body[0])
    elif outcome == "false":
        if body:
            x.bad(f"for a false filter the body is {show_trace(body)}, expected nothing", body[0])
    else:
        rs = [e for e in body if e.kind == "raise"]
        if len(body) != 1 or not rs:
            x.bad(f"a JSONPathTypeError from the expression is not propagated: {show_trace(body)}", body[0] if body else fe)
            return
        exc = rs[0].value
        if not (isinstance(exc, Inst) and exc.cls.name == "JSONPathTypeError"):
            x.bad(f"the expression's JSONPathTypeError is replaced by {describe(exc)!r}", rs[0])
