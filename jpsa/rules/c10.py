"""C10 — length/count/value and the function-call type conversions."""

from __future__ import annotations

from typing import Any
from typing import Dict
from typing import List
from typing import Optional

from ..absctx import Unsupported
from ..absint import Interp
from ..absval import *  # noqa: F403
from ..harness import describe
from ..harness import expr_stub
from ..harness import make_node
from ..harness import make_nodelist
from ..harness import nothing
from ..harness import paths
from ..harness import real_env
from ..model import AnalysisError
from ..model import Model
from ..numeric import Lin
from ..protocol import Report
from . import c02
from ._sel import KINDS

FE = "filter_expressions."
RFC_SIGNATURES = {
    "length": (["VALUE"], "VALUE"),
    "count": (["NODES"], "VALUE"),
    "match": (["VALUE", "VALUE"], "LOGICAL"),
    "search": (["VALUE", "VALUE"], "LOGICAL"),
    "value": (["NODES"], "VALUE"),
}


def etype(model: Model, name: str) -> EnumV:
    ci = model.cls("function_extensions.filter_function.ExpressionType")
    if name not in ci.attrs:
        raise AnalysisError(f"anchor vanished: ExpressionType.{name}")
    return EnumV(ci, name)


def probe_function(it: Interp, model: Model, arg_types: List[str], ret: str, calls: List[Any], result: Any = None) -> Inst:
    """A user-registered function with a declared signature that records what it is called with."""
    ci = model.cls("function_extensions.filter_function.FilterFunction")
    f = it.harness_inst(ci, "probe")
    f.attrs["arg_types"] = it.new_list([etype(model, t) for t in arg_types])
    f.attrs["return_type"] = etype(model, ret)

    def call(interp: Interp, args: List[Any], kwargs: Dict[str, Any]) -> Any:
        calls.append(list(args))
        return result if result is not None else interp.new_opaque("probe-result")

    it.stubs[(f.id, "__call__")] = call
    return f


def check_signatures(model: Model, report: Report, rule: str) -> None:
    def body(it: Interp) -> Any:
        env = real_env(it, model)
        reg = env.attrs.get("function_extensions")
        out = {}
        if not isinstance(reg, PyDict):
            raise Unsupported("function registry is not a dict")
        for hk, f in reg.items.items():
            name = reg.keys_av[hk].value
            at = it.getattr(f, "arg_types")
            rt = it.getattr(f, "return_type")
            out[name] = ([a.member for a in it.concrete_items(at, None)], rt.member if isinstance(rt, EnumV) else repr(rt), f.cls.qualname)
        return out

    runs = paths(model, body)
    if len(runs) != 1 or runs[0].kind != "return":
        raise AnalysisError("cannot evaluate the function registry")
    reg = runs[0].value
    for name, (args, ret) in RFC_SIGNATURES.items():
        if name not in reg:
            report.fail(rule, "environment.JSONPathEnvironment.setup_function_extensions", f"missing:{name}", f"built-in function {name}() is not registered")
            continue
        got = reg[name]
        if got[0] != args or got[1] != ret:
            report.fail(rule, got[2], f"signature:{name}", f"{name}() is declared {got[0]} -> {got[1]}, RFC 9535 says {args} -> {ret}")
        else:
            report.ok(rule, got[2], f"signature {name}{args} -> {ret}")
    report.touched("environment.JSONPathEnvironment.setup_function_extensions")


ARG_CELLS = ["nothing", "nl0", "nlmany", "true", "false"] + [f"value:{k}" for k in KINDS] + [f"nl1:{k}" for k in KINDS]


def well_typed(decl: str, cell: str) -> bool:
    if decl == "VALUE":
        return cell.startswith(("value:", "nl1:")) or cell in ("nothing", "nl0")
    if decl == "NODES":
        return cell.startswith("nl")
    return cell in ("true", "false") or cell.startswith("nl")


def check_conversions(model: Model, report: Report, rule: str, only_decl: Any = None) -> None:
    ci = model.cls(FE + "FunctionExtension")
    fn = ci.find_method("evaluate")
    if fn is None:
        raise AnalysisError("anchor vanished: FunctionExtension.evaluate")
    POSITIONS = ["only"] + [f"{w}-with-{o}" for w in ("first", "second") for o in ("VALUE", "LOGICAL", "NODES")]
    for decl, cell, pos in [(d, c, p) for d in ("VALUE", "LOGICAL", "NODES") for c in ARG_CELLS for p in POSITIONS]:
        if only_decl is not None and decl != only_decl:
            continue
        if True:
            if not well_typed(decl, cell):
                continue

            def body(it: Interp, decl=decl, cell=cell, pos=pos) -> Any:
                env = it.harness_inst(model.cls("environment.JSONPathEnvironment"), "env")
                calls: List[Any] = []
                marker = it.new_opaque("function-result")
                where, _, other_type = pos.partition("-with-")
                sig = [decl] if where == "only" else ([decl, other_type] if where == "first" else [other_type, decl])
                f = probe_function(it, model, sig, "VALUE", calls, marker)
                reg = PyDict(oid=it.ctx.new_id())
                from ..absint import hkey

                reg.items[hkey(Const("probe"))] = f
                reg.keys_av[hkey(Const("probe"))] = Const("probe")
                env.attrs["function_extensions"] = reg
                inner = None
                if cell == "nothing":
                    argv = nothing(it, model)
                elif cell in ("true", "false"):
                    argv = Const(cell == "true")
                elif cell == "nl0":
                    argv = make_nodelist(it, model, [], "arg")
                elif cell == "nlmany":
                    argv = c02.abstract_nl(it, model, "arg", 2, None)
                else:
                    k = cell.split(":")[1]
                    inner = it.new_sym("arg.value", [k])
                    argv = inner if cell.startswith("value:") else make_nodelist(it, model, [make_node(it, model, inner, "arg")], "arg")
                inst = it.harness_inst(ci, "call")
                inst.attrs["token"] = it.new_opaque("token")
                inst.attrs["name"] = Const("probe")
                if other_type == "NODES":
                    other = c02.abstract_nl(it, model, "other-arg", 2, None)
                elif other_type == "LOGICAL":
                    other = Const(True)
                else:
                    other = it.new_sym("other-arg", ["int"])
                mine = expr_stub(it, model, argv, "argexpr")
                oth = expr_stub(it, model, other, "otherexpr")
                inst.attrs["args"] = it.new_list([mine] if where == "only" else ([mine, oth] if where == "first" else [oth, mine]))
                c = it.harness_inst(model.cls(FE + "FilterContext"), "context")
                c.attrs.update({"env": env, "current": it.new_sym("current"), "root": it.new_sym("root")})
                r = it.call_function(fn, [inst, c], {}, None, self_av=inst)
                return r, calls, argv, inner, marker, it

            key = f"convert:{decl}<-{cell}" + ("" if pos == "only" else f":{pos}")
            try:
                runs = paths(model, body)
            except Unsupported as err:
                report.undecided(rule, fn.qualname, f"{key}: {err}")
                continue
            probs: Dict[str, str] = {}
            for run in runs:
                if run.kind == "raise":
                    probs["raises"] = f"raises {run.exc_name()}"
                    continue
                r, calls, argv, inner, marker, it = run.value
                if r is not marker:
                    probs["result"] = f"the call evaluates to {describe(r)!r}, expected the function's own result unchanged"
                where = pos.partition("-with-")[0]
                n_expected = 1 if where == "only" else 2
                if len(calls) != 1 or len(calls[0]) != n_expected:
                    probs["call-count"] = f"the function is called {len(calls)} times / with {[len(c) for c in calls]} arguments"
                    continue
                got = calls[0][1 if where == "second" else 0]
                NOTHING = nothing(it, model)
                if decl == "NODES":
                    ok = got is argv
                    want = "the nodelist itself"
                elif decl == "VALUE":
                    if cell in ("nothing", "nl0"):
                        ok, want = got is NOTHING, "Nothing"
                    else:
                        ok, want = got is inner, "the (single selected) value itself"
                else:
                    if cell in ("true", "false"):
                        ok, want = isinstance(got, Const) and got.value is (cell == "true"), cell
                    else:
                        w = cell != "nl0"
                        ok, want = isinstance(got, Const) and got.value is w, f"{w} (a nodelist converts to 'non-empty')"
                if not ok:
                    probs["argument"] = f"a {decl}Type parameter receives {describe(got)!r} for argument {cell}, expected {want}"
            if probs:
                for pk, msg in probs.items():
                    report.fail(rule, fn.qualname, f"{key}:{pk}", msg, file=fn.file, line=fn.line, what=key)
            else:
                report.ok(rule, fn.qualname, key, detail={"paths": len(runs)})
    report.touched(fn.qualname)


def check_bodies(model: Model, report: Report, rule: str) -> None:
    # length
    lc = model.cls("function_extensions.length.Length")
    lf = lc.find_method("__call__")
    cells = ["nothing"] + KINDS
    for cell in cells:

        def body(it: Interp, cell=cell) -> Any:
            f = it.harness_inst(lc, "length")
            arg = nothing(it, model) if cell == "nothing" else it.new_sym("arg", [cell])
            r = it.call_function(lf, [f, arg], {}, None, self_av=f)
            return r, arg, it

        key = f"length:{cell}"
        try:
            runs = paths(model, body)
        except Unsupported as err:
            report.undecided(rule, lf.qualname, f"{key}: {err}")
            continue
        good = True
        for run in runs:
            msg = None
            if run.kind == "raise":
                msg = f"length() raises {run.exc_name()} for a {cell} argument"
            else:
                r, arg, it = run.value
                if cell in ("str", "list", "dict"):
                    lv = it.host.len_var(("sym", arg.id), arg.label)
                    if not (isinstance(r, IntV) and r.lin == Lin.var(lv)):
                        msg = f"length() of a {cell} returns {describe(r)!r}, expected its number of {'code points' if cell == 'str' else 'elements' if cell == 'list' else 'members'} (len)"
                elif r is not nothing(it, model):
                    msg = f"length() of {cell} returns {describe(r)!r}, expected Nothing"
            if msg:
                report.fail(rule, lf.qualname, key, msg, file=lf.file, line=lf.line)
                good = False
        if good:
            report.ok(rule, lf.qualname, key)
    # count / value
    for cname, mod in (("Count", "count"), ("Value", "value")):
        ci = model.cls(f"function_extensions.{mod}.{cname}")
        f_ = ci.find_method("__call__")
        for cell in ("nl0", "nl1", "nlmany"):

            def body2(it: Interp, cell=cell, ci=ci, f_=f_) -> Any:
                f = it.harness_inst(ci, cname)
                inner = it.new_sym("node-value")
                if cell == "nl0":
                    nl = make_nodelist(it, model, [], "arg")
                elif cell == "nl1":
                    nl = make_nodelist(it, model, [make_node(it, model, inner, "arg")], "arg")
                else:
                    nl = c02.abstract_nl(it, model, "arg", 2, None)
                r = it.call_function(f_, [f, nl], {}, None, self_av=f)
                return r, nl, inner, it

            key = f"{mod}:{cell}"
            try:
                runs = paths(model, body2)
            except Unsupported as err:
                report.undecided(rule, f_.qualname, f"{key}: {err}")
                continue
            good = True
            for run in runs:
                msg = None
                if run.kind == "raise":
                    msg = f"{mod}() raises {run.exc_name()} on {cell}"
                else:
                    r, nl, inner, it = run.value
                    if mod == "count":
                        want = {"nl0": 0, "nl1": 1}.get(cell)
                        if want is not None:
                            if not (isinstance(r, Const) and r.value == want and not isinstance(r.value, bool)):
                                msg = f"count() of {cell} returns {describe(r)!r}, expected {want}"
                        else:
                            ln = nl.attrs["__len__"]
                            if not (isinstance(r, IntV) and r.lin == ln.lin):
                                msg = f"count() of a nodelist returns {describe(r)!r}, expected its number of nodes"
                    else:
                        if cell == "nl1":
                            if r is not inner:
                                msg = f"value() of a single node returns {describe(r)!r}, expected the node's value"
                        elif r is not nothing(it, model):
                            msg = f"value() of {cell} returns {describe(r)!r}, expected Nothing"
                if msg:
                    report.fail(rule, f_.qualname, key, msg, file=f_.file, line=f_.line)
                    good = False
            if good:
                report.ok(rule, f_.qualname, key)
        report.touched(f_.qualname)
    report.touched(lf.qualname)


def check(model: Model, report: Report) -> None:
    report.rule("R10.1", "signatures of the five registered built-ins equal RFC 9535 2.4.4-2.4.8")
    report.rule("R10.2", "argument conversion per declared parameter type x argument shape; result passed through unchanged")
    report.rule("R10.3", "length/count/value bodies over every kind, Nothing and every nodelist size; never raise")
    report.rule("R10.4", "embedded queries (the only NodesType arguments besides NodesType calls) evaluate to a nodelist on every path")
    report.assumptions += ["A1: len(str) counts Unicode scalar values; A4: user functions honour their declared types"]
    report.not_decided += ["use of the result according to the declared result type beyond C02/C05/C06 rules", "match/search bodies (C11)"]
    check_signatures(model, report, "R10.1")
    check_conversions(model, report, "R10.2")
    check_bodies(model, report, "R10.3")
    c02.check_scoping(model, report, "R10.4")
    report.extra["explanation"] = "C10: registry evaluated from JSONPathEnvironment.__init__; conversion table via a probe function with declared types; built-in bodies over kinds."
