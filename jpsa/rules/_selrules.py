"""Selector-level trace rules shared by C01 / C07 / C08 / C17."""

from __future__ import annotations

from typing import Any
from typing import Dict
from typing import List
from typing import Optional
from typing import Tuple

from ..absctx import Unsupported
from ..absint import Interp
from ..absval import *  # noqa: F403
from ..harness import describe
from ..harness import make_node
from ..harness import paths
from ..model import Model
from ..numeric import Lin
from ..protocol import Report
from ._sel import *  # noqa: F403
from ._sel import Expect


def _report(report: Report, rule: str, fn: Any, cell: str, x: Expect, run: Any = None, witness: Any = None) -> bool:
    site = fn.qualname
    if x.problem:
        f, l = ev_site(x.ev, (fn.file, fn.line))
        report.fail(rule, site, cell, x.problem, file=f, line=l, witness=witness, what=cell)
        return False
    if x.undecided:
        report.undecided(rule, site, f"{cell}: {x.undecided}")
        return False
    return True


def rng_problem(run: Any) -> Optional[str]:
    """A random.* call on a path where env.nondeterministic is false."""
    for e in run.ctx.log:
        if isinstance(e, tuple) and e and e[0] == "extcall" and str(e[1]).startswith("random."):
            site = e[-1]
            return f"{e[1]} is called although env.nondeterministic is false (at {site[0]}:{site[1]})"
    return None


def _world(run: Any) -> Dict[str, str]:
    return {str(k): str(v) for k, v in run.ctx.world.items()}


# ------------------------------------------------------------------ wildcard
def check_wildcard(model: Model, report: Report, rule: str, nondet: bool = False) -> None:
    ci = model.cls("selectors.WildcardSelector")
    fn = ci.find_method("resolve")
    for kind in KINDS:
        holder: Dict[str, Any] = {}

        def body(it: Interp, kind=kind) -> Any:
            env = make_env(it, model, nondet)
            sel = make_selector(it, model, "selectors.WildcardSelector", env)
            v = it.new_sym("V", [kind])
            node = make_node(it, model, v, "node")
            ev, term = run_trace(it, fn, [sel, node], sel)
            return (ev, term, node, v)

        cell = f"wildcard:{kind}:{'nondet' if nondet else 'det'}"
        try:
            runs = paths(model, body)
        except Unsupported as err:
            report.undecided(rule, fn.qualname, f"{cell}: {err}")
            continue
        good = True
        for run in runs:
            if run.kind == "raise":
                report.fail(rule, fn.qualname, cell + ":raises", f"raises {run.exc_name()} outside the iterator", file=fn.file, line=fn.line)
                good = False
                continue
            ev, term, node, v = run.value
            if kind == "dict":
                x = expect_foreach_children(ev, term, node, v, ("items",), allow_shuffle=nondet, require_shuffle=nondet)
            elif kind == "list":
                x = expect_foreach_children(ev, term, node, v, ("enumerate",))
            else:
                x = expect_empty(ev, term, f"wildcard applied to a {kind} value")
            if not nondet:
                rp = rng_problem(run)
                if rp:
                    x = Expect().bad(rp)
            good &= _report(report, rule, fn, cell, x, run, {"trace": show_trace(ev), "world": _world(run)})
        if good:
            report.ok(rule, fn.qualname, cell, detail={"paths": len(runs)})
        report.touched(fn.qualname)


# ---------------------------------------------------------------------- name
def check_name(model: Model, report: Report, rule: str) -> None:
    ci = model.cls("selectors.NameSelector")
    fn = ci.find_method("resolve")
    for kind in KINDS:
        for present in ([True, False] if kind == "dict" else [None]):

            def body(it: Interp, kind=kind, present=present) -> Any:
                env = make_env(it, model, False)
                sel = make_selector(it, model, "selectors.NameSelector", env)
                v = it.new_sym("V", [kind])
                node = make_node(it, model, v, "node")
                if present is not None:
                    it.ctx.world[("kind", v.id)] = kind
                    it.ctx.world[("haskey", v.id, it.host.key_desc(sel.attrs["name"]))] = present
                ev, term = run_trace(it, fn, [sel, node], sel)
                return (ev, term, node, v, sel, it)

            cell = f"name:{kind}" + ("" if present is None else (":present" if present else ":absent"))
            try:
                runs = paths(model, body)
            except Unsupported as err:
                report.undecided(rule, fn.qualname, f"{cell}: {err}")
                continue
            good = True
            for run in runs:
                if run.kind == "raise":
                    report.fail(rule, fn.qualname, cell + ":raises", f"raises {run.exc_name()}", file=fn.file, line=fn.line)
                    good = False
                    continue
                ev, term, node, v, sel, it = run.value
                if kind == "dict" and present:
                    member = it.host.member(v, sel.attrs["name"])
                    # the member value may be of any kind (null, false, 0, "" included): every
                    # path, whatever kind it assumed for the member, must yield it
                    x = expect_single_child(ev, term, node, member, sel.attrs["name"])
                elif kind == "dict":
                    x = expect_empty(ev, term, "name not present in the object")
                else:
                    x = expect_empty(ev, term, f"name selector applied to a {kind} value")
                good &= _report(report, rule, fn, cell, x, run, {"trace": show_trace(ev), "world": _world(run)})
            if good:
                report.ok(rule, fn.qualname, cell, detail={"paths": len(runs)})
            report.touched(fn.qualname)


# --------------------------------------------------------------------- index
INDEX_REGIONS = {
    # name: (constraints on (i, n) as list of Lin<=0 builders, selected?, key)
    "nonneg-inbounds": "0 <= i < n",
    "nonneg-oob": "i >= n",
    "neg-inbounds": "-n <= i <= -1",
    "neg-oob": "i < -n",
}


def check_index(model: Model, report: Report, rule: str) -> None:
    ci = model.cls("selectors.IndexSelector")
    fn = ci.find_method("resolve")
    for kind in KINDS:
        regions = list(INDEX_REGIONS) if kind == "list" else [None]
        for region in regions:

            def body(it: Interp, kind=kind, region=region) -> Any:
                env = make_env(it, model, False)
                sel = make_selector(it, model, "selectors.IndexSelector", env)
                v = it.new_sym("V", [kind])
                node = make_node(it, model, v, "node")
                i = sel.attrs["index"].lin
                if region is not None:
                    it.ctx.world[("kind", v.id)] = kind
                    n = Lin.var(it.host.len_var(("sym", v.id), v.label))
                    c = it.ctx
                    if region == "nonneg-inbounds":
                        c.assume_le0(-i)
                        c.assume_le0(i - n + Lin.k(1))
                    elif region == "nonneg-oob":
                        c.assume_le0(n - i)
                    elif region == "neg-inbounds":
                        c.assume_le0(i + Lin.k(1))
                        c.assume_le0(-i - n)
                    else:
                        c.assume_le0(i + n + Lin.k(1))
                else:
                    n = None
                ev, term = run_trace(it, fn, [sel, node], sel)
                return (ev, term, node, v, sel, it, n)

            cell = f"index:{kind}" + (f":{region}" if region else "")
            try:
                runs = paths(model, body)
            except Unsupported as err:
                report.undecided(rule, fn.qualname, f"{cell}: {err}")
                continue
            good = True
            for run in runs:
                if run.kind == "raise":
                    report.fail(rule, fn.qualname, cell + ":raises", f"raises {run.exc_name()}", file=fn.file, line=fn.line)
                    good = False
                    continue
                ev, term, node, v, sel, it, n = run.value
                i = sel.attrs["index"].lin
                if region == "nonneg-inbounds":
                    x = expect_single_child(ev, term, node, it.host.list_item(v, ("l", i.key())), IntV(i))
                elif region == "neg-inbounds":
                    x = expect_single_child(ev, term, node, it.host.list_item(v, ("l", (i + n).key())), IntV(i + n))
                elif region is not None:
                    x = expect_empty(ev, term, f"index out of range ({INDEX_REGIONS[region]})")
                else:
                    x = expect_empty(ev, term, f"index selector applied to a {kind} value")
                good &= _report(report, rule, fn, cell, x, run, {"trace": show_trace(ev), "region": INDEX_REGIONS.get(region or "", ""), "world": _world(run)})
            if good:
                report.ok(rule, fn.qualname, cell, detail={"paths": len(runs), "region": INDEX_REGIONS.get(region or "", "")})
            report.touched(fn.qualname)


# --------------------------------------------------------------------- slice
def check_slice(model: Model, report: Report, rule: str) -> None:
    ci = model.cls("selectors.SliceSelector")
    fn = ci.find_method("resolve")
    step_cells = ["none", "zero", "positive", "negative"]
    for kind in KINDS:
        for step in (step_cells if kind == "list" else ["none"]):

            def body(it: Interp, kind=kind, step=step) -> Any:
                env = make_env(it, model, False)
                # the components are fixed before the selector is built, so that whatever its constructor derives
                # from them is consistent with what resolve() later sees: start / stop absent or any integer
                if step == "none":
                    stv: Any = Const(None)
                else:
                    stv = it.new_int("step")
                    if step == "zero":
                        it.ctx.assume_le0(stv.lin)
                        it.ctx.assume_le0(-stv.lin)
                    elif step == "positive":
                        it.ctx.assume_le0(Lin.k(1) - stv.lin)
                    else:
                        it.ctx.assume_le0(stv.lin + Lin.k(1))
                if kind == "list":
                    startv = Const(None) if it.ctx.choose(("slice-start-absent",), [True, False]) else it.new_int("start")
                    stopv = Const(None) if it.ctx.choose(("slice-stop-absent",), [True, False]) else it.new_int("stop")
                else:
                    startv, stopv = it.new_opaque("start"), it.new_opaque("stop")
                sel = make_selector(it, model, "selectors.SliceSelector", env, slice_parts=(startv, stopv, stv))
                sl: SliceV = sel.attrs["slice"]
                v = it.new_sym("V", [kind])
                node = make_node(it, model, v, "node")
                ev, term = run_trace(it, fn, [sel, node], sel)
                return (ev, term, node, v, sel, it)

            cell = f"slice:{kind}" + (f":step-{step}" if kind == "list" else "")
            try:
                runs = paths(model, body)
            except Unsupported as err:
                report.undecided(rule, fn.qualname, f"{cell}: {err}")
                continue
            good = True
            for run in runs:
                if run.kind == "raise":
                    report.fail(rule, fn.qualname, cell + ":raises", f"raises {run.exc_name()}", file=fn.file, line=fn.line)
                    good = False
                    continue
                ev, term, node, v, sel, it = run.value
                if kind != "list":
                    x = expect_empty(ev, term, f"slice selector applied to a {kind} value")
                elif step == "zero":
                    x = expect_empty(ev, term, "step 0 selects nothing")
                else:
                    x = expect_slice_loop(ev, term, node, v, sel.attrs["slice"], it)
                good &= _report(report, rule, fn, cell, x, run, {"trace": show_trace(ev), "world": _world(run)})
            if good:
                report.ok(rule, fn.qualname, cell, detail={"paths": len(runs)})
            report.touched(fn.qualname)


def expect_slice_loop(events: List[Ev], terminal: Any, parent: Inst, container: Sym, sl: SliceV, it: Interp) -> Expect:
    """zip(range(*S.indices(len(V))), V[S]) with S the selector's slice and V the node's value (A2)."""
    x = Expect()
    if terminal is not None:
        return x.bad(f"raises {describe(terminal.exc)}")
    eff = effects_problem(events)
    if eff:
        return x.bad(eff[0], eff[1])
    evs = strip_empty_loops(events)
    if len(evs) != 1 or evs[0].kind != "foreach":
        return x.bad(f"trace is {show_trace(evs)}, expected one loop over the sliced array", evs[0] if evs else None)
    fe = evs[0]
    src: Source = fe.src
    if src.view == "range" and isinstance(src.base, tuple) and len(src.base) == 3:
        return _expect_index_loop(x, fe, src, parent, container, sl, it)
    if src.view == "enumerate" and isinstance(src.base, Source) and src.base.view == "slice":
        return x.bad("location keys are positions within the slice (enumerate over list[slice]), not the elements' array indices", fe)
    if src.view != "zip" or not isinstance(src.base, tuple) or len(src.base) != 2:
        x.undecided = f"slice selection is not expressed as zip(range(*slice.indices(len)), list[slice]) but as {src!r}; cannot be decided under assumption A2"
        # a host slice of the document with another slice object is still a definite error
        for s in _sources(src):
            if s.view == "slice" and s.extra is not sl and base_of(s) is container:
                return x.bad(f"slices the array with {s.extra!r}, not with the selector's slice", fe)
        return x
    rng, els = src.base
    if src.order or rng.order or els.order:
        return x.bad(f"iteration order is changed ({src.order or rng.order or els.order})", fe)
    # elements: V[S]
    if els.view != "slice" or els.base is not container:
        return x.bad(f"elements come from {els!r}, expected node.value[self.slice]", fe)
    if els.extra is not sl:
        return x.bad(f"elements are sliced with {els.extra!r}, not with the selector's own slice object", fe)
    # indices: range(*S.indices(len(V)))
    if rng.view != "range" or len(rng.base) != 3:
        return x.bad(f"indices come from {rng!r}, expected range(*self.slice.indices(len(node.value)))", fe)
    terms = set()
    for k, a in enumerate(rng.base):
        if not (isinstance(a, Term) and a.op == "getitem" and isinstance(a.args[1], Const) and a.args[1].value == k):
            return x.bad(f"range argument {k} is {a!r}, expected component {k} of slice.indices()", fe)
        terms.add(id(a.args[0]))
        si = a.args[0]
    if len(terms) != 1 or not (isinstance(si, Term) and si.op == "slice_indices"):
        return x.bad("range arguments do not come from one slice.indices() call", fe)
    s_used, n_used = si.args
    if s_used is not sl:
        return x.bad(f"indices are computed from {s_used!r}, not from the selector's own slice", fe)
    n = Lin.var(it.host.len_var(("sym", container.id), container.label))
    if not (isinstance(n_used, IntV) and n_used.lin == n):
        return x.bad(f"slice.indices() is given {describe(n_used)!r}, expected len(node.value)", fe)
    # body: yield child(element, idx) with (idx, element) the zip pair
    el: Elem = fe.elem
    tgt = el.target
    if not (isinstance(tgt, PyTuple) and len(tgt.items) == 2):
        return x.bad("zip element is not a pair", fe)
    idx, val = tgt.items
    body = strip_empty_loops(fe.body)
    if len(body) != 1 or body[0].kind != "yield":
        return x.bad(f"loop body trace is {show_trace(body)}, expected exactly one child per element", body[0] if body else fe)
    p = child_problem(body[0].value, parent, val, idx)
    if p:
        return x.bad(p, body[0])
    return x


def _sources(src: Any) -> List[Source]:
    out: List[Source] = []
    if isinstance(src, Source):
        out.append(src)
        if isinstance(src.base, Source):
            out += _sources(src.base)
        elif isinstance(src.base, tuple):
            for b in src.base:
                out += _sources(b)
    return out


def _expect_index_loop(x: Expect, fe: Ev, src: Source, parent: Inst, container: Sym, sl: SliceV, it: Interp) -> Expect:
    """for idx in range(*S2.indices(len(V))): yield child(V[idx], idx) with S2 componentwise the selector's slice."""
    terms = []
    for k, a in enumerate(src.base):
        if not (isinstance(a, Term) and a.op == "getitem" and isinstance(a.args[1], Const) and a.args[1].value == k):
            x.undecided = f"range arguments {src.base!r} are not the components of one slice.indices() call"
            return x
        terms.append(a.args[0])
    si = terms[0]
    if not (isinstance(si, Term) and si.op == "slice_indices" and all(t is si for t in terms)):
        x.undecided = "range arguments do not come from one slice.indices() call"
        return x
    s2, n_used = si.args
    if src.order:
        return x.bad(f"iteration order is changed ({src.order})", fe)
    if not isinstance(s2, SliceV):
        return x.bad(f"indices are computed from {s2!r}, not from a slice", fe)
    for comp in ("start", "stop", "step"):
        a, b = getattr(s2, comp), getattr(sl, comp)
        same = a is b or (isinstance(a, IntV) and isinstance(b, IntV) and a.lin == b.lin) or (isinstance(a, Const) and isinstance(b, Const) and a.value == b.value and type(a.value) is type(b.value))
        if not same:
            return x.bad(f"the slice used for iteration has {comp}={describe(a)!r} where the selector's slice has {describe(b)!r} (e.g. an explicit 0 treated as omitted)", fe)
    n = Lin.var(it.host.len_var(("sym", container.id), container.label))
    if not (isinstance(n_used, IntV) and n_used.lin == n):
        return x.bad(f"slice.indices() is given {describe(n_used)!r}, expected len(node.value)", fe)
    idx = fe.elem.target
    body = strip_empty_loops(fe.body)
    if len(body) != 1 or body[0].kind != "yield":
        return x.bad(f"loop body trace is {show_trace(body)}, expected exactly one child per index", body[0] if body else fe)
    if not isinstance(idx, IntV):
        x.undecided = "range element is not an integer"
        return x
    val = it.host.members.get(("item", container.id, ("l", idx.lin.key())))
    if val is None:
        return x.bad("the element is not read from node.value at the iterated index", body[0])
    p = child_problem(body[0].value, parent, val, idx)
    if p:
        return x.bad(p, body[0])
    return x
