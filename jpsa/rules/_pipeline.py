"""The compile pipeline: compile(query) = JSONPathQuery(env=self, segments=tuple(parser.parse(TokenStream(tokenize(query))))).

The rule interprets ``JSONPathEnvironment.compile`` on an environment built by the real constructor whose
*call-time state is havocked*: every attribute of the environment (and of its parser) that some method other
than a constructor writes to (attribute store, item store, mutator call; taken from the write-site census) is
replaced by an unknown object, because compile() may run after any number of earlier calls.  A result that can
come from such state (a cache hit), a path that skips a stage, or a stage fed with something else than the
previous stage's result is reported.
"""

from __future__ import annotations

import ast
from typing import Any
from typing import Dict
from typing import List
from typing import Set

from .. import effects
from ..absctx import Unsupported
from ..absint import Interp
from ..absval import *  # noqa: F403
from ..harness import describe
from ..harness import paths
from ..harness import real_env
from ..model import AnalysisError
from ..model import Model
from ..protocol import Report
from ._sel import base_of
from ._sel import order_problem


written_attrs = effects.written_attrs


def result_memos(model: Model, fn: Any, key_param: str) -> Set[str]:
    """Attributes self.X that fn uses as a memo of its own result keyed by exactly its parameter `key_param`:
    every write to self.X outside constructors is in fn, is classified as a key-determined memo store
    self.X[key_param] = <name returned by fn> or an eviction."""
    by_attr: Dict[str, List[Any]] = {}
    quals = {c.qualname for c in fn.cls.mro()} if fn.cls is not None else set()
    for w in effects.census(model, exclude_modules=()):
        if w.fn.cls is None or w.fn.cls.qualname not in quals or w.cls in ("init", "fresh", "exception"):
            continue
        if w.receiver.startswith("self."):
            by_attr.setdefault(w.receiver[5:].split(".")[0].split("[")[0], []).append(w)
    returned = {n.value.id for n in ast.walk(fn.node) if isinstance(n, ast.Return) and isinstance(n.value, ast.Name)}
    out: Set[str] = set()
    for attr, ws in by_attr.items():
        ok = True
        for w in ws:
            if w.fn is not fn or w.cls != "memo" or w.receiver != f"self.{attr}":
                ok = False
            elif w.kind == "item-store":
                val = getattr(w.node, "value", None)
                if w.detail != key_param or not (isinstance(val, ast.Name) and val.id in returned):
                    ok = False
        if ok and any(w.kind == "item-store" for w in ws):
            out.add(attr)
    return out


def havoc(it: Interp, model: Model, inst: Inst, cls_qual: str, label: str) -> List[str]:
    return it.havoc_written(inst, label)


def check_compile(model: Model, report: Report, rule: str) -> None:
    eci = model.cls("environment.JSONPathEnvironment")
    comp = eci.find_method("compile")
    tokenize = model.func("lex.tokenize")
    parse = model.func("parse.Parser.parse")
    ts = model.cls("tokens.TokenStream")
    qcls = model.cls("query.JSONPathQuery")
    if comp is None or tokenize is None or parse is None or ts.find_method("__init__") is None:
        raise AnalysisError("anchor vanished: compile / tokenize / Parser.parse / TokenStream.__init__")
    cell = "pipeline:compile=JSONPathQuery(env,tuple(parse(TokenStream(tokenize(query)))))"
    havocked: List[str] = []
    key_param = comp.node.args.args[1].arg if len(comp.node.args.args) > 1 else ""
    memos = result_memos(model, comp, key_param)

    key_desc: Dict[int, str] = {}

    def it_key(q: Any) -> str:
        return key_desc.get(id(q), "?")

    def memo_hit(r: Any, env: Inst, q: Any) -> bool:
        """r is self.X.get(query) / self.X[query] for a memo X of compile's own results keyed by the query text."""
        for x in memos:
            o = env.attrs.get(x)
            if isinstance(r, Term) and r.op == "call" and isinstance(r.args[0], Opaque) and isinstance(o, Opaque):
                if r.args[0] is o.children.get("get") and len(r.args[2]) >= 1 and r.args[2][0] is q:
                    return True
            if isinstance(r, Term) and r.op in ("subscript", "getitem", "index") and r.args and r.args[0] is o and r.args[1] is q:
                return True
            if isinstance(r, Opaque) and isinstance(o, Opaque) and o.children.get(f"[{it_key(q)}]") is r:
                return True
        return False

    def body(it: Interp) -> Any:
        env = real_env(it, model)
        havocked[:] = havoc(it, model, env, eci.qualname, "env")
        parser = env.attrs.get("parser")
        if isinstance(parser, Inst):
            havocked.extend(havoc(it, model, parser, parser.cls.qualname, "parser"))
        q = it.new_str("query-text")
        key_desc[id(q)] = it.host.key_desc(q)
        seen: Dict[str, Any] = {"tokenize": [], "stream": [], "parse": []}
        start = len(it.ctx.log)

        def h_tok(interp: Interp, fi: Any, a: List[Any], kw: Dict[str, Any], n: Any) -> Any:
            o = interp.new_opaque("tokens")
            seen["tokenize"].append((tuple(a), dict(kw), o))
            return o

        def h_ts(interp: Interp, fi: Any, a: List[Any], kw: Dict[str, Any], n: Any) -> Any:
            seen["stream"].append((tuple(a), dict(kw)))
            return Const(None)

        def h_parse(interp: Interp, fi: Any, a: List[Any], kw: Dict[str, Any], n: Any) -> Any:
            o = interp.new_opaque("segments")
            seen["parse"].append((tuple(a), dict(kw), o))
            return o

        it.hooks[tokenize.qualname] = h_tok
        it.hooks[ts.find_method("__init__").qualname] = h_ts
        it.hooks[parse.qualname] = h_parse
        r = it.call_function(comp, [env, q], {}, None, self_av=env)
        return r, env, parser, q, seen, start

    try:
        runs = paths(model, body)
    except Unsupported as err:
        report.undecided(rule, comp.qualname, f"{cell}: {err}")
        return
    problems: List[str] = []
    for run in runs:
        prob = None
        if run.kind == "raise":
            prob = f"raises {run.exc_name()} although every stage succeeded"
        else:
            r, env, parser, q, seen, start = run.value
            if memo_hit(r, env, q):
                continue
            if not (isinstance(r, Inst) and r.cls is qcls):
                prob = f"returns {describe(r)!r}, which is not a JSONPathQuery built from this query's tokens (a result that depends on earlier calls)"
            elif len(seen["tokenize"]) != 1 or len(seen["tokenize"][0][0]) != 1 or seen["tokenize"][0][0][0] is not q or seen["tokenize"][0][1]:
                prob = f"tokenize is called {len(seen['tokenize'])} times / not with the query text unchanged"
            elif len(seen["stream"]) != 1 or len(seen["stream"][0][0]) != 2 or seen["stream"][0][0][1] is not seen["tokenize"][0][2] or seen["stream"][0][1]:
                prob = "the token stream is not built exactly once from the tokens of this query"
            elif len(seen["parse"]) != 1 or len(seen["parse"][0][0]) != 2 or seen["parse"][0][0][1] is not seen["stream"][0][0][0] or seen["parse"][0][1]:
                prob = "the parser is not run exactly once on the token stream of this query"
            elif seen["parse"][0][0][0] is not parser:
                prob = "the query is not parsed by the environment's own parser"
            elif r.attrs.get("env") is not env:
                prob = "the compiled query is not bound to the compiling environment"
            else:
                segs = r.attrs.get("segments")
                if not (isinstance(segs, Source) and base_of(segs) is seen["parse"][0][2]):
                    prob = f"segments are {describe(segs)!r}, expected tuple(parser.parse(stream))"
                elif order_problem(segs) or segs.view not in ("opaque", "elems"):
                    prob = f"segments: {order_problem(segs) or 'a ' + segs.view + ' view of the parse result'}"
        if prob and prob not in problems:
            problems.append(prob)
    for p in problems:
        report.fail(rule, comp.qualname, cell, f"compile() {p}", file=comp.file, line=comp.line, what=cell)
    if not problems:
        report.ok(rule, comp.qualname, cell, detail={"paths": len(runs), "havocked_state": list(havocked), "result_memos_keyed_by_query_text": sorted(memos)})
    report.touched(comp.qualname)


def check_tokenize_setup(model: Model, report: Report, rule: str) -> None:
    """tokenize(query) scans exactly the text it is given, from offset 0, in a fresh lexer, and returns that lexer's tokens."""
    lexm = model.module("lex")
    fn = lexm.functions.get("tokenize")
    lcls = model.cls("lex.Lexer")
    run = lcls.find_method("run")
    if fn is None or run is None:
        raise AnalysisError("anchor vanished: lex.tokenize / Lexer.run")
    cell = "tokenize:scans-the-given-text-unchanged-from-0"

    def body(it: Interp) -> Any:
        q = it.new_str("query-text")
        seen: List[Any] = []

        def hook(interp: Interp, fi: Any, args: List[Any], kw: Dict[str, Any], node: Any) -> Any:
            lx = args[0]
            seen.append((lx, dict(lx.attrs) if isinstance(lx, Inst) else {}))
            return Const(None)

        it.hooks[run.qualname] = hook
        r = it.call_function(fn, [q], {}, None)
        return r, q, seen

    try:
        runs = paths(model, body)
    except Unsupported as err:
        report.undecided(rule, fn.qualname, f"{cell}: {err}")
        return
    problems: List[str] = []
    for r_ in runs:
        prob = None
        if r_.kind == "raise":
            prob = f"raises {r_.exc_name()} before/after an uneventful scan"
        else:
            r, q, seen = r_.value
            if len(seen) != 1:
                prob = f"Lexer.run is called {len(seen)} times"
            else:
                lx, attrs = seen[0]
                if not (isinstance(lx, Inst) and lx.cls is lcls):
                    prob = f"run() is called on {describe(lx)!r}, not on a Lexer"
                elif attrs.get("query") is not q:
                    prob = f"the lexer scans {describe(attrs.get('query'))!r}, not the query text it was given (offsets, positions and the accepted language all refer to the caller's text)"
                else:
                    for name in ("start", "pos", "filter_depth"):
                        v = attrs.get(name)
                        if not (isinstance(v, Const) and v.value == 0 and v.value is not False):
                            prob = f"scanning starts with {name} = {describe(v)!r}, expected 0"
                    for name in ("tokens", "bracket_stack", "func_call_stack"):
                        v = attrs.get(name)
                        if not (isinstance(v, PyList) and len(v.items) == 0):
                            prob = prob or f"scanning starts with {name} = {describe(v)!r}, expected an empty list"
                    if prob is None and r is not attrs.get("tokens"):
                        prob = f"returns {describe(r)!r}, not the list the lexer filled"
        if prob and prob not in problems:
            problems.append(prob)
    for p in problems:
        report.fail(rule, fn.qualname, cell, f"tokenize() {p}", file=fn.file, line=fn.line, what=cell)
    if not problems:
        report.ok(rule, fn.qualname, cell, detail={"paths": len(runs)})
    report.touched(fn.qualname)
