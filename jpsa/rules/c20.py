"""C20 — the command-line tool (handler coverage, output discipline)."""

from __future__ import annotations

import ast
from typing import Any
from typing import Dict
from typing import List
from typing import Optional
from typing import Set
from typing import Tuple

from ..absctx import Unsupported
from ..absint import AbsRaise
from ..absint import Interp
from ..absval import *  # noqa: F403
from ..harness import describe
from ..harness import paths
from ..model import AnalysisError
from ..model import Model
from ..model import walk_own
from ..protocol import Report

COMPILE_MODULES = {"lex", "parse", "tokens", "environment"}
EVAL_FUNCS = ("resolve", "evaluate", "_visit", "_nondeterministic_visit", "__call__")


def raised_classes(model: Model) -> Tuple[Set[str], Set[str]]:
    """JSONPathError subclasses raised explicitly at compile time / at evaluation time."""
    base = model.cls("exceptions.JSONPathError")
    comp: Set[str] = set()
    ev: Set[str] = set()
    for fi in model.functions.values():
        short = fi.module.short
        if short in ("cli", "__main__") or short.startswith("utils."):
            continue
        for n in walk_own(fi.node):
            if isinstance(n, ast.Raise) and isinstance(n.exc, ast.Call):
                r = model.resolve_expr_static(fi.module, n.exc.func)
                if r and r[0] == "class" and r[1].is_subclass_of(base):
                    is_eval = fi.name in EVAL_FUNCS and short not in COMPILE_MODULES
                    (ev if is_eval else comp).add(r[1].qualname)
    return comp, ev


def scenario(model: Model, source: str, debug: bool, pretty: bool, compile_out: str, load_out: str, find_out: str, dump_out: str = "ok") -> List[Any]:
    fn = model.func("cli.handle_path_command")
    comp = model.func("environment.JSONPathEnvironment.compile")

    def body(it: Interp) -> Any:
        args = it.new_opaque("args")
        qtext = it.new_str("query-text")
        ftext = it.new_str("query-file-text")
        qfile = it.new_opaque("args.query_file")
        args.children["query"] = qtext if source == "inline" else Const(None)
        args.children["query_file"] = qfile
        args.children["debug"] = Const(debug)
        args.children["pretty"] = Const(pretty)
        infile = it.new_opaque("args.file")
        outfile = it.new_opaque("args.output")
        args.children["file"] = infile
        args.children["output"] = outfile
        seen: Dict[str, Any] = {"events": []}
        compiled = it.new_opaque("compiled-query", model.cls("query.JSONPathQuery"))
        data = it.new_sym("document")
        result = it.new_opaque("nodelist", model.cls("node.JSONPathNodeList"))

        def mkexc(q: str) -> Any:
            ci = model.cls(q)
            return it.instantiate(ci, [Const("boom")], {"token": it.new_opaque("tok")}, None)

        def compile_hook(interp: Interp, fi: Any, a: List[Any], kw: Dict[str, Any], n: Any) -> Any:
            seen["compile_arg"] = a[1] if len(a) > 1 else None
            seen["events"].append("compile")
            if compile_out != "ok":
                e = mkexc(compile_out)
                seen["exc"] = e
                raise AbsRaise(e, None)
            return compiled

        def load_hook(interp: Interp, a: List[Any], kw: Dict[str, Any], n: Any) -> Any:
            seen["load_arg"] = a[0] if a else None
            seen["events"].append("load")
            if load_out != "ok":
                e = HostExc(load_out, "bad input")
                seen["exc"] = e
                raise AbsRaise(e, None)
            return data

        def dump_hook(interp: Interp, a: List[Any], kw: Dict[str, Any], n: Any) -> Any:
            # A1: json.dump writes chunk by chunk; serialising values nested about as deeply as the interpreter's stack
            # raises RecursionError after part of the text has been written
            if dump_out != "ok":
                interp.ctx.log.append(("extcall", "json.dump", tuple(a), tuple(sorted(kw.items())), interp.site(n)))
                seen["partial"] = True
                e = HostExc(dump_out, "maximum recursion depth exceeded")
                seen["exc"] = e
                raise AbsRaise(e, None)
            return NotImplemented

        def dumps_hook(interp: Interp, a: List[Any], kw: Dict[str, Any], n: Any) -> Any:
            seen["events"].append("dumps")
            if dump_out != "ok":
                e = HostExc(dump_out, "maximum recursion depth exceeded")
                seen["exc"] = e
                raise AbsRaise(e, None)
            return NotImplemented

        def opaque_hook(interp: Interp, recv: Any, name: str, a: List[Any], kw: Dict[str, Any], n: Any) -> Any:
            if (recv is outfile and name == "write") or (name == "__call__" and recv is outfile.children.get("write")):
                seen.setdefault("out_writes", []).append(a[0] if a else None)
                return Const(None)
            if (recv is qfile and name == "read") or (name == "__call__" and recv is qfile.children.get("read")):
                return ftext
            if recv is compiled and name in ("find", "apply"):
                seen["find_arg"] = a[0] if a else None
                seen["events"].append("find")
                if find_out != "ok":
                    e = mkexc(find_out)
                    seen["exc"] = e
                    raise AbsRaise(e, None)
                return result
            return NotImplemented

        it.hooks[comp.qualname] = compile_hook
        it.hooks["__external__"] = {"json.load": load_hook, "json.dump": dump_hook, "json.dumps": dumps_hook}
        it.hooks["__opaque_call__"] = opaque_hook
        r = it.call_function(fn, [args], {}, None)
        return r, seen, dict(qtext=qtext, ftext=ftext, data=data, result=result, outfile=outfile, infile=infile, compiled=compiled)

    out = []
    from ..harness import Run
    from ..absctx import explore, Ctx

    def run(ctx: Ctx) -> Any:
        it = Interp(model, ctx)
        holder: Dict[str, Any] = {}
        try:
            v = body(it)
            return Run("return", v, ctx, it)
        except AbsRaise as r:
            return Run("raise", r.exc, ctx, it, r.site)

    # keep access to hooks' 'seen' on raising paths: re-run body capturing seen through closure
    results = []
    def run2(ctx: Ctx) -> Any:
        it = Interp(model, ctx)
        box: Dict[str, Any] = {}
        orig_call = it.call_function

        try:
            v = body(it)
            return Run("return", v, ctx, it)
        except AbsRaise as r:
            return Run("raise", r.exc, ctx, it, r.site)

    for res, _c in explore(run2, 2000):
        out.append(res)
    return out


def analyse(run: Any) -> Dict[str, Any]:
    log = run.ctx.log
    writes = [e for e in log if isinstance(e, tuple) and e[0] == "extcall" and e[1] == "sys.stderr.write"]
    stdout_writes = [e for e in log if isinstance(e, tuple) and e[0] == "extcall" and e[1] in ("sys.stdout.write", "print", "builtins.print")]
    dumps = [e for e in log if isinstance(e, tuple) and e[0] == "extcall" and e[1] in ("json.dump", "json.dumps")]
    exits = [e for e in log if isinstance(e, tuple) and e[0] == "extcall" and e[1] == "sys.exit"]
    return {"writes": writes, "dumps": dumps, "exits": exits, "stdout": stdout_writes}


def one_line(arg: Any) -> Optional[str]:
    """None if the stderr text is a single newline-terminated line (as far as its constant parts say)."""
    from ..harness import str_parts

    parts = str_parts(arg)
    if parts is None:
        return f"diagnostic is {describe(arg)!r}"
    consts = [p.value for p in parts if isinstance(p, Const)]
    if not consts or not isinstance(parts[-1], Const) or not parts[-1].value.endswith("\n"):
        return "diagnostic does not end with a newline"
    if "".join(consts).count("\n") != 1:
        return "diagnostic spans several lines"
    if "Traceback" in "".join(consts):
        return "diagnostic mentions a traceback"
    return None


def check_setup_parser(model: Model, report: Report, rule: str) -> None:
    """Option table of the argument parser and the dispatch in main()."""
    fn = model.func("cli.setup_parser")
    main = model.func("cli.main")
    calls: List[Tuple[str, ast.Call]] = []
    for n in ast.walk(fn.node):
        if isinstance(n, ast.Call) and isinstance(n.func, ast.Attribute) and n.func.attr in ("add_argument", "set_defaults", "add_mutually_exclusive_group"):
            calls.append((n.func.attr, n))
    opts: Dict[str, ast.Call] = {}
    for kind, c in calls:
        if kind == "add_argument":
            for a in c.args:
                if isinstance(a, ast.Constant) and isinstance(a.value, str) and a.value.startswith("--"):
                    opts[a.value] = c

    def kw(c: ast.Call, name: str) -> Optional[str]:
        for k in c.keywords:
            if k.arg == name:
                return ast.unparse(k.value)
        return None

    def flags(c: ast.Call) -> List[str]:
        return [a.value for a in c.args if isinstance(a, ast.Constant)]

    want = {
        "--query": {"flags": ["-q", "--query"], "action": None, "type": None},
        "--query-file": {"flags": ["-r", "--query-file"], "type_contains": "FileType", "mode": "'r'"},
        "--file": {"flags": ["-f", "--file"], "type_contains": "FileType", "default": "sys.stdin"},
        "--output": {"flags": ["-o", "--output"], "type_contains": "FileType", "mode": "'w'", "default": "sys.stdout"},
        "--pretty": {"flags": ["--pretty"], "action": "'store_true'"},
        "--debug": {"flags": ["--debug"], "action": "'store_true'"},
    }
    for name, w in want.items():
        c = opts.get(name)
        key = f"option:{name}"
        if c is None:
            report.fail(rule, fn.qualname, key, f"the command line has no {name} option", file=fn.file, line=fn.line)
            continue
        prob = None
        if flags(c) != w["flags"]:
            prob = f"spellings are {flags(c)}, expected {w['flags']}"
        if "action" in w and kw(c, "action") != w["action"]:
            prob = f"action is {kw(c, 'action')}, expected {w['action']}"
        if "type_contains" in w:
            t = kw(c, "type") or ""
            if w["type_contains"] not in t:
                prob = f"type is {t or None}, expected an argparse.FileType"
            elif "mode" in w and w["mode"] not in t:
                prob = f"file mode in {t} is not {w['mode']}"
            elif name == "--file" and "'w'" in t:
                prob = f"the document file is opened for writing ({t})"
            elif name == "--file" and "'rb'" not in t and '"rb"' not in t:
                prob = f"the document file is not opened in binary mode ({t}): json.load then sees text decoded with one fixed encoding, so documents in the other JSON encodings (UTF-8 with a byte order mark, UTF-16, UTF-32), which it detects itself on bytes, are refused"
        if "type" in w and w["type"] is None and kw(c, "type") is not None:
            prob = f"type is {kw(c, 'type')}: the query text would be transformed"
        if "default" in w and kw(c, "default") != w["default"]:
            prob = f"default is {kw(c, 'default')}, expected {w['default']}"
        if prob:
            report.fail(rule, fn.qualname, key, f"option {name}: {prob}", file=fn.file, line=c.lineno)
        else:
            report.ok(rule, fn.qualname, key)
    # -q and -r are alternatives, one required
    groups = [c for k, c in calls if k == "add_mutually_exclusive_group"]
    if not groups or kw(groups[0], "required") != "True":
        report.fail(rule, fn.qualname, "query-source-group", "the query options are not a required mutually exclusive group", file=fn.file, line=fn.line)
    else:
        report.ok(rule, fn.qualname, "query-source-group")
    sd = [c for k, c in calls if k == "set_defaults"]
    if not sd or kw(sd[0], "func") != "handle_path_command":
        report.fail(rule, fn.qualname, "dispatch", f"set_defaults(func=...) is {kw(sd[0], 'func') if sd else None}, expected handle_path_command", file=fn.file, line=fn.line)
    else:
        report.ok(rule, fn.qualname, "dispatch: func=handle_path_command")
    # main(): parse_args then args.func(args)
    src = ast.unparse(main.node)
    if "parse_args()" in src and "args.func(args)" in src and "setup_parser()" in src:
        report.ok(rule, main.qualname, "main = setup_parser().parse_args(); args.func(args)")
    else:
        report.fail(rule, main.qualname, "main-shape", "main() does not parse the real command line and dispatch to args.func(args)", file=main.file, line=main.line)
    # the pretty indent is a positive constant
    cli = model.module("cli")
    ind = cli.assigns.get("INDENT")
    if isinstance(ind, ast.Constant) and isinstance(ind.value, int) and ind.value > 0:
        report.ok(rule, "cli", "INDENT is a positive integer")
    else:
        report.fail(rule, "cli", "indent-constant", f"INDENT is {ast.unparse(ind) if ind is not None else None}")


def check(model: Model, report: Report) -> None:
    report.rule("R20.6", "option table: -q/--query (verbatim), -r/--query-file (text file), -f/--file (default stdin, read mode), -o/--output (default stdout, write mode), --pretty/--debug flags; -q and -r are required alternatives; main dispatches to handle_path_command")
    report.rule("R20.1", "every JSONPathError subclass raised at compile time, escaping compile(), is handled: one newline-terminated line on stderr, sys.exit(non-zero), nothing written to the output; re-raised only under --debug")
    report.rule("R20.2", "same for json.load failures (JSONDecodeError, UnicodeDecodeError, ValueError from the integer digit limit, RecursionError from deep nesting) and for every JSONPathError subclass raised at evaluation time")
    report.rule("R20.4", "on success the only write to the output sink is json.dump(compile(query).find(json.load(file)).values(), args.output, indent=INDENT if --pretty else None); no exit, nothing on stderr")
    report.rule("R20.5", "the query is taken verbatim from -q, or from the query file stripped")
    report.rule("R20.7", "the diagnostic is one line: no message of a JSONPathError the library constructs can contain LF/CR (lexer states path-sensitively; every other construction site by inference over the message expression: constants, !r, integers, enum names, function-name tokens)")
    from . import _oneline

    _oneline.check(model, report, "R20.7")
    report.rule("R20.8", "nothing but a JSONPathError can come out of compile() or evaluation (the cells of C13 R13.2): any other exception would pass the CLI's handlers and be printed as a traceback")
    from . import c13

    c13.report_escapes(model, report, "R20.8", "can escape compile()/find(): the CLI has no handler for it and prints a traceback instead of a one-line diagnostic")
    report.assumptions += ["argparse behaviour and FileType handling are trusted", "json.load raises JSONDecodeError, UnicodeDecodeError, ValueError (integer digit limit) or RecursionError (nesting depth) for input it cannot decode (A1)"]
    report.not_decided += ["FileType('w') truncating the output file before validation; broken pipes; argparse errors"]
    fn = model.func("cli.handle_path_command")
    site = fn.qualname
    comp_classes, eval_classes = raised_classes(model)
    if len(comp_classes) < 3:
        raise AnalysisError(f"only {sorted(comp_classes)} compile-time error classes found")
    # every concrete subclass, to be safe against classes raised through helpers
    base = model.cls("exceptions.JSONPathError")
    all_classes = sorted(c.qualname for c in model.subclasses(base))
    thorough = report.tier == "thorough"
    # ---- success paths
    for source in ("inline", "file"):
        for pretty in (False, True):
            for debug in ((False, True) if thorough else (False,)):
                key = f"success:{source}:{'pretty' if pretty else 'compact'}" + (":debug" if debug else "")
                try:
                    runs = scenario(model, source, debug, pretty, "ok", "ok", "ok")
                except Unsupported as err:
                    report.undecided("R20.4", site, f"{key}: {err}")
                    continue
                bad = None
                for run in runs:
                    if run.kind == "raise":
                        bad = f"raises {run.exc_name()} on valid input"
                        continue
                    r, seen, m = run.value
                    a = analyse(run)
                    form_ok = False
                    if a["writes"] or a["exits"]:
                        bad = "writes to stderr / exits on valid input"
                    elif not a["dumps"] and len(seen.get("out_writes", [])) == 1 and isinstance(seen["out_writes"][0], Term) and seen["out_writes"][0].op == "json.dumps":
                        # args.output.write(json.dumps(values, indent=...)): the same text, serialised before it is written
                        t = seen["out_writes"][0]
                        pos = [x for x in t.args if not (isinstance(x, tuple) and len(x) == 2 and isinstance(x[0], str))]
                        kw = {x[0]: x[1] for x in t.args if isinstance(x, tuple) and len(x) == 2 and isinstance(x[0], str)}
                        vals = pos[0] if pos else None
                        okv = isinstance(vals, Term) and vals.op == "call" and vals.args[1] == "values" and vals.args[0] is m["result"] and not vals.args[2]
                        ind = kw.get("indent", pos[1] if len(pos) > 1 else Const(None))
                        if not okv:
                            bad = f"writes the serialisation of {describe(vals)!r}, expected find(...).values()"
                        elif pretty and not (isinstance(ind, Const) and isinstance(ind.value, int) and ind.value > 0):
                            bad = f"--pretty uses indent={describe(ind)!r}"
                        elif not pretty and not (isinstance(ind, Const) and ind.value is None):
                            bad = f"without --pretty indent is {describe(ind)!r}, expected None"
                        elif set(kw) - {"indent"}:
                            bad = f"json.dumps is given extra options {sorted(set(kw) - {'indent'})} (output would differ from the JSON array of the values)"
                        form_ok = not bad
                    elif seen.get("out_writes"):
                        bad = f"writes {len(seen['out_writes'])} pieces of text to the output besides / instead of the serialised result"
                    elif len(a["dumps"]) != 1 or a["dumps"][0][1] != "json.dump":
                        bad = f"performs {len(a['dumps'])} json.dump calls, expected exactly one"
                    elif a["stdout"]:
                        bad = "prints something besides the JSON result"
                    else:
                        d = a["dumps"][0]
                        args = d[2]
                        kw = dict(d[3]) if len(d) > 4 else {}
                        vals = args[0] if args else None
                        sink = args[1] if len(args) > 1 else kw.get("fp")
                        okv = isinstance(vals, Term) and vals.op == "call" and vals.args[1] == "values" and vals.args[0] is m["result"] and not vals.args[2]
                        if not okv:
                            bad = f"dumps {describe(vals)!r}, expected find(...).values()"
                        elif sink is not m["outfile"]:
                            bad = f"writes the result to {describe(sink)!r}, expected args.output"
                        else:
                            ind = kw.get("indent", args[2] if len(args) > 2 else Const(None))
                            if pretty and not (isinstance(ind, Const) and isinstance(ind.value, int) and ind.value > 0):
                                bad = f"--pretty uses indent={describe(ind)!r}"
                            if not pretty and not (isinstance(ind, Const) and ind.value is None):
                                bad = f"without --pretty indent is {describe(ind)!r}, expected None"
                            extra = set(kw) - {"indent", "fp"}
                            if extra and not bad:
                                bad = f"json.dump is given extra options {sorted(extra)} (output would differ from the JSON array of the values)"
                        form_ok = not bad
                    if form_ok:
                        if not bad and seen.get("find_arg") is not m["data"]:
                            bad = "the query is not applied to the document loaded from args.file"
                        if not bad and seen.get("load_arg") is not m["infile"]:
                            bad = "the document is not read from args.file"
                        ca = seen.get("compile_arg")
                        if not bad:
                            if source == "inline":
                                if ca is not m["qtext"]:
                                    report.fail("R20.5", site, f"query-source:{source}", f"the inline query is compiled as {describe(ca)!r}, expected the -q text verbatim", file=fn.file, line=fn.line)
                                else:
                                    report.ok("R20.5", site, f"query-source:{source}:{pretty}:{debug}")
                            else:
                                okq = ca is m["ftext"] or (isinstance(ca, Term) and ca.op == "strmeth" and ca.args[0] is m["ftext"] and ca.args[1] == "strip" and not ca.args[2])
                                if not okq:
                                    report.fail("R20.5", site, f"query-source:{source}", f"the query file is compiled as {describe(ca)!r}, expected its text (stripped)", file=fn.file, line=fn.line)
                                else:
                                    report.ok("R20.5", site, f"query-source:{source}:{pretty}:{debug}")
                if bad:
                    report.fail("R20.4", site, key, f"CLI {bad}", file=fn.file, line=fn.line)
                else:
                    report.ok("R20.4", site, key, detail={"paths": len(runs)})
    # ---- error paths
    cases: List[Tuple[str, str, str, str, str]] = []
    for q in all_classes:
        cases.append(("R20.1", f"compile:{q.split('.')[-1]}", q, "ok", "ok"))
    # A1: json.load fails with JSONDecodeError (malformed text), UnicodeDecodeError (undecodable bytes), a plain
    # ValueError (an integer with more digits than int() converts) or RecursionError (nesting beyond the interpreter's stack)
    for l in ("json.JSONDecodeError", "UnicodeDecodeError", "ValueError", "RecursionError"):
        cases.append(("R20.2", f"load:{l}", "ok", l, "ok"))
    for q in sorted(eval_classes | {c for c in all_classes if c.split(".")[-1] in ("JSONPathRecursionError", "JSONPathTypeError")}):
        cases.append(("R20.2", f"evaluate:{q.split('.')[-1]}", "ok", "ok", q))
    for rule, name, co, lo, fo in cases:
        for debug in (False, True):
            key = f"{name}:{'debug' if debug else 'normal'}"
            try:
                runs = scenario(model, "inline", debug, False, co, lo, fo)
            except Unsupported as err:
                report.undecided(rule, site, f"{key}: {err}")
                continue
            bad = None
            for run in runs:
                a = analyse(run)
                if a["dumps"]:
                    bad = "writes a result although an error occurred (partial output)"
                    continue
                if run.kind == "return":
                    bad = "returns normally (exit status 0) although an error occurred"
                    continue
                exc = run.value
                is_exit = isinstance(exc, HostExc) and exc.name == "SystemExit"
                if debug:
                    if is_exit:
                        continue  # exiting cleanly under --debug is acceptable too
                    want = co if co != "ok" else (lo if lo != "ok" else fo)
                    got = exc.cls.qualname if isinstance(exc, Inst) else exc.name
                    if got != want:
                        bad = f"--debug re-raises {got} instead of the original {want}"
                    continue
                if not is_exit:
                    bad = f"the {name.split(':')[1]} escapes as an unhandled exception (traceback) instead of a one-line diagnostic and a non-zero exit"
                    continue
                if len(a["writes"]) != 1:
                    bad = f"writes {len(a['writes'])} diagnostics to stderr, expected exactly one line"
                    continue
                ol = one_line(a["writes"][0][2][0])
                if ol:
                    bad = ol
                    continue
                code = a["exits"][-1][2][0] if a["exits"] and a["exits"][-1][2] else Const(None)
                if not (isinstance(code, Const) and isinstance(code.value, int) and not isinstance(code.value, bool) and code.value != 0):
                    bad = f"exits with status {describe(code)!r}, expected a non-zero integer"
            if bad:
                report.fail(rule, site, key, f"CLI on {name}: {bad}", file=fn.file, line=fn.line)
            else:
                report.ok(rule, site, key, detail={"paths": len(runs)})
    # ---- serialisation failure (A1: values nested about as deeply as the interpreter's stack; the document loads,
    # the result is one level deeper and the pure-Python pretty printer needs several frames per level)
    report.rule("R20.9", "a result that cannot be serialised (RecursionError from json.dump / json.dumps) is reported on one line with a non-zero exit, no traceback unless --debug, and nothing has been written to the output by then (the result is serialised completely before the first write)")
    for pretty in (False, True):
        for debug in (False, True):
            key = f"serialise:RecursionError:{'pretty' if pretty else 'compact'}:{'debug' if debug else 'normal'}"
            try:
                runs = scenario(model, "inline", debug, pretty, "ok", "ok", "ok", dump_out="RecursionError")
            except Unsupported as err:
                report.undecided("R20.9", site, f"{key}: {err}")
                continue
            bad = None
            for run in runs:
                a = analyse(run)
                if run.kind == "return":
                    bad = "returns normally (exit status 0) although the result could not be serialised"
                    continue
                exc = run.value
                is_exit = isinstance(exc, HostExc) and exc.name == "SystemExit"
                if any(e[1] == "json.dump" for e in a["dumps"]):
                    bad = "streams the result into the output with json.dump: a failure while serialising leaves a partial result behind (serialise with json.dumps first, then write)"
                    continue
                if debug:
                    if not is_exit and not (isinstance(exc, HostExc) and exc.name == "RecursionError"):
                        bad = f"--debug re-raises {describe(exc)!r} instead of the original RecursionError"
                    continue
                if not is_exit:
                    bad = "the RecursionError escapes as an unhandled exception (traceback) instead of a one-line diagnostic and a non-zero exit"
                    continue
                if len(a["writes"]) != 1:
                    bad = f"writes {len(a['writes'])} diagnostics to stderr, expected exactly one line"
                    continue
                ol = one_line(a["writes"][0][2][0])
                if ol:
                    bad = ol
                    continue
                code = a["exits"][-1][2][0] if a["exits"] and a["exits"][-1][2] else Const(None)
                if not (isinstance(code, Const) and isinstance(code.value, int) and not isinstance(code.value, bool) and code.value != 0):
                    bad = f"exits with status {describe(code)!r}, expected a non-zero integer"
            if bad:
                report.fail("R20.9", site, key.rsplit(":", 2)[0] + (":partial-output" if "partial" in bad else ":traceback" if "escapes" in bad else ":other"), f"CLI on a result nested too deeply to serialise ({key}): {bad}", file=fn.file, line=fn.line)
            else:
                report.ok("R20.9", site, key, detail={"paths": len(runs)})
    check_setup_parser(model, report, "R20.6")
    report.touched(site)
    report.extra["explanation"] = "C20: handle_path_command interpreted with compile/json.load/find replaced by outcome injectors (every JSONPathError subclass, decode errors, success) x debug x pretty x query source; effects on stderr/exit/output sink compared."
    report.extra["compile_error_classes"] = sorted(comp_classes)
    report.extra["evaluation_error_classes"] = sorted(eval_classes)
