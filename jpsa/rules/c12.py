"""C12 — str(query) is a faithful canonical form."""

from __future__ import annotations

import itertools
import re as _re
from typing import Any
from typing import Dict
from typing import List
from typing import Optional
from typing import Tuple

from ..absctx import Unsupported
from ..absint import Interp
from ..absval import *  # noqa: F403
from ..harness import describe
from ..harness import paths
from ..model import AnalysisError
from ..model import Model
from ..protocol import Report
from .c05 import register
from .c08 import flatten
from .c08 import merge_consts
from .c10 import probe_function

FE = "filter_expressions."

# ------------------------------------------------------------ expression trees
# tree := ("q", i) | ("cmp", i) | ("call", [tree...]) | ("not", t) | ("and", a, b) | ("or", a, b)


def trees(depth: int) -> List[Any]:
    leaves: List[Any] = [("q", 0), ("cmp", 0)]
    if depth == 0:
        return leaves
    sub = trees(depth - 1)
    out = list(leaves)
    for t in sub:
        out.append(("not", t))
    for a in sub:
        for b in sub:
            out.append(("and", a, b))
            out.append(("or", a, b))
    return out


def trees_by_size(max_leaves: int) -> List[Any]:
    """Every tree over {q, cmp, not, and, or} with at most max_leaves leaves (a negation is not directly repeated)."""
    memo: Dict[Tuple[int, int], List[Any]] = {}

    def gen(n: int, nots: int) -> List[Any]:
        key = (n, nots)
        if key in memo:
            return memo[key]
        out: List[Any] = []
        if n == 1:
            out += [("q", 0), ("cmp", 0)]
        if nots < 1:
            for t in gen(n, nots + 1):
                out.append(("not", t))
        for k in range(1, n):
            for a in gen(k, 0):
                for b in gen(n - k, 0):
                    out.append(("and", a, b))
                    out.append(("or", a, b))
        memo[key] = out
        return out

    res: List[Any] = []
    for n in range(1, max_leaves + 1):
        res += gen(n, 0)
    return res


def relabel(t: Any, counter: List[int]) -> Any:
    if t[0] in ("q", "cmp"):
        counter[0] += 1
        return (t[0], counter[0])
    if t[0] == "not":
        return ("not", relabel(t[1], counter))
    if t[0] == "call":
        return ("call", [relabel(x, counter) for x in t[1]])
    return (t[0], relabel(t[1], counter), relabel(t[2], counter))


def normal(t: Any) -> Any:
    """Semantic normal form: n-ary and/or (associativity), everything else as is."""
    if t[0] in ("q", "cmp"):
        return t
    if t[0] == "not":
        return ("not", normal(t[1]))
    if t[0] == "call":
        return ("call", [normal(x) for x in t[1]])
    op = t[0]
    items: List[Any] = []
    for x in (t[1], t[2]) if len(t) == 3 and not isinstance(t[1], list) else t[1]:
        nx = normal(x)
        if nx[0] == op:
            items.extend(nx[1])
        else:
            items.append(nx)
    return (op, items)


def build(it: Interp, model: Model, env: Inst, t: Any) -> Inst:
    tok = it.new_opaque("tok")

    def inst(cname: str, **attrs: Any) -> Inst:
        x = it.harness_inst(model.cls(FE + cname), cname)
        x.attrs["token"] = tok
        x.attrs.update(attrs)
        return x

    def query(i: int) -> Inst:
        q = it.harness_inst(model.cls("query.JSONPathQuery"), "q")
        sel = it.harness_inst(model.cls("selectors.NameSelector"), "name")
        sel.attrs.update({"env": env, "token": tok, "name": Const(f"a{i}")})
        seg = it.harness_inst(model.cls("segments.JSONPathChildSegment"), "seg")
        seg.attrs.update({"env": env, "token": tok, "selectors": PyTuple((sel,))})
        q.attrs.update({"env": env, "segments": PyTuple((seg,))})
        return inst("RelativeFilterQuery", query=q)

    if t[0] == "q":
        return query(t[1])
    if t[0] == "cmp":
        return inst("ComparisonExpression", left=query(t[1]), operator=Const("=="), right=inst("IntegerLiteral", value=Const(1)))
    if t[0] == "not":
        return inst("PrefixExpression", operator=Const("!"), right=build(it, model, env, t[1]))
    if t[0] == "call":
        return inst("FunctionExtension", name=Const("bl"), args=it.new_list([build(it, model, env, x) for x in t[1]]))
    return inst("LogicalExpression", left=build(it, model, env, t[1]), operator=Const("&&" if t[0] == "and" else "||"), right=build(it, model, env, t[2]))


# ----------------------------------------------------------- mini RFC parser
TOKEN_RE = _re.compile(r"\s*(?:(@\['a(\d+)'\])|(==)|(&&)|(\|\|)|(!)|(\()|(\))|(,)|(bl)(?=\()|(1))")


class ParseError(Exception):
    pass


def tokenize(s: str) -> List[Tuple[str, Any]]:
    out: List[Tuple[str, Any]] = []
    i = 0
    while i < len(s):
        if s[i].isspace():
            i += 1
            continue
        m = TOKEN_RE.match(s, i)
        if not m or m.end() == i:
            raise ParseError(f"unexpected text at {s[i:i+12]!r}")
        if m.group(1):
            out.append(("q", int(m.group(2))))
        elif m.group(3):
            out.append(("==", None))
        elif m.group(4):
            out.append(("&&", None))
        elif m.group(5):
            out.append(("||", None))
        elif m.group(6):
            out.append(("!", None))
        elif m.group(7):
            out.append(("(", None))
        elif m.group(8):
            out.append((")", None))
        elif m.group(9):
            out.append((",", None))
        elif m.group(10):
            out.append(("bl", None))
        elif m.group(11):
            out.append(("1", None))
        i = m.end()
    return out


def rfc_parse(s: str) -> Any:
    """logical-or-expr of RFC 9535 restricted to the leaves used here; raises ParseError if not derivable."""
    toks = tokenize(s)
    pos = [0]

    def peek() -> Optional[str]:
        return toks[pos[0]][0] if pos[0] < len(toks) else None

    def take(k: str) -> Any:
        if peek() != k:
            raise ParseError(f"expected {k!r}, found {peek()!r}")
        v = toks[pos[0]][1]
        pos[0] += 1
        return v

    def p_or() -> Any:
        items = [p_and()]
        while peek() == "||":
            take("||")
            items.append(p_and())
        return items[0] if len(items) == 1 else ("or", items)

    def p_and() -> Any:
        items = [p_basic()]
        while peek() == "&&":
            take("&&")
            items.append(p_basic())
        return items[0] if len(items) == 1 else ("and", items)

    def p_call() -> Any:
        take("bl")
        take("(")
        args = [p_or()]
        while peek() == ",":
            take(",")
            args.append(p_or())
        take(")")
        return ("call", args)

    def p_basic() -> Any:
        neg = False
        if peek() == "!":
            take("!")
            neg = True
        if peek() == "(":
            take("(")
            e = p_or()
            take(")")
            if peek() == "==":
                raise ParseError("parenthesised expression used as a comparand")
            return ("not", e) if neg else e
        if peek() == "bl":
            e = p_call()
            return ("not", e) if neg else e
        if peek() == "q":
            i = take("q")
            if peek() == "==":
                if neg:
                    raise ParseError("'!' applied to a comparison without parentheses")
                take("==")
                take("1")
                return ("cmp", i)
            return ("not", ("q", i)) if neg else ("q", i)
        raise ParseError(f"unexpected {peek()!r}")

    e = p_or()
    if pos[0] != len(toks):
        raise ParseError(f"trailing {peek()!r}")
    return e


def norm_parsed(t: Any) -> Any:
    if t[0] in ("q", "cmp"):
        return t
    if t[0] == "not":
        return ("not", norm_parsed(t[1]))
    if t[0] == "call":
        return ("call", [norm_parsed(x) for x in t[1]])
    items: List[Any] = []
    for x in t[1]:
        nx = norm_parsed(x)
        if nx[0] == t[0]:
            items.extend(nx[1])
        else:
            items.append(nx)
    return (t[0], items)


def show_tree(t: Any) -> str:
    if t[0] == "q":
        return f"@.a{t[1]}"
    if t[0] == "cmp":
        return f"@.a{t[1]}==1"
    if t[0] == "not":
        return f"!({show_tree(t[1])})"
    if t[0] == "call":
        return "bl(" + ", ".join(show_tree(x) for x in t[1]) + ")"
    op = " && " if t[0] == "and" else " || "
    if isinstance(t[1], list):
        return "(" + op.join(show_tree(x) for x in t[1]) + ")"
    return "(" + show_tree(t[1]) + op + show_tree(t[2]) + ")"


def shape_key(t: Any) -> str:
    if t[0] in ("q", "cmp"):
        return t[0]
    if t[0] == "not":
        return f"not({shape_key(t[1])})"
    if t[0] == "call":
        return "call(" + ",".join(shape_key(x) for x in t[1]) + ")"
    return f"{t[0]}({shape_key(t[1])},{shape_key(t[2])})"


def check_grouping(model: Model, report: Report, rule: str) -> None:
    fsel = model.cls("selectors.FilterSelector")
    fn = fsel.find_method("__str__")
    if fn is None:
        raise AnalysisError("anchor vanished: FilterSelector.__str__")
    site = FE + "FilterExpression._canonical_string"
    depth = 2
    base = trees(depth)
    if report.tier == "thorough":
        base = trees(2) + trees_by_size(3)
    # function arguments: each depth-1 tree as the argument of a call, at top level, under '!' and in '&&'
    t1 = trees(1)
    base += [("call", [a]) for a in t1] + [("not", ("call", [a])) for a in t1] + [("and", ("call", [a]), ("q", 0)) for a in t1]
    seen_shapes = set()
    n = 0
    bad: Dict[str, str] = {}
    for t0 in base:
        t = relabel(t0, [0])
        sk = shape_key(t)
        if sk in seen_shapes:
            continue
        seen_shapes.add(sk)

        def body(it: Interp, t=t) -> Any:
            env = it.harness_inst(model.cls("environment.JSONPathEnvironment"), "env")
            expr = build(it, model, env, t)
            fe = it.harness_inst(model.cls(FE + "FilterExpression"), "fe")
            fe.attrs.update({"token": it.new_opaque("tok"), "expression": expr})
            sel = it.harness_inst(fsel, "sel")
            sel.attrs.update({"env": env, "token": it.new_opaque("tok"), "expression": fe})
            return it.call_function(fn, [sel], {}, None, self_av=sel)

        try:
            runs = paths(model, body)
        except Unsupported as err:
            report.undecided(rule, site, f"{sk}: {err}")
            return
        n += 1
        for run in runs:
            if run.kind == "raise":
                bad[sk] = f"str() of {show_tree(t)} raises {run.exc_name()}"
                continue
            r = run.value
            if not (isinstance(r, Const) and isinstance(r.value, str)):
                bad[sk] = f"str() of {show_tree(t)} is not a constant text: {describe(r)!r}"
                continue
            text = r.value
            if not text.startswith("?"):
                bad[sk] = f"filter selector renders as {text!r}, expected '?<expression>'"
                continue
            try:
                back = norm_parsed(rfc_parse(text[1:]))
            except ParseError as err:
                bad[sk] = f"{show_tree(t)} is serialised as {text!r}, which is not derivable from the RFC 9535 filter grammar ({err})"
                continue
            if back != normal(t):
                bad[sk] = f"{show_tree(t)} is serialised as {text!r}, which groups as {show_tree(back)}: a different query"
    for sk, msg in sorted(bad.items()):
        report.fail(rule, site, f"grouping:{sk}", msg)
    if not bad:
        report.ok(rule, site, "every expression tree reparses to itself", detail={"trees": n})
    report.extra["expression_trees"] = n
    report.touched(site, FE + "FunctionExtension.__str__", FE + "ComparisonExpression.__str__", FE + "LogicalExpression.__str__", FE + "PrefixExpression.__str__")


def check_constants(model: Model, report: Report, rule: str) -> None:
    fe = model.module("filter_expressions")

    def body(it: Interp) -> Any:
        out = {}
        for n in ("PRECEDENCE_LOWEST", "PRECEDENCE_LOGICAL_OR", "PRECEDENCE_LOGICAL_AND", "PRECEDENCE_PREFIX"):
            try:
                out[n] = it.module_global(fe, n)
            except Unsupported:
                out[n] = None
        pc = ClassV(model.cls("parse.Parser"))
        for n in ("PRECEDENCE_LOWEST", "PRECEDENCE_LOGICAL_OR", "PRECEDENCE_LOGICAL_AND", "PRECEDENCE_RELATIONAL", "PRECEDENCE_PREFIX"):
            out["P." + n] = it.getattr(pc, n)
        return out

    runs = paths(model, body)
    if len(runs) != 1 or runs[0].kind != "return":
        report.undecided(rule, "filter_expressions", "cannot evaluate the precedence constants")
        return
    v = {k: (x.value if isinstance(x, Const) else None) for k, x in runs[0].value.items()}
    ok = True
    for n in ("PRECEDENCE_LOWEST", "PRECEDENCE_LOGICAL_OR", "PRECEDENCE_LOGICAL_AND", "PRECEDENCE_PREFIX"):
        if v.get(n) is None:
            continue  # the serializer may not use named constants; the grouping rule decides behaviour
        if v[n] != v["P." + n]:
            report.fail(rule, "filter_expressions", f"precedence-constant:{n}", f"serializer's {n}={v[n]} differs from the parser's {v['P.' + n]}")
            ok = False
    if ok:
        report.ok(rule, "filter_expressions", "serializer and parser precedence constants agree", detail=v)


def check_str_methods(model: Model, report: Report, rule: str) -> None:
    for base_q in (FE + "Expression", "selectors.JSONPathSelector", "segments.JSONPathSegment"):
        base = model.cls(base_q)
        for ci in model.subclasses(base):
            if any("abstractmethod" in m.decorators for m in ci.methods.values()) or ci.name in ("FilterQuery", "FilterExpressionLiteral"):
                continue
            m = ci.find_method("__str__")
            if m is None:
                report.fail(rule, ci.qualname, "no-str", f"{ci.qualname} has no __str__: str(query) would print an object address")
            else:
                report.ok(rule, ci.qualname, f"__str__ defined in {m.cls.name if m.cls else '?'}")
    q = model.cls("query.JSONPathQuery")
    if q.find_method("__str__") is None:
        report.fail(rule, q.qualname, "no-str", "JSONPathQuery has no __str__")
    else:
        report.ok(rule, q.qualname, "__str__ defined")


def check_templates(model: Model, report: Report, rule: str) -> None:
    def run_str(cls_q: str, attrs_fn: Any) -> Tuple[Optional[List[Any]], Optional[str], Any]:
        ci = model.cls(cls_q)
        fn = ci.find_method("__str__")

        def body(it: Interp) -> Any:
            x = it.harness_inst(ci, "x")
            x.attrs["token"] = it.new_opaque("tok")
            x.attrs["env"] = it.new_opaque("env")
            marks = attrs_fn(it, x)
            r = it.call_function(fn, [x], {}, None, self_av=x)
            return r, marks

        try:
            runs = paths(model, body)
        except Unsupported as err:
            return None, str(err), fn
        if any(r.kind != "return" for r in runs):
            return None, "raises on some path", fn
        outs = []
        for run in runs:
            r, marks = run.value
            outs.append((merge_consts(flatten(r)), marks, {str(k): str(v) for k, v in run.ctx.world.items()}))
        return outs, None, fn

    def judge(cls_q: str, attrs_fn: Any, want_fn: Any, what: str) -> None:
        outs, err, fn = run_str(cls_q, attrs_fn)
        fnq = cls_q + ".__str__"
        if outs is None:
            report.undecided(rule, fnq, f"{what}: {err}")
            return
        all_same = True
        for got, marks, world in outs:
            want = merge_consts(want_fn(marks))
            same = len(got) == len(want)
            if same:
                for g, w in zip(got, want):
                    if isinstance(w, str):
                        same &= g == w
                    else:
                        same &= isinstance(g, tuple) and g[0] == w[0] and (g[1] is w[1] or (isinstance(g[1], IntV) and isinstance(w[1], IntV) and g[1].lin == w[1].lin))
            if not same:
                all_same = False
                show = [x if isinstance(x, str) else f"<{x[0]} {describe(x[1])}>" for x in got]
                showw = [x if isinstance(x, str) else f"<{x[0]} {describe(x[1])}>" for x in want]
                cond = f" on the path assuming {world}" if len(outs) > 1 else ""
                report.fail(rule, fnq, f"template:{what}", f"{what} renders as {show}, expected {showw}{cond}", file=fn.file, line=fn.line)
                break
        if all_same:
            report.ok(rule, fnq, what, detail={"paths": len(outs)})

    canon = model.functions.get("serialize.canonical_string")

    def with_canon(it: Interp) -> None:
        if canon is not None:
            it.hooks[canon.qualname] = lambda interp, fi, args, kw, n: Term("canonical", (args[0],), interp.ctx.new_id())

    def name_attrs(it: Interp, x: Inst) -> Any:
        with_canon(it)
        s = it.new_str("name")
        x.attrs["name"] = s
        return s

    judge("selectors.NameSelector", name_attrs, lambda s: [("canonical", s)], "name selector = canonical string")

    def idx_attrs(it: Interp, x: Inst) -> Any:
        i = it.new_int("index")
        x.attrs["index"] = i
        return i

    judge("selectors.IndexSelector", idx_attrs, lambda i: [("str", i)], "index selector = decimal")
    judge("selectors.WildcardSelector", lambda it, x: None, lambda m: ["*"], "wildcard selector = *")

    for shape in ("full", "none", "start-only"):

        def sl_attrs(it: Interp, x: Inst, shape=shape) -> Any:
            a, b, c = it.new_int("start"), it.new_int("stop"), it.new_int("step")
            if shape == "full":
                x.attrs["slice"] = SliceV(a, b, c)
                return (a, b, c)
            if shape == "none":
                x.attrs["slice"] = SliceV(Const(None), Const(None), Const(None))
                return (None, None, None)
            x.attrs["slice"] = SliceV(a, Const(None), Const(None))
            return (a, None, None)

        def sl_want(m: Any) -> List[Any]:
            a, b, c = m
            out: List[Any] = []
            if a is not None:
                out.append(("str", a))
            out.append(":")
            if b is not None:
                out.append(("str", b))
            out.append(":")
            out.append(("str", c) if c is not None else "1")
            return out

        judge("selectors.SliceSelector", sl_attrs, sl_want, f"slice selector ({shape}) = start:stop:step")

    def fs_attrs(it: Interp, x: Inst) -> Any:
        e = it.new_opaque("expression")
        x.attrs["expression"] = e
        return e

    judge("selectors.FilterSelector", fs_attrs, lambda e: ["?", ("str", e)], "filter selector = ?expression")

    for cls_q, prefix in (("segments.JSONPathChildSegment", "["), ("segments.JSONPathRecursiveDescentSegment", "..[")):

        def seg_attrs(it: Interp, x: Inst) -> Any:
            a, b = it.new_opaque("sel1"), it.new_opaque("sel2")
            x.attrs["selectors"] = PyTuple((a, b))
            return (a, b)

        judge(cls_q, seg_attrs, lambda m, prefix=prefix: [prefix, ("str", m[0]), ", ", ("str", m[1]), "]"], f"{cls_q.split('.')[-1]} = {prefix}sel, sel]")

    def q_attrs(it: Interp, x: Inst) -> Any:
        a, b = it.new_opaque("seg1"), it.new_opaque("seg2")
        x.attrs["segments"] = PyTuple((a, b))
        return (a, b)

    judge("query.JSONPathQuery", q_attrs, lambda m: ["$", ("str", m[0]), ("str", m[1])], "query = $ followed by its segments")

    # literals
    for cname, val, want in (("BooleanLiteral", Const(True), "true"), ("BooleanLiteral", Const(False), "false"), ("NullLiteral", Const(None), "null"), ("IntegerLiteral", Const(-12), "-12")):

        def lit_attrs(it: Interp, x: Inst, val=val) -> Any:
            x.attrs["value"] = val
            return None

        judge(FE + cname, lit_attrs, lambda m, want=want: [want], f"{cname}({val.value!r}) renders as {want}")

    check_number_literal_round_trip(model, report, rule, run_str)

    def sl_attrs2(it: Interp, x: Inst) -> Any:
        with_canon(it)
        s = it.new_str("s")
        x.attrs["value"] = s
        return s

    judge(FE + "StringLiteral", sl_attrs2, lambda s: [("canonical", s)], "string literal = canonical string")

    # embedded queries: '@' / '$' + the query text without its leading '$'
    for cname, lead in (("RelativeFilterQuery", "@"), ("RootFilterQuery", "$")):
        ci = model.cls(FE + cname)
        fn = ci.find_method("__str__")

        def body(it: Interp, ci=ci, fn=fn) -> Any:
            env = it.harness_inst(model.cls("environment.JSONPathEnvironment"), "env")
            x = build(it, model, env, ("q", 7))
            if ci.name == "RootFilterQuery":
                y = it.harness_inst(ci, "root")
                y.attrs.update(x.attrs)
                x = y
            return it.call_function(fn, [x], {}, None, self_av=x)

        try:
            runs = paths(model, body)
            r = runs[0].value if len(runs) == 1 and runs[0].kind == "return" else None
        except Unsupported as err:
            report.undecided(rule, fn.qualname, str(err))
            continue
        want = f"{lead}['a7']"
        if isinstance(r, Const) and r.value == want:
            report.ok(rule, fn.qualname, f"{cname} renders as {want}")
        else:
            report.fail(rule, fn.qualname, f"template:{cname}", f"{cname} of $['a7'] renders as {describe(r)!r}, expected {want!r}", file=fn.file, line=fn.line)
        # the same on an arbitrary embedded query: only the leading '$' of its text is replaced (a '$' further in —
        # in a member name, a nested filter's root query, a string literal — belongs to the query)
        from ..harness import str_parts

        def body_sym(it: Interp, ci=ci, fn=fn) -> Any:
            x = it.harness_inst(ci, "embedded")
            x.attrs["token"] = it.new_opaque("token")
            q = it.new_opaque("query", model.cls("query.JSONPathQuery"))
            x.attrs["query"] = q
            return it.call_function(fn, [x], {}, None, self_av=x), q

        try:
            runs2 = paths(model, body_sym)
        except Unsupported as err:
            report.undecided(rule, fn.qualname, f"{cname} on an arbitrary query: {err}")
            continue
        for run in runs2:
            key2 = f"template:{cname}:arbitrary-query"
            if run.kind == "raise":
                report.fail(rule, fn.qualname, key2, f"str() raises {run.exc_name()}", file=fn.file, line=fn.line)
                continue
            r2, q = run.value

            def is_text(t: Any) -> bool:
                return isinstance(t, Term) and t.op == "str" and len(t.args) == 1 and t.args[0] is q

            def tail_of_text(t: Any) -> Optional[str]:
                """None if t is the query text without its first character; else why not."""
                if isinstance(t, Term) and t.op == "strslice" and is_text(t.args[0]):
                    a, b, c = t.args[1], t.args[2], t.args[3]
                    if isinstance(a, Const) and a.value == 1 and isinstance(b, Const) and b.value is None and isinstance(c, Const) and c.value is None:
                        return None
                    return f"the slice {describe(t)!r} is not text[1:]"
                if isinstance(t, Term) and t.op == "strmeth" and is_text(t.args[0]) and t.args[1] in ("removeprefix", "lstrip") and len(t.args[2]) == 1 and isinstance(t.args[2][0], Const) and t.args[2][0].value == "$":
                    return None if t.args[1] == "removeprefix" else "lstrip('$') also removes further '$' characters"
                return f"{describe(t)!r} is not the query text without its leading '$'"

            prob = None
            parts = str_parts(r2)
            if lead == "$":
                if not (is_text(r2) or (parts is not None and len(parts) == 1 and is_text(parts[0]))):
                    prob = f"renders {describe(r2)!r}, expected str(self.query) unchanged"
            else:
                if isinstance(r2, Term) and r2.op == "strmeth" and is_text(r2.args[0]) and r2.args[1] == "replace":
                    a = r2.args[2]
                    if len(a) == 3 and isinstance(a[2], Const) and a[2].value == 1 and isinstance(a[0], Const) and a[0].value == "$" and isinstance(a[1], Const) and a[1].value == "@":
                        prob = None
                    else:
                        prob = "every '$' of the query text is rewritten, not only the leading one: a '$' in a member name, in a nested filter's root query or in a string literal changes too, and the text then denotes another query"
                elif parts is None or len(parts) != 2 or not (isinstance(parts[0], Const) and parts[0].value == "@"):
                    prob = f"renders {describe(r2)!r}, expected '@' followed by the query text without its leading '$'"
                else:
                    prob = tail_of_text(parts[1])
            if prob:
                report.fail(rule, fn.qualname, key2, f"{cname}.__str__ {prob}", file=fn.file, line=fn.line)
            else:
                report.ok(rule, fn.qualname, key2)


# one representative per spelling form of repr(float) / repr(int): sign x {fixed, exponent form without / with a
# fraction} x exponent sign, the switch-over points 1e16 and 1e-5, both zeros, and integers as repr gives them
FLOAT_FORMS = (1.5, 0.0, -0.0, 123456.789, 1000000000000000.0, 0.0001, 1e16, -1e16, 1e22, 1.5e16, 1.2345678901234567e19, 1.5e300, 1e-05, 1.5e-05, -1e-07, 2.5e-300, 5e-324, 1.7976931348623157e308)
INT_FORMS = (0, 7, -12, 1000000, 2**53 - 1, -(2**53 - 1), 10**22, int(1e30))


def check_number_literal_round_trip(model: Model, report: Report, rule: str, run_str: Any) -> None:
    """What `__str__` writes for a number literal is read back as the same literal: for one representative of every
    spelling form of repr(float), the text written for FloatLiteral(v) lies in the language the reader tokenises and
    accepts as a FLOAT (not merely as some number: text read back as an integer literal serialises differently the
    second time) and converts to v again (A1: the reader's `float(text)`); likewise IntegerLiteral and INT."""
    from . import _lexrules

    FE = "filter_expressions."
    try:
        si, sf = _lexrules.number_literal_sites(model)
    except Unsupported as err:
        report.undecided(rule, FE + "FloatLiteral.__str__", f"number literal sites: {err}")
        return
    if si.undecided or sf.undecided:
        report.undecided(rule, FE + "FloatLiteral.__str__", f"number literal sites: {si.undecided or sf.undecided}")
        return
    for cname, forms, site, conv, other in (("FloatLiteral", FLOAT_FORMS, sf, float, si), ("IntegerLiteral", INT_FORMS, si, lambda t: int(float(t)), sf)):
        fnq = FE + cname + ".__str__"
        for v in forms:

            def attrs(it: Interp, x: Inst, v=v) -> Any:
                x.attrs["value"] = Const(v)
                return None

            outs, err, fn = run_str(FE + cname, attrs)
            what = f"{cname}({v!r})"
            if outs is None:
                report.undecided(rule, fnq, f"{what}: {err}")
                continue
            ok = True
            for got, marks, world in outs:
                if len(got) != 1 or not isinstance(got[0], str):
                    report.undecided(rule, fnq, f"{what}: the text written is not a constant ({got})")
                    ok = False
                    break
                text = got[0]
                form = "exponent-form-without-fraction" if ("e" in repr(v) and "." not in repr(v)) else ("exponent-form" if "e" in repr(v) else "fixed-form")
                if not _lexrules.lang_accepts(site.accepted, text):
                    ok = False
                    as_other = _lexrules.lang_accepts(other.accepted, text)
                    how = f"it is read back as {'an integer' if cname == 'FloatLiteral' else 'a float'} literal, so serialising the reparsed query gives a different text" if as_other else "the library's own reader refuses it"
                    report.fail(rule, fnq, f"number-round-trip:{cname}:{form}:{'other-literal-class' if as_other else 'refused'}", f"{what} is written as {text!r}; {how}", file=fn.file, line=fn.line)
                    break
                try:
                    back = conv(text)
                except (ValueError, OverflowError):
                    back = None
                if back != v or (isinstance(v, float) and repr(back) != repr(v)):
                    ok = False
                    report.fail(rule, fnq, f"number-round-trip:{cname}:{form}:value", f"{what} is written as {text!r}, which reads back as {back!r}", file=fn.file, line=fn.line)
                    break
            if ok:
                report.ok(rule, fnq, f"number-round-trip:{what}")
    # values the reader can produce that have no spelling: float() of a lexeme in the FLOAT language is infinite when
    # the exponent is large (A1); repr(inf) is not a number literal.  The reader must refuse such lexemes.
    check_non_finite(model, report, rule)


def check_non_finite(model: Model, report: Report, rule: str) -> None:
    from . import _lexrules

    pf = model.cls("parse.Parser").find_method("parse_float_literal")
    if pf is None:
        raise AnalysisError("anchor vanished: Parser.parse_float_literal")
    for lexeme in ("1.0e400", "-1.0e400"):

        def body(it: Interp, lexeme=lexeme) -> Any:
            return _lexrules.literal_site(model, "FLOAT")(it, Const(lexeme))

        try:
            runs = paths(model, body)
        except Unsupported as err:
            report.undecided(rule, pf.qualname, f"non-finite:{lexeme}: {err}")
            continue
        bad = [r for r in runs if r.kind == "return"]
        if bad:
            report.fail(rule, pf.qualname, "number-round-trip:FloatLiteral:non-finite-accepted", f"the float literal {lexeme} is accepted although float({lexeme!r}) is infinite: str(query) then contains {repr(float(lexeme))!r}, which is not a number literal (the integer spelling 1e400 is refused)", file=pf.file, line=pf.line)
        else:
            report.ok(rule, pf.qualname, f"non-finite:{lexeme} refused")


def check_number_writers(model: Model, report: Report, rule: str) -> None:
    """Every spelling the literal writer can produce for an integer or a finite float (repr(value).lower(), whose
    form R12.5 checks on samples) is a lexeme the library's own number-literal reader accepts."""
    from ..automata import Alt, CharSet, Chars, Lang, Rep, Seq, lit, opt
    from . import _lexrules

    d = Chars(CharSet([(0x30, 0x39)]))
    d19 = Chars(CharSet([(0x31, 0x39)]))
    int_part = Alt(lit("0"), Seq(d19, Rep(d, 0, None)))
    sign = opt(lit("-"))
    w_int = Seq(sign, int_part)
    w_fixed = Seq(sign, int_part, lit("."), Rep(d, 1, None))
    # repr(float): exponent form only below 1e-4 and from 1e16: one non-zero digit, optional fraction, e-05.. or e+16..
    big = Seq(d19, d, opt(d))
    w_exp = Seq(sign, d19, opt(Seq(lit("."), Rep(d, 1, None))), lit("e"), Alt(Seq(lit("+"), big), Seq(lit("-"), Alt(Seq(lit("0"), Chars(CharSet([(0x35, 0x39)]))), big))))
    writer = Alt(w_int, w_fixed, w_exp)
    site = "parse.Parser.parse_float_literal"
    try:
        union, classes, why = _lexrules.number_literal_union(model, extra_rx=[writer])
    except Unsupported as err:
        union, classes, why = None, [], str(err)
    if union is None:
        report.undecided(rule, site, f"number literals: {why}")
        return
    W = Lang.from_rx(writer, classes).minimize()
    # only strings of the writer language that the reader lacks: W \ union
    bad = [dv for dv in W.product(union, "and").minimize().divergences(W) if dv.side == "b-only"]
    if bad:
        for dv in bad[:6]:
            report.fail(rule, site, f"number-writer:{dv.key()}", f"the serializer can write the number literal {dv.witness!r} (repr of an int / finite float), which the library's own reader refuses: str(query) would not compile")
    else:
        report.ok(rule, site, "every spelling repr() gives an int or a finite float (fixed and zero-padded exponent forms) is accepted by the number-literal reader")


def check(model: Model, report: Report) -> None:
    report.rule("R12.6", "the number spellings the literal writer can produce (decimal integers; repr of a finite float: fixed, or mantissa e sign two-or-more digits) are all accepted by the library's own number-literal reader")
    report.rule("R12.1", "grouping: every expression tree over {query, comparison, !, &&, ||, function call} (depth <= 2, and as function arguments) is serialised to text that the RFC filter grammar parses back to the same tree (n-ary and/or)")
    report.rule("R12.2", "serializer precedence constants equal the parser's")
    report.rule("R12.3", "every expression, selector and segment class has a __str__")
    report.rule("R12.5", "templates of selectors, segments, query, literals and embedded queries are RFC lexemes ($, [a, b], ..[a], ?expr, start:stop:step, *, canonical strings, decimal integers, true/false/null)")
    report.assumptions += ["A2: repr(float) of a finite float is an RFC number and round-trips; canonical strings are covered by C08 R08.4/R08.5"]
    report.not_decided += ["semantic equality of the reparsed query on all documents (follows from equal trees + C01-C07; argued)", "non-finite floats (outside the exactly-representable range the property quantifies over)"]
    check_number_writers(model, report, "R12.6")
    check_grouping(model, report, "R12.1")
    check_constants(model, report, "R12.2")
    check_str_methods(model, report, "R12.3")
    check_templates(model, report, "R12.5")
    from . import c08

    c08.check_writer(model, report, "R12.5", "R12.5")
    report.extra["explanation"] = "C12: serializer interpreted on enumerated expression trees, output re-parsed with a transcription of the RFC filter grammar; templates compared as terms."
