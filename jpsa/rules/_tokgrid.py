"""Exhaustive grids of token sequences through the interpreted parser (C03 / C04).

Every sequence of filter-expression tokens (up to a length bound, parentheses balanced as the
lexer guarantees) and every sequence of bracketed-selection tokens is classified by a
transcription of the RFC 9535 grammar (with the typing rules that are part of validity) and by
the *interpreted* parser; the two verdicts must agree.  Valid-but-refused is a C03 finding,
invalid-but-accepted a C04 finding.  The enumeration is complete up to the bound, so every
short token sequence and every single-token edit of a short valid query is covered.
"""

from __future__ import annotations

import itertools
import os
from concurrent.futures import ProcessPoolExecutor
from typing import Any
from typing import Dict
from typing import List
from typing import Optional
from typing import Tuple

from ..absctx import Unsupported
from ..absval import EnumV
from ..absval import Inst
from ..model import Model
from ..protocol import Report

# ------------------------------------------------------------------ filter grid
F_SYMS = ["Q", "N", "L", "==", "&&", "||", "!", "(", ")"]
F_SYMS_TYPED = F_SYMS + ["V", "B", "O"]  # zero-argument calls returning ValueType / LogicalType / NodesType
F_TOKENS: Dict[str, List[Any]] = {
    "Q": ["CURRENT", ("PROPERTY", "a")],
    "N": ["CURRENT", "WILD"],
    "L": [("INT", "1")],
    "==": ["EQ"],
    "&&": ["AND"],
    "||": ["OR"],
    "!": ["NOT"],
    "(": ["LPAREN"],
    ")": ["RPAREN"],
    "V": ["FUNCTION_gv", "RPAREN"],
    "B": ["FUNCTION_gl", "RPAREN"],
    "O": ["FUNCTION_gn", "RPAREN"],
}
F_TEXT = {"V": "gv()", "B": "gl()", "O": "gn()", "Q": "@.a", "N": "@.*", "L": "1", "==": "==", "&&": "&&", "||": "||", "!": "!", "(": "(", ")": ")"}


def balanced(seq: Tuple[str, ...]) -> bool:
    d = 0
    for s in seq:
        if s == "(":
            d += 1
        elif s == ")":
            d -= 1
            if d < 0:
                return False
    return d == 0


def rfc_filter_valid(seq: Tuple[str, ...]) -> bool:
    """logical-expr of RFC 9535 over the grid alphabet, including 2.4.3 typing (literal is not a test,
    non-singular query is not comparable)."""
    pos = 0
    n = len(seq)

    class Bad(Exception):
        pass

    def peek() -> Optional[str]:
        return seq[pos] if pos < n else None

    def take(s: str) -> None:
        nonlocal pos
        if peek() != s:
            raise Bad()
        pos += 1

    def p_or() -> None:
        p_and()
        while peek() == "||":
            take("||")
            p_and()

    def p_and() -> None:
        p_basic()
        while peek() == "&&":
            take("&&")
            p_basic()

    def p_basic() -> None:
        nonlocal pos
        neg = False
        if peek() == "!":
            take("!")
            neg = True
        if peek() == "(":
            take("(")
            p_or()
            take(")")
            if peek() == "==":
                raise Bad()
            return
        t = peek()
        if t in ("Q", "N", "L", "V", "B", "O"):
            pos += 1
            if peek() == "==":
                if neg or t in ("N", "B", "O"):
                    raise Bad()
                take("==")
                r = peek()
                if r not in ("Q", "L", "V"):
                    raise Bad()
                pos += 1
                if peek() == "==":
                    raise Bad()
                return
            if t in ("L", "V"):
                raise Bad()  # a literal / ValueType result is not a test
            return
        raise Bad()

    try:
        p_or()
        return pos == n
    except Bad:
        return False


# --------------------------------------------------------------- selection grid
S_SYMS = ["I", ":", ",", "*", "S", "F"]
S_TOKENS: Dict[str, List[Any]] = {
    "I": [("INDEX", "1")],
    ":": ["COLON"],
    ",": ["COMMA"],
    "*": ["WILD"],
    "S": [("SINGLE_QUOTE_STRING", "x")],
    # the filter ends in a literal so that a following '*' token cannot be absorbed as a shorthand segment
    "F": ["FILTER", "CURRENT", ("PROPERTY", "a"), "EQ", ("INT", "1")],
}
S_TEXT = {"I": "1", ":": ":", ",": ",", "*": "*", "S": "'x'", "F": "?@.a == 1"}


def rfc_selection_valid(seq: Tuple[str, ...]) -> bool:
    if not seq:
        return False
    parts: List[List[str]] = [[]]
    for s in seq:
        if s == ",":
            parts.append([])
        else:
            parts[-1].append(s)

    def sel(p: List[str]) -> bool:
        if p in (["*"], ["S"], ["I"], ["F"]):
            return True
        # slice: [I] ':' [I] [':' [I]]
        i = 0
        if i < len(p) and p[i] == "I":
            i += 1
        if not (i < len(p) and p[i] == ":"):
            return False
        i += 1
        if i < len(p) and p[i] == "I":
            i += 1
        if i < len(p) and p[i] == ":":
            i += 1
            if i < len(p) and p[i] == "I":
                i += 1
        return i == len(p)

    return all(sel(p) for p in parts)


# ------------------------------------------------------------------- the workers
_MODEL: Optional[Model] = None


def _model() -> Model:
    global _MODEL
    if _MODEL is None:
        _MODEL = Model()
    return _MODEL


def _verdict(entry: str, seq: Tuple[str, ...]) -> Tuple[str, str]:
    """('accept' | 'reject' | 'crash:<exc>' | 'undecided:<why>', detail)."""
    from . import _shapes

    model = _model()
    table = F_TOKENS if entry == "filter" else S_TOKENS
    spec: List[Any] = []
    for s in seq:
        spec += table[s]
    try:
        runs = _shapes.run_shape(model, entry, spec)
    except Unsupported as err:
        return "undecided", str(err)[:200]
    verdicts = set()
    for run in runs:
        if run.kind == "raise":
            isjp = isinstance(run.value, Inst) and any(c.name == "JSONPathError" for c in run.value.cls.mro())
            verdicts.add("reject" if isjp else f"crash:{run.exc_name()}")
        else:
            r, nxt = run.value
            if entry == "filter" and isinstance(nxt, EnumV) and nxt.member not in ("RBRACKET", "COMMA"):
                verdicts.add("reject")  # the enclosing selection loop refuses what follows
            else:
                verdicts.add("accept")
    if len(verdicts) == 1:
        return next(iter(verdicts)), ""
    crash = [v for v in verdicts if v.startswith("crash")]
    if crash:
        return crash[0], ""
    return "undecided", f"paths disagree: {sorted(verdicts)}"


def _work(job: Tuple[str, Tuple[str, ...]]) -> Tuple[str, Tuple[str, ...], str, str]:
    entry, seq = job
    v, d = _verdict(entry, seq)
    return entry, seq, v, d


def grid_jobs(max_filter: int, max_selection: int, max_typed: int = 0) -> List[Tuple[str, Tuple[str, ...]]]:
    jobs: List[Tuple[str, Tuple[str, ...]]] = []
    seen = set()
    for n in range(1, max_filter + 1):
        for seq in itertools.product(F_SYMS, repeat=n):
            if balanced(seq):
                jobs.append(("filter", seq))
                seen.add(seq)
    for n in range(1, max_typed + 1):
        for seq in itertools.product(F_SYMS_TYPED, repeat=n):
            if balanced(seq) and seq not in seen:
                jobs.append(("filter", seq))
    for n in range(0, max_selection + 1):
        for seq in itertools.product(S_SYMS, repeat=n):
            jobs.append(("selection", seq))
    return jobs


def run_grid(max_filter: int, max_selection: int, max_typed: int = 0) -> List[Tuple[str, Tuple[str, ...], str, str]]:
    jobs = grid_jobs(max_filter, max_selection, max_typed)
    workers = int(os.environ.get("JPSA_JOBS", "0") or 0) or min(16, os.cpu_count() or 1)
    if workers <= 1 or len(jobs) < 200:
        return [_work(j) for j in jobs]
    chunk = max(1, len(jobs) // (workers * 8))
    with ProcessPoolExecutor(workers) as ex:
        return list(ex.map(_work, jobs, chunksize=chunk))


def check_grid(model: Model, report: Report, rule: str, want_valid: bool) -> None:
    thorough = report.tier == "thorough"
    mf, ms, mt = (5, 5, 4) if thorough else (4, 4, 3)
    results = run_grid(mf, ms, mt)
    n = 0
    n_valid = 0
    bad: List[Tuple[int, str, str]] = []
    undecided: List[str] = []
    for entry, seq, verdict, detail in results:
        valid = rfc_filter_valid(seq) if entry == "filter" else rfc_selection_valid(seq)
        n += 1
        n_valid += 1 if valid else 0
        text = ("?" if entry == "filter" else "[") + " ".join((F_TEXT if entry == "filter" else S_TEXT)[s] for s in seq) + ("" if entry == "filter" else "]")
        key = f"grid:{entry}:{' '.join(seq) or '<empty>'}"
        if verdict == "undecided":
            undecided.append(f"{text}: {detail}")
            continue
        if verdict.startswith("crash"):
            if not want_valid:
                bad.append((len(seq), key, f"'{text}' makes the parser raise {verdict[6:]} instead of a JSONPathError"))
            continue
        if want_valid and valid and verdict == "reject":
            bad.append((len(seq), key, f"'{text}' is grammatical and well-typed but is refused"))
        if not want_valid and not valid and verdict == "accept":
            bad.append((len(seq), key, f"'{text}' is not derivable from the RFC 9535 grammar (or is ill-typed) but is accepted"))
    site = "parse.Parser.parse_filter_expression"
    for u in undecided[:3]:
        report.undecided(rule, site, u)
    bad.sort()
    for _l, key, msg in bad[:25]:
        report.fail(rule, site if key.startswith("grid:filter") else "parse.Parser.parse_bracketed_selection", key, msg)
    if not bad and not undecided:
        report.ok(rule, site, f"token grid: all {n} sequences (filter tokens <= {mf}, selection tokens <= {ms}) agree with the grammar", detail={"sequences": n, "valid": n_valid})
    report.extra["token_grid"] = {"sequences": n, "valid": n_valid, "max_filter_tokens": mf, "max_selection_tokens": ms, "max_typed_filter_tokens": mt, "disagreements": len(bad)}
    report.extra["exhaustive"] = True
