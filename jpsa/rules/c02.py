"""C02 — filter selection: existence tests, logic, scoping, iteration."""

from __future__ import annotations

from typing import Any
from typing import Dict
from typing import List
from typing import Optional

from ..absctx import Unsupported
from ..absint import AbsRaise
from ..absint import Interp
from ..absval import *  # noqa: F403
from ..harness import describe
from ..harness import expr_stub
from ..harness import make_node
from ..harness import make_nodelist
from ..harness import make_stream
from ..harness import make_token
from ..harness import nothing
from ..harness import paths
from ..harness import real_env
from ..model import AnalysisError
from ..model import Model
from ..protocol import Report
from . import _filtersel
from ._sel import KINDS
from ._sel import make_env

FE = "filter_expressions."


def abstract_nl(it: Interp, model: Model, label: str, lo: int, hi: Optional[int]) -> Inst:
    return it.host.abstract_nodelist(model.cls("node.JSONPathNodeList"), label, lo, hi, model.cls("node.JSONPathNode"))


def operand_cells() -> List[str]:
    return ["true", "false", "nl0", "nlmany"] + [f"nl1:{k}" for k in KINDS]


def make_operand(it: Interp, model: Model, cell: str, label: str) -> Any:
    if cell == "true":
        return Const(True)
    if cell == "false":
        return Const(False)
    if cell == "nl0":
        return make_nodelist(it, model, [], label)
    if cell == "nlmany":
        return abstract_nl(it, model, label, 2, None)
    k = cell.split(":")[1]
    return make_nodelist(it, model, [make_node(it, model, it.new_sym(f"{label}.value", [k]), label)], label)


def truth_of(cell: str) -> bool:
    if cell in ("true", "false"):
        return cell == "true"
    return cell != "nl0"


def check_truthiness(model: Model, report: Report, rule: str) -> None:
    ci = model.cls(FE + "FilterExpression")
    fn = ci.find_method("evaluate")
    if fn is None:
        raise AnalysisError("anchor vanished: FilterExpression.evaluate")
    # the wrapped expression may be of any class: whatever it is, the test is the truthiness of ITS evaluate(context)
    # on the SAME context (an embedded query evaluated some other way loses the root of the query argument)
    cells = [(c, "Expression") for c in operand_cells()]
    cells += [(c, q) for c in operand_cells() if c.startswith("nl") for q in ("RelativeFilterQuery", "RootFilterQuery")]
    for cell, inner_cls in cells:

        def body(it: Interp, cell=cell, inner_cls=inner_cls) -> Any:
            inst = it.harness_inst(ci, "filter")
            inst.attrs["token"] = it.new_opaque("token")
            ctxo = it.new_opaque("context", model.cls(FE + "FilterContext"))
            res = make_operand(it, model, cell, "result")

            def ev(interp: Interp, args: List[Any], kwargs: Dict[str, Any]) -> Any:
                if len(args) != 1 or args[0] is not ctxo or kwargs:
                    raise AbsRaise(HostExc("AssertionError", "the wrapped expression is evaluated on another context than the one the filter was given"), None)
                return res

            inst.attrs["expression"] = expr_stub(it, model, ev, "inner", FE + inner_cls)
            return it.call_function(fn, [inst, ctxo], {}, None, self_av=inst)

        key = f"test-truth:{cell}" + ("" if inner_cls == "Expression" else f":{inner_cls}")
        try:
            runs = paths(model, body)
        except Unsupported as err:
            report.undecided(rule, fn.qualname, f"{key}: {err}")
            continue
        want = truth_of(cell)
        good = True
        for run in runs:
            got = None
            if run.kind == "raise":
                got = f"raises {run.exc_name()}"
            elif not (isinstance(run.value, Const) and isinstance(run.value.value, bool)):
                got = f"returns {describe(run.value)!r} (not a boolean)"
            elif run.value.value != want:
                got = f"returns {run.value.value}"
            if got:
                why = "a test is true iff the query selects at least one node, whatever its value" if cell.startswith("nl") else "a logical result is itself"
                report.fail(rule, fn.qualname, key, f"filter test on {cell} {got}, expected {want} ({why}); assumptions {_w(run)}", file=fn.file, line=fn.line, what=key)
                good = False
        if good:
            report.ok(rule, fn.qualname, key, detail={"paths": len(runs)})
    report.touched(fn.qualname)


def _w(run: Any) -> Dict[str, str]:
    return {str(k): str(v) for k, v in run.ctx.world.items() if isinstance(k, tuple) and k[0] in ("truth", "kind", "rel")}


def check_logic(model: Model, report: Report, rule: str) -> None:
    le = model.cls(FE + "LogicalExpression")
    pe = model.cls(FE + "PrefixExpression")
    fl = le.find_method("evaluate")
    fp = pe.find_method("evaluate")
    cells = operand_cells()
    thorough = report.tier == "thorough"
    small = ["true", "false", "nl0", "nlmany", "nl1:null", "nl1:bool", "nl1:int", "nl1:str", "nl1:list"]
    for op in ("&&", "||"):
        for lc in (cells if thorough else small):
            for rc in (cells if thorough else small):

                def body(it: Interp, op=op, lc=lc, rc=rc) -> Any:
                    inst = it.harness_inst(le, "logical")
                    inst.attrs["token"] = it.new_opaque("token")
                    inst.attrs["left"] = expr_stub(it, model, make_operand(it, model, lc, "left"), "left")
                    inst.attrs["right"] = expr_stub(it, model, make_operand(it, model, rc, "right"), "right")
                    inst.attrs["operator"] = Const(op)
                    ctxo = it.new_opaque("context", model.cls(FE + "FilterContext"))
                    return it.call_function(fl, [inst, ctxo], {}, None, self_av=inst)

                key = f"logic:{lc} {op} {rc}"
                try:
                    runs = paths(model, body)
                except Unsupported as err:
                    report.undecided(rule, fl.qualname, f"{key}: {err}")
                    continue
                want = (truth_of(lc) and truth_of(rc)) if op == "&&" else (truth_of(lc) or truth_of(rc))
                _judge_bool(report, rule, fl, key, runs, want)
    for rc in cells:

        def body2(it: Interp, rc=rc) -> Any:
            inst = it.harness_inst(pe, "prefix")
            inst.attrs["token"] = it.new_opaque("token")
            inst.attrs["right"] = expr_stub(it, model, make_operand(it, model, rc, "right"), "right")
            inst.attrs["operator"] = Const("!")
            ctxo = it.new_opaque("context", model.cls(FE + "FilterContext"))
            return it.call_function(fp, [inst, ctxo], {}, None, self_av=inst)

        key = f"logic:! {rc}"
        try:
            runs = paths(model, body2)
        except Unsupported as err:
            report.undecided(rule, fp.qualname, f"{key}: {err}")
            continue
        _judge_bool(report, rule, fp, key, runs, not truth_of(rc))
    report.touched(fl.qualname, fp.qualname)


def _judge_bool(report: Report, rule: str, fn: Any, key: str, runs: List[Any], want: bool) -> None:
    good = True
    for run in runs:
        got = None
        if run.kind == "raise":
            got = f"raises {run.exc_name()}"
        elif isinstance(run.value, Const) and isinstance(run.value.value, bool):
            if run.value.value != want:
                got = f"returns {run.value.value}"
        else:
            # a non-boolean result is acceptable only if its truthiness under the test conversion is right;
            # the enclosing FilterExpression converts it, so judge it by host truthiness of what is returned
            try:
                t = run.interp.truth(run.value)
            except Exception:  # noqa: BLE001
                t = None
            if t is None or t != want:
                got = f"returns {describe(run.value)!r}"
        if got:
            report.fail(rule, fn.qualname, key, f"{key} {got}, expected {want}; assumptions {_w(run)}", file=fn.file, line=fn.line, what=key)
            good = False
    if good:
        report.ok(rule, fn.qualname, key, detail={"paths": len(runs)})


def check_scoping(model: Model, report: Report, rule: str) -> None:
    """@ -> context.current, $ -> context.root; embedded queries always give a nodelist; root is carried."""
    qci = model.cls("query.JSONPathQuery")
    nl_cls = model.cls("node.JSONPathNodeList")
    for cls_name, want_attr in (("RelativeFilterQuery", "current"), ("RootFilterQuery", "root")):
        ci = model.cls(FE + cls_name)
        fn = ci.find_method("evaluate")
        if fn is None:
            raise AnalysisError(f"anchor vanished: {cls_name}.evaluate")
        for empty_query in (True, False):
            for kind in KINDS:

                def body(it: Interp, kind=kind, empty_query=empty_query, ci=ci, fn=fn) -> Any:
                    env = make_env(it, model, False)
                    q = it.harness_inst(qci, "subquery")
                    q.attrs["env"] = env
                    calls: List[Any] = []
                    if empty_query:
                        q.attrs["segments"] = PyTuple(())
                    else:
                        seg = it.harness_inst(model.cls("segments.JSONPathSegment"), "segment")

                        def resolve(interp: Interp, args: List[Any], kwargs: Dict[str, Any]) -> Any:
                            calls.append(args[0] if args else None)
                            return it.new_list([])

                        it.stubs[(seg.id, "resolve")] = resolve
                        q.attrs["segments"] = PyTuple((seg,))
                    inst = it.harness_inst(ci, "embedded-query")
                    inst.attrs["token"] = it.new_opaque("token")
                    inst.attrs["query"] = q
                    cur = it.new_sym("current", [kind])
                    root = it.new_sym("root")
                    c = it.harness_inst(model.cls(FE + "FilterContext"), "context")
                    c.attrs.update({"env": env, "current": cur, "root": root})
                    r = it.call_function(fn, [inst, c], {}, None, self_av=inst)
                    return r, cur, root, calls, it

                key = f"scope:{cls_name}:{'bare' if empty_query else 'with-segments'}:{kind}"
                try:
                    runs = paths(model, body)
                except Unsupported as err:
                    report.undecided(rule, fn.qualname, f"{key}: {err}")
                    continue
                probs: Dict[str, str] = {}
                for run in runs:
                    if run.kind == "raise":
                        probs["raises"] = f"raises {run.exc_name()}"
                        continue
                    r, cur, root, calls, it = run.value
                    target = cur if want_attr == "current" else root
                    if not (isinstance(r, Inst) and r.cls.is_subclass_of(nl_cls)):
                        probs["not-a-nodelist"] = (
                            f"evaluates to {describe(r)!r}, not a nodelist: an embedded query used as a test must be true iff it selects a node, whatever the node's value"
                        )
                        continue
                    # which node does the query start from?
                    start = None
                    if empty_query:
                        try:
                            items = it.concrete_items(r, None)
                        except Exception:  # noqa: BLE001
                            items = []
                        if len(items) != 1:
                            probs["bare-query-count"] = f"a bare {'@' if want_attr == 'current' else '$'} selects {len(items)} nodes, expected exactly the {want_attr} node"
                            continue
                        start = items[0]
                    else:
                        if len(calls) == 0 and kind not in ("list", "dict"):
                            try:
                                empty = len(it.concrete_items(r, None)) == 0
                            except Exception:  # noqa: BLE001
                                empty = False
                            if empty:
                                continue  # shortcut: every selector selects nothing on a scalar (R01.5)
                        if len(calls) != 1:
                            probs["segment-calls"] = f"the embedded query's segment is resolved {len(calls)} times"
                            continue
                        try:
                            items = it.concrete_items(calls[0], None)
                        except Exception:  # noqa: BLE001
                            items = []
                        if len(items) != 1:
                            probs["start-count"] = f"the embedded query starts from {len(items)} nodes"
                            continue
                        start = items[0]
                    if not (isinstance(start, Inst) and start.cls.name == "JSONPathNode"):
                        probs["start-kind"] = f"starts from {describe(start)!r}"
                        continue
                    if start.attrs.get("value") is not target:
                        probs["start-value"] = f"the embedded query is applied to {describe(start.attrs.get('value'))!r}, expected context.{want_attr}"
                    if start.attrs.get("root") is not root:
                        probs["root-lost"] = (
                            f"nodes of the embedded query carry root {describe(start.attrs.get('root'))!r} instead of the root of the query argument, "
                            "so a nested '$' inside it is evaluated against the wrong value (e.g. $.a[?@.b[?$.x == 1]])"
                        )
                if probs:
                    for pk, msg in probs.items():
                        report.fail(rule, fn.qualname, f"{key}:{pk}", msg, file=fn.file, line=fn.line, what=key)
                else:
                    report.ok(rule, fn.qualname, key, detail={"paths": len(runs)})
        report.touched(fn.qualname)


def check_tables(model: Model, report: Report, rule: str) -> None:
    pci = model.cls("parse.Parser")
    site = "parse.Parser"

    def body(it: Interp) -> Any:
        env = real_env(it, model)
        parser = env.attrs["parser"]
        prec = it.getattr(parser, "PRECEDENCES")
        binops = it.getattr(parser, "BINARY_OPERATORS")
        cmpops = it.getattr(parser, "COMPARISON_OPERATORS")
        tmap = parser.attrs.get("token_map")
        return prec, binops, cmpops, tmap, parser

    runs = paths(model, body)
    if len(runs) != 1 or runs[0].kind != "return":
        raise AnalysisError("parser tables cannot be evaluated")
    prec, binops, cmpops, tmap, parser = runs[0].value

    def tbl(d: Any) -> Dict[str, Any]:
        out = {}
        for hk, v in d.items.items():
            k = d.keys_av[hk]
            out[k.member if isinstance(k, EnumV) else repr(k)] = v.value if isinstance(v, Const) else v
        return out

    P = tbl(prec)
    B = tbl(binops)
    cmp_tokens = ["EQ", "NE", "LT", "LE", "GT", "GE"]
    lex = {"EQ": "==", "NE": "!=", "LT": "<", "LE": "<=", "GT": ">", "GE": ">=", "AND": "&&", "OR": "||"}
    ok = True
    for t in cmp_tokens + ["AND", "OR", "NOT"]:
        if t not in P:
            report.fail(rule, site, f"precedence-missing:{t}", f"PRECEDENCES has no entry for {t}")
            ok = False
    if ok:
        cmpv = {P[t] for t in cmp_tokens}
        if len(cmpv) != 1:
            report.fail(rule, site, "precedence:comparison-unequal", f"comparison operators have different precedences {sorted(cmpv)}")
            ok = False
        elif not (P["OR"] < P["AND"] < next(iter(cmpv)) < P["NOT"]):
            report.fail(rule, site, "precedence:order", f"precedence order must be || < && < comparison < !, found OR={P['OR']} AND={P['AND']} CMP={next(iter(cmpv))} NOT={P['NOT']}")
            ok = False
    for t, l in lex.items():
        if B.get(t) != l:
            report.fail(rule, site, f"binary-operator:{t}", f"BINARY_OPERATORS maps {t} to {B.get(t)!r}, expected {l!r}")
            ok = False
    extra = set(B) - set(lex)
    if extra:
        report.fail(rule, site, "binary-operator:extra", f"BINARY_OPERATORS has unexpected entries {sorted(extra)}")
        ok = False
    if isinstance(cmpops, PySet):
        got = sorted(cmpops.keys_av[k].value for k in cmpops.items)
        if got != sorted(lex[t] for t in cmp_tokens):
            report.fail(rule, site, "comparison-operators", f"COMPARISON_OPERATORS is {got}")
            ok = False
    else:
        report.undecided(rule, site, "COMPARISON_OPERATORS is not a set literal")
    if ok:
        report.ok(rule, site, "precedence and operator tables", detail={"PRECEDENCES": P, "BINARY_OPERATORS": B})
    # token_map: @ -> relative query, $ -> root query
    if isinstance(tmap, PyDict):
        T = {tmap.keys_av[k].member: v for k, v in tmap.items.items() if isinstance(tmap.keys_av[k], EnumV)}
        for tok, cls_name, attr in (("CURRENT", "RelativeFilterQuery", "current"), ("ROOT", "RootFilterQuery", "root")):
            m = T.get(tok)
            if not isinstance(m, BoundMethod):
                report.fail(rule, site, f"token-map:{tok}", f"token_map has no parser for {tok}")
                continue

            def body2(it: Interp, tok=tok) -> Any:
                env = real_env(it, model)
                parser = env.attrs["parser"]
                q = it.new_str("query")
                toks = [make_token(it, model, tok, Const("@" if tok == "CURRENT" else "$"), "t0", q), make_token(it, model, "EOF", Const(""), "eof", q)]
                st = make_stream(it, model, toks)
                tm = parser.attrs["token_map"]
                from ..absint import hkey

                f = tm.items[hkey(EnumV(model.cls("tokens.TokenType"), tok))]
                return it.call(f, [st], {})

            try:
                rr = paths(model, body2)
            except Unsupported as err:
                report.undecided(rule, site, f"token-map:{tok}: {err}")
                continue
            good = all(r.kind == "return" and isinstance(r.value, Inst) and r.value.cls.name == cls_name for r in rr)
            if good:
                report.ok(rule, m.fi.qualname, f"token {tok} builds {cls_name}")
            else:
                got = [describe(r.value) for r in rr]
                report.fail(rule, m.fi.qualname, f"token-map:{tok}", f"token {tok} builds {got}, expected {cls_name}", file=m.fi.file, line=m.fi.line)
    else:
        report.undecided(rule, site, "parser.token_map is not a dict literal")
    report.touched("parse.Parser.__init__")


def check(model: Model, report: Report) -> None:
    report.rule("R02.1", "FilterSelector.resolve: per child a fresh context (env, current=child itself, root=node.root); child kept iff expression true; order and pairing as C01; scalars select nothing")
    report.rule("R02.2", "embedded queries evaluate to a nodelist on every path and start from context.current (@) / context.root ($) carrying the root of the query argument")
    report.rule("R02.3", "test truthiness: empty nodelist false, non-empty true whatever the node values are, booleans themselves")
    report.rule("R02.4", "&&, ||, ! are classical logic over test truthiness, operands in source order")
    report.rule("R02.6", "the parser builds exactly the expression tree the grammar describes for ~45 token shapes: operators kept, negations kept, grouping by precedence and associativity, @ / $ queries")
    report.rule("R02.5", "precedence table || < && < comparison < !; operator tables; @ and $ build Relative/Root queries")
    report.assumptions += ["A1 host truthiness/len/isinstance semantics"]
    report.not_decided += ["grouping for arbitrary parenthesisation beyond the precedence/grouping shapes checked by C12/C04 rules"]
    _filtersel.check_filter_selector(model, report, "R02.1", nondet=False)
    # the same rule with the nondeterministic flag on: every child is still tested exactly once and kept iff true
    # (members may come in any order; a member tested twice or never changes the selection)
    _filtersel.check_filter_selector(model, report, "R02.1", nondet=True)
    report.rule("R02.7", "a query handed to a LogicalType parameter of any function is an existence test: true iff it selects at least one node, whatever the node's value and wherever the parameter stands (C10's conversion cells for LogicalType)")
    from . import c10

    c10.check_conversions(model, report, "R02.7", only_decl="LOGICAL")
    check_scoping(model, report, "R02.2")
    check_truthiness(model, report, "R02.3")
    check_logic(model, report, "R02.4")
    check_tables(model, report, "R02.5")
    from . import _shapes

    _shapes.check_trees(model, report, "R02.6")
    report.extra["explanation"] = "C02: filter selector trace per kind x outcome; truthiness and logic tables over (bool, empty/singleton-of-each-kind/many nodelists); scoping of @/$ with concrete root flow; parser tables evaluated from Parser.__init__ and class attributes."
