"""Segment-level trace rules shared by C01 / C17 / C18."""

from __future__ import annotations

import ast

from typing import Any
from typing import Dict
from typing import List
from typing import Optional
from typing import Tuple

from ..absctx import Unsupported
from ..absint import Interp
from ..absval import *  # noqa: F403
from ..harness import describe
from ..harness import make_node
from ..harness import paths
from ..model import AnalysisError
from ..model import Model
from ..model import walk_own
from ..numeric import Lin
from ..protocol import Report
from ._sel import *  # noqa: F403
from ._sel import Expect
from ._selrules import _report
from ._selrules import _world


def make_segment(it: Interp, model: Model, cls_qual: str, env: Inst) -> Inst:
    ci = model.cls(cls_qual)
    s = it.harness_inst(ci, "segment")
    s.attrs["env"] = env
    s.attrs["token"] = it.new_opaque("segment.token", model.cls("tokens.Token"))
    sels = it.new_opaque("segment.selectors")
    sels.children["__elem_hint__"] = ClassV(model.cls("selectors.JSONPathSelector"))
    s.attrs["selectors"] = sels
    return s


def opaque_nodes(it: Interp, model: Model) -> Opaque:
    nodes = it.new_opaque("nodes")
    nodes.children["__elem_hint__"] = ClassV(model.cls("node.JSONPathNode"))
    return nodes


def _is_resolve_call(ev: Ev, sel_elem: Any, node_elem: Any) -> Optional[str]:
    if ev.kind != "yield_from":
        return f"innermost event is {show_trace([ev])}, expected `yield from selector.resolve(node)`"
    t = ev.value
    if not (isinstance(t, Term) and t.op == "call"):
        return f"yields from {describe(t)!r}, expected selector.resolve(node)"
    recv, name, args, kwargs = t.args
    if recv is not sel_elem:
        return f"resolve is called on {describe(recv)!r}, not on the selector of the inner loop"
    if name != "resolve":
        return f"calls selector.{name}, expected selector.resolve"
    if len(args) != 1 or args[0] is not node_elem or kwargs:
        return f"selector.resolve is given {[describe(a) for a in args]!r}, expected exactly the current node"
    return None


def _loop(evs: List[Ev], x: Expect, what: str) -> Optional[Ev]:
    evs = strip_empty_loops(evs)
    if len(evs) != 1 or evs[0].kind != "foreach":
        x.bad(f"trace is {show_trace(evs)}, expected one loop over {what}", evs[0] if evs else None)
        return None
    return evs[0]


# ------------------------------------------------------------- child segment
def check_child_segment(model: Model, report: Report, rule: str) -> None:
    ci = model.cls("segments.JSONPathChildSegment")
    fn = ci.find_method("resolve")

    def body(it: Interp) -> Any:
        env = make_env(it, model, None)
        seg = make_segment(it, model, "segments.JSONPathChildSegment", env)
        nodes = opaque_nodes(it, model)
        ev, term = run_trace(it, fn, [seg, nodes], seg)
        return ev, term, seg, nodes

    cell = "child-segment:node-major,selector-minor"
    try:
        runs = paths(model, body)
    except Unsupported as err:
        report.undecided(rule, fn.qualname, f"{cell}: {err}")
        return
    good = True
    for run in runs:
        x = Expect()
        if run.kind == "raise":
            x.bad(f"raises {run.exc_name()}")
        else:
            ev, term, seg, nodes = run.value
            _nesting(x, ev, term, nodes, seg, via_visitor=None)
        good &= _report(report, rule, fn, cell, x, run, {"world": _world(run)})
    if good:
        report.ok(rule, fn.qualname, cell, detail={"paths": len(runs)})
    report.touched(fn.qualname)


def _nesting(x: Expect, ev: List[Ev], term: Any, nodes: Any, seg: Inst, via_visitor: Optional[str]) -> None:
    if term is not None:
        x.bad(f"raises {describe(term.exc)}")
        return
    eff = effects_problem(ev)
    if eff:
        x.bad(eff[0], eff[1])
        return
    outer = _loop(ev, x, "the input nodes")
    if outer is None:
        return
    if base_of(outer.src) is not nodes or outer.src.view != "opaque":
        x.bad(f"outer loop iterates {outer.src!r}, expected the input nodelist", outer)
        return
    op = order_problem(outer.src)
    if op:
        x.bad("input nodes: " + op, outer)
        return
    node_elem = outer.elem.target
    inner_events = outer.body
    cur_node = node_elem
    if via_visitor is not None:
        mid = _loop(inner_events, x, "the nodes visited below the input node")
        if mid is None:
            return
        b = base_of(mid.src)
        if not (isinstance(b, Term) and b.op == "visit" and b.args[0] == via_visitor):
            x.bad(f"middle loop iterates {mid.src!r}, expected {via_visitor}(node)", mid)
            return
        if len(b.args[1]) != 1 or b.args[1][0] is not node_elem:
            x.bad(f"{via_visitor} is called with {[describe(a) for a in b.args[1]]!r}, expected exactly the input node (so that depth starts at its default)", mid)
            return
        op = order_problem(mid.src)
        if op:
            x.bad("visited nodes: " + op, mid)
            return
        cur_node = mid.elem.target
        inner_events = mid.body
    inner = _loop(inner_events, x, "the segment's selectors")
    if inner is None:
        return
    if base_of(inner.src) is not seg.attrs["selectors"]:
        x.bad(f"inner loop iterates {inner.src!r}, expected self.selectors", inner)
        return
    op = order_problem(inner.src)
    if op:
        x.bad("selectors: " + op, inner)
        return
    body = strip_empty_loops(inner.body)
    if len(body) != 1:
        x.bad(f"selector loop body is {show_trace(body)}, expected one `yield from selector.resolve(node)`", body[0] if body else inner)
        return
    p = _is_resolve_call(body[0], inner.elem.target, cur_node)
    if p:
        x.bad(p, body[0])


# -------------------------------------------------------- descendant segment
def check_descendant_nesting(model: Model, report: Report, rule: str) -> None:
    ci = model.cls("segments.JSONPathRecursiveDescentSegment")
    fn = ci.find_method("resolve")
    visitors = {False: "_visit", True: "_nondeterministic_visit"}
    for nondet in (False, True):

        def body(it: Interp, nondet=nondet) -> Any:
            env = make_env(it, model, nondet)
            seg = make_segment(it, model, "segments.JSONPathRecursiveDescentSegment", env)
            nodes = opaque_nodes(it, model)

            def mkhook(name: str):
                def hook(interp: Interp, fi: Any, args: List[Any], kwargs: Dict[str, Any], node: Any) -> Any:
                    t = Term("visit", (name, tuple(args[1:]), tuple(sorted(kwargs.items()))), interp.ctx.new_id())
                    o = interp.new_opaque(f"{name}(...)")
                    o.children["__elem_hint__"] = ClassV(model.cls("node.JSONPathNode"))
                    t2 = Term("visit", (name, tuple(args[1:]) + tuple(v for _, v in sorted(kwargs.items()))), interp.ctx.new_id())
                    return t2

                return hook

            for name in visitors.values():
                m = ci.find_method(name)
                if m is None:
                    raise AnalysisError(f"anchor vanished: JSONPathRecursiveDescentSegment.{name}")
                it.hooks[m.qualname] = mkhook(name)
            ev, term = run_trace(it, fn, [seg, nodes], seg)
            return ev, term, seg, nodes

        cell = f"descendant-segment:node>visited-node>selector:{'nondet' if nondet else 'det'}"
        try:
            runs = paths(model, body)
        except Unsupported as err:
            report.undecided(rule, fn.qualname, f"{cell}: {err}")
            continue
        good = True
        for run in runs:
            x = Expect()
            if run.kind == "raise":
                x.bad(f"raises {run.exc_name()}")
            else:
                ev, term, seg, nodes = run.value
                _nesting(x, ev, term, nodes, seg, via_visitor=visitors[nondet])
            good &= _report(report, rule, fn, cell, x, run, {"world": _world(run)})
        if good:
            report.ok(rule, fn.qualname, cell, detail={"paths": len(runs)})
    report.touched(fn.qualname)


# ------------------------------------------------------------------- _visit
def check_visit(model: Model, report: Report, rule_order: str, rule_depth: Optional[str] = None) -> None:
    """Deterministic visitor: pre-order, document order, containers only, depth discipline."""
    ci = model.cls("segments.JSONPathRecursiveDescentSegment")
    fn = ci.find_method("_visit")
    if fn is None:
        raise AnalysisError("anchor vanished: JSONPathRecursiveDescentSegment._visit")
    params = [a.arg for a in fn.node.args.args]
    if len(params) < 3:
        _check_visit_without_depth(model, report, rule_depth or rule_order, fn)
        return
    if any(isinstance(n, ast.While) for n in walk_own(fn.node)):
        _check_visit_tail_loop(model, report, rule_order, rule_depth, fn)
        return
    # parameters beyond (self, node, depth) are handed down by the recursion: a generic call below the start node
    # receives whatever earlier levels left in them, so each cell is also run with those parameters unknown
    extra = params[3:]
    variants = ["start"] + (["below"] if extra else [])
    for kind in KINDS:
        for region, variant in [(r, v_) for r in ("within", "exceeded") for v_ in variants]:

            def body(it: Interp, kind=kind, region=region, variant=variant) -> Any:
                env = make_env(it, model, False)
                seg = make_segment(it, model, "segments.JSONPathRecursiveDescentSegment", env)
                v = it.new_sym("V", [kind])
                node = make_node(it, model, v, "node")
                depth = it.new_int("depth", 1)
                limit = env.attrs["max_recursion_depth"].lin
                if region == "within":
                    it.ctx.assume_le0(depth.lin - limit)
                else:
                    it.ctx.assume_le0(limit - depth.lin + Lin.k(1))
                it.hooks["__recursion_cut__"] = {fn.qualname}
                args = [seg, node, depth]
                if variant == "below":
                    args += [it.new_opaque(f"handed-down-by-the-recursion:{p_}") for p_ in extra]
                ev, term = run_trace(it, fn, args, seg)
                return ev, term, node, v, seg, depth, it

            cell = f"visit:{kind}:depth-{region}" + ("" if variant == "start" else ":below-start-node")
            try:
                runs = paths(model, body)
            except Unsupported as err:
                report.undecided(rule_order, fn.qualname, f"{cell}: {err}")
                continue
            good = True
            for run in runs:
                x = Expect()
                xd = Expect()
                if run.kind == "raise":
                    x.bad(f"raises {run.exc_name()} outside the iterator")
                else:
                    ev, term, node, v, seg, depth, it = run.value
                    _visit_expect(x, xd, ev, term, node, v, seg, depth, kind, region, fn, it)
                good &= _report(report, rule_order, fn, cell, x, run, {"world": _world(run)})
                if rule_depth:
                    good &= _report(report, rule_depth, fn, cell, xd, run, {"world": _world(run)})
            if good:
                report.ok(rule_order, fn.qualname, cell, detail={"paths": len(runs)})
                if rule_depth:
                    report.ok(rule_depth, fn.qualname, cell, detail={"paths": len(runs)})
    report.touched(fn.qualname)


def _check_visit_tail_loop(model: Model, report: Report, rule_order: str, rule_depth: Optional[str], fn: Any) -> None:
    """The visitor descends by a `while` loop that rebinds (node, depth) - a tail call written as a loop - next to or
    instead of recursion.  Decided by induction over the loop: ONE generic iteration is interpreted from the state in
    which the loop head is first reached (every path, recursion cut), with no assumption relating depth and limit,
    and four obligations are checked *at the program points themselves* (the octagon holds the path condition there):

      yield      a node is handed out only where the path condition entails depth <= env.max_recursion_depth for
                 the depth variable as it stands at that point, and the node is the current `node`;
      recursion  a recursive call is made on a child of the node with depth + 1;
      step       at the end of the iteration the rebound node is a child of the node at the head and the rebound
                 depth is the head's depth + 1;
      invariant  what the octagon knew about depth and limit at the head (the guard already passed, or nothing)
                 holds again for the rebound depth.

    Only the depth discipline (C18) is decided this way; the order of the nodes (C01) is not."""
    if rule_depth is None:
        report.undecided(rule_order, fn.qualname, "visit: the visitor descends by a while loop; the order of the nodes it yields is not decided for this shape")
        report.touched(fn.qualname)
        return
    params = [a.arg for a in fn.node.args.args]
    pn, pd = params[1], params[2]
    problems: Dict[str, str] = {}
    notes: List[str] = []
    n_paths = 0
    n_points = 0

    def is_child(x: Any, parent: Any) -> bool:
        if not (isinstance(x, Inst) and isinstance(parent, Inst)) or x is parent:
            return False
        loc = x.attrs.get("location")
        return isinstance(loc, Term) and loc.op == "add" and loc.args[0] is parent.attrs.get("location") and isinstance(loc.args[1], PyTuple) and len(loc.args[1].items) == 1

    for kind in ("list", "dict"):

        def body(it: Interp, kind=kind) -> Any:
            nonlocal n_points
            env = make_env(it, model, False)
            seg = make_segment(it, model, "segments.JSONPathRecursiveDescentSegment", env)
            v = it.new_sym("V", [kind])
            node = make_node(it, model, v, "node")
            depth = it.new_int("depth", 1)
            limit = env.attrs["max_recursion_depth"].lin
            found: List[Tuple[str, str]] = []
            head: Dict[str, Any] = {}

            def within(d: Any) -> bool:
                return isinstance(d, IntV) and bool(it.ctx.oct.entails_le0(d.lin - limit))

            def on_yield(interp: Interp, val: Any, fr: Any, n: Any) -> None:
                nonlocal n_points
                if fr.fi is not fn:
                    return
                n_points += 1
                cur_n, cur_d = fr.locals.get(pn), fr.locals.get(pd)
                if val is not cur_n:
                    found.append(("yield-other", f"line {n.lineno}: yields {describe(val)!r}, which is not the current node"))
                elif not within(cur_d):
                    found.append(("yield-unguarded", f"line {n.lineno}: a node is yielded at depth {describe(cur_d)!r} on a path that does not establish depth <= env.max_recursion_depth for it (no guard was evaluated for this depth): data nested deeper than the limit is visited instead of raising JSONPathRecursionError"))

            def at_head(interp: Interp, fr: Any, st: Any) -> None:
                head["node"], head["depth"] = fr.locals.get(pn), fr.locals.get(pd)
                head["guarded"] = within(fr.locals.get(pd))

            def at_tail(interp: Interp, fr: Any, st: Any) -> None:
                nonlocal n_points
                n_points += 1
                n2, d2 = fr.locals.get(pn), fr.locals.get(pd)
                n1, d1 = head.get("node"), head.get("depth")
                if n2 is n1 and isinstance(d2, IntV) and isinstance(d1, IntV) and d2.lin == d1.lin:
                    found.append(("step-none", f"line {st.lineno}: an iteration ends without moving to another node: the loop does not terminate"))
                    return
                if not is_child(n2, n1):
                    found.append(("?step-node", f"the node the loop continues with ({describe(n2)!r}) is not recognisably a child of the node at the loop head"))
                    return
                if not (isinstance(d2, IntV) and isinstance(d1, IntV) and d2.lin == d1.lin + Lin.k(1)):
                    found.append(("step-depth", f"line {st.lineno}: the loop continues with a child of the node but with depth {describe(d2)!r}, expected depth + 1 (one level per container)"))
                if head.get("guarded") and not within(d2):
                    found.append(("invariant", f"line {st.lineno}: at the loop head the guard has been passed for the node's depth, but the loop continues with depth {describe(d2)!r} for which no guard was evaluated: the next iteration handles a node beyond the limit as if it were within it"))

            it.hooks["__recursion_cut__"] = {fn.qualname}
            it.hooks["__while_once__"] = {fn.qualname}
            it.hooks["__on_yield__"] = on_yield
            it.hooks["__while_head__"] = at_head
            it.hooks["__while_tail__"] = at_tail
            ev, term = run_trace(it, fn, [seg, node, depth], seg)
            return ev, term, node, depth, found, head, it

        try:
            runs = paths(model, body)
        except Unsupported as err:
            report.undecided(rule_order, fn.qualname, f"visit:{kind}:tail-loop: {err}")
            report.touched(fn.qualname)
            return
        for run in runs:
            n_paths += 1
            if run.kind == "raise":
                problems.setdefault("raises-outside", f"raises {run.exc_name()} outside the iterator")
                continue
            ev, term, node, depth, found, head, it = run.value
            for key, msg in found:
                if key.startswith("?"):
                    notes.append(msg)
                else:
                    problems.setdefault(key, msg)
            if term is not None and getattr(term, "exc", None) is not None:
                exc = term.exc
                if not (isinstance(exc, Inst) and exc.cls.name == "JSONPathRecursionError"):
                    problems.setdefault("raise-class", f"raises {describe(exc)!r}, expected JSONPathRecursionError")
            # recursive calls: a child of the node at the head (or of the start node) with that node's depth + 1
            def walk(evs: Any) -> Any:
                for e in evs:
                    yield e
                    if e.kind == "foreach":
                        yield from walk(e.body)

            for e in walk(ev):
                if e.kind != "yield_from":
                    continue
                t = e.value
                if not (isinstance(t, Term) and t.op == "rec" and t.args[0] == fn.qualname):
                    continue
                loc = t.args[1]
                cn, cd = loc.get(pn), loc.get(pd)
                base_n, base_d = (head.get("node"), head.get("depth")) if head else (node, depth)
                for bn, bd in ((base_n, base_d), (node, depth)):
                    if is_child(cn, bn):
                        if not (isinstance(cd, IntV) and isinstance(bd, IntV) and cd.lin == bd.lin + Lin.k(1)):
                            problems.setdefault("recursion-depth", f"line {e.site[1] if e.site else '?'}: a recursive call visits a child of the node with depth {describe(cd)!r}, expected depth + 1 (one level per container)")
                        break
                else:
                    notes.append(f"a recursive call is made on {describe(cn)!r}, which is not recognisably a child of the current node")
    for key, msg in problems.items():
        rule = rule_depth if key in ("yield-unguarded", "invariant", "raise-class") else rule_order
        report.fail(rule, fn.qualname, f"visit:tail-loop:{key}", msg, file=fn.file, line=fn.line)
    if notes and not problems:
        report.undecided(rule_order, fn.qualname, "visit:tail-loop: " + notes[0])
    elif not problems:
        report.ok(rule_order, fn.qualname, "visit:tail-loop: step and recursion add one depth unit per level", detail={"paths": n_paths, "points": n_points})
        report.ok(rule_depth, fn.qualname, "visit:tail-loop: every yield is dominated by the guard for its own depth; the loop invariant is re-established", detail={"paths": n_paths})
    report.touched(fn.qualname)


def _check_visit_without_depth(model: Model, report: Report, rule: str, fn: Any) -> None:
    """The visitor has no depth parameter.  Whatever it measures instead, the node the segment is applied to is at
    depth 1 <= limit whatever its own location, so visiting it must not raise; if it cannot, the relation between
    the guard and the nesting below that node is not something this rule can read off."""
    cell = "visit:start-node:any-location"
    problems: List[str] = []
    n_paths = 0
    for kind in ("list", "dict"):

        def body(it: Interp, kind=kind) -> Any:
            env = make_env(it, model, False)
            seg = make_segment(it, model, "segments.JSONPathRecursiveDescentSegment", env)
            v = it.new_sym("V", [kind])
            node = make_node(it, model, v, "node")
            it.hooks["__recursion_cut__"] = {fn.qualname}
            ev, term = run_trace(it, fn, [seg, node], seg)
            return ev, term

        try:
            runs = paths(model, body)
        except Unsupported as err:
            report.undecided(rule, fn.qualname, f"{cell}: {err}")
            return
        for run in runs:
            n_paths += 1
            term = run.value[1] if run.kind != "raise" else None
            exc = run.value if run.kind == "raise" else (term.exc if term is not None else None)
            if exc is not None:
                name = exc.cls.name if isinstance(exc, Inst) else describe(exc)
                p = f"visiting the node the segment is applied to (depth 1, within every limit) can raise {name}: the guard measures something else than the nesting below that node (e.g. the length of the node's own location, which also counts the segments before '..')"
                if p not in problems:
                    problems.append(p)
    for p in problems:
        report.fail(rule, fn.qualname, cell, p, file=fn.file, line=fn.line)
    if not problems:
        report.undecided(rule, fn.qualname, f"{cell}: _visit has no depth parameter and never raises at its start node; how its guard relates to nesting below the start node is not decidable by this rule ({n_paths} paths)")
    report.touched(fn.qualname)


def _visit_expect(x: Expect, xd: Expect, ev: List[Ev], term: Any, node: Inst, v: Sym, seg: Inst, depth: IntV, kind: str, region: str, fn: Any, it: Interp) -> None:
    eff = effects_problem(ev)
    if eff:
        x.bad(eff[0], eff[1])
        return
    if region == "exceeded":
        # must raise JSONPathRecursionError before yielding anything
        if term is None or not (isinstance(term.exc, Inst) and term.exc.cls.name == "JSONPathRecursionError"):
            xd.bad(f"depth beyond env.max_recursion_depth does not raise JSONPathRecursionError (trace {show_trace(ev)})")
            return
        pre = [e for e in ev if e.kind != "raise"]
        if strip_empty_loops(pre):
            xd.bad("yields nodes before raising JSONPathRecursionError at a depth beyond the limit", pre[0])
        return
    if term is not None:
        xd.bad(f"raises {describe(term.exc)} although depth <= env.max_recursion_depth")
        return
    evs = list(ev)
    if not evs or evs[0].kind != "yield" or evs[0].value is not node:
        x.bad(f"first event is {show_trace(evs[:1])}, expected the visited node itself (pre-order)", evs[0] if evs else None)
        return
    rest = evs[1:]
    if kind not in ("list", "dict"):
        rest = strip_empty_loops(rest)
        if rest:
            x.bad(f"descends into a {kind} value: {show_trace(rest)}", rest[0])
        return
    if len(rest) != 1 or rest[0].kind != "foreach":
        x.bad(f"after yielding the node the trace is {show_trace(rest)}, expected one loop over its children", rest[0] if rest else evs[0])
        return
    fe = rest[0]
    if base_of(fe.src) is not v:
        x.bad(f"iterates {fe.src!r}, expected the node's own value", fe)
        return
    op = order_problem(fe.src)
    if op:
        x.bad(op, fe)
        return
    key, val, pp = elem_pairing(fe.elem)
    if pp:
        x.bad(pp, fe)
        return
    if key is None:
        x.undecided = f"iteration view {fe.src.view} gives no (key, value) pairing"
        return
    ck = it.ctx.world.get(("kind", val.id))
    body = strip_empty_loops(fe.body)
    if ck is None:
        # the body never looked at the child's kind
        if body:
            x.bad("descends into children without testing that they are arrays or objects", body[0])
        else:
            x.bad("never descends into children", fe)
        return
    if ck not in ("list", "dict"):
        if body:
            x.bad(f"descends into a child of kind {ck}: {show_trace(body)}", body[0])
        return
    if len(body) != 1 or body[0].kind != "yield_from":
        x.bad(f"for a {ck} child the body is {show_trace(body)}, expected one recursive visit", body[0] if body else fe)
        return
    t = body[0].value
    if not (isinstance(t, Term) and t.op == "rec" and t.args[0] == fn.qualname):
        x.bad(f"child is visited through {describe(t)!r}, expected a recursive call of _visit", body[0])
        return
    loc: Dict[str, Any] = t.args[1]
    params = [a.arg for a in fn.node.args.args]
    child = loc.get(params[1])
    p = child_problem(child, node, val, key)
    if p:
        x.bad("recursive visit: " + p, body[0])
    d = loc.get(params[2])
    if not (isinstance(d, IntV) and d.lin == depth.lin + Lin.k(1)):
        xd.bad(f"recursive call passes depth {describe(d)!r}, expected depth + 1 (one level per container)", body[0])
    if loc.get(params[0]) is not seg:
        x.bad("recursive call is made on another segment object", body[0])


# --------------------------------------------------- nondeterministic visitor
def walk_av(v: Any, seen: Optional[set] = None, depth: int = 0):
    """All abstract values reachable from v through terms, containers, sources, queues, events."""
    seen = seen if seen is not None else set()
    if id(v) in seen or depth > 40:
        return
    seen.add(id(v))
    yield v
    subs: List[Any] = []
    if isinstance(v, Term):
        subs = list(v.args)
    elif isinstance(v, (PyTuple, PyList)):
        subs = list(v.items)
    elif isinstance(v, tuple) or isinstance(v, list):
        subs = list(v)
    elif isinstance(v, dict):
        subs = list(v.values())
    elif isinstance(v, Source):
        subs = [v.base, v.extra]
    elif isinstance(v, Stream):
        subs = list(v.events)
    elif isinstance(v, Ev):
        subs = [v.value, v.src, v.body, v.info, v.elem]
    elif isinstance(v, Elem):
        subs = [v.target, v.src]
    elif isinstance(v, AbsQueue):
        subs = [v.origin] + [e[1] for e in v.log]
    elif isinstance(v, GenV):
        subs = [v.events]
    for s in subs:
        if s is not None:
            yield from walk_av(s, seen, depth + 1)


def check_nondet_visit(model: Model, report: Report, r_order: Optional[str], r_depth: Optional[str], r_rng: Optional[str]) -> None:
    ci = model.cls("segments.JSONPathRecursiveDescentSegment")
    fn = ci.find_method("_nondeterministic_visit")
    if fn is None:
        raise AnalysisError("anchor vanished: JSONPathRecursiveDescentSegment._nondeterministic_visit")
    det = ci.find_method("_visit")
    children_fn = model.functions.get("segments._nondeterministic_children")
    params = [a.arg for a in fn.node.args.args]
    site = fn.qualname

    def body(it: Interp) -> Any:
        env = make_env(it, model, True)
        seg = make_segment(it, model, "segments.JSONPathRecursiveDescentSegment", env)

        def hook(interp: Interp, fi: Any, args: List[Any], kwargs: Dict[str, Any], node: Any) -> Any:
            return Term("children", (args[0],), interp.ctx.new_id())

        if children_fn is not None:
            it.hooks[children_fn.qualname] = hook
        root = make_node(it, model, it.new_sym("V"), "root")
        depth = it.new_int("depth0", 1)
        ev, term = run_trace(it, fn, [seg, root, depth], seg)
        return ev, term, root, depth, env, it

    try:
        runs = paths(model, body)
    except Unsupported as err:
        for r in (r_order, r_depth, r_rng):
            if r:
                report.undecided(r, site, f"nondeterministic visitor: {err}")
        return
    report.touched(site)

    def fail(rule: Optional[str], key: str, msg: str, ev: Optional[Ev] = None) -> None:
        if rule:
            f, l = ev_site(ev, (fn.file, fn.line))
            report.fail(rule, site, key, msg, file=f, line=l, what=key)

    seen_cells = set()
    problems = 0
    coin_branches = set()
    for run in runs:
        if any(k[0] == "next" and v == "StopIteration" for k, v in run.ctx.world.items() if isinstance(k, tuple)):
            continue  # iterator exhaustion inside the interleaving draw: not decided
        if run.kind == "raise":
            fail(r_order, "nondet-visit:raises", f"raises {run.exc_name()} outside the iterator")
            problems += 1
            continue
        ev, term, root, depth0, env, it = run.value
        limit = env.attrs["max_recursion_depth"].lin
        # ---- prologue
        pre = [e for e in ev if e.kind != "foreach"]
        loops = [e for e in ev if e.kind == "foreach" and e.src.view == "while"]
        if not pre or pre[0].kind != "yield" or pre[0].value is not root:
            fail(r_order, "nondet-visit:root-first", f"first event is {show_trace(pre[:1])}, expected the root node (parent before children)", pre[0] if pre else None)
            problems += 1
            continue
        if len(loops) != 1:
            if r_order:
                report.undecided(r_order, site, f"expected one work-queue loop, found {len(loops)}")
            continue
        loop = loops[0]
        q: AbsQueue = loop.src.base
        # initial enqueue: children of root with the depth parameter
        init_ok = False
        for entry in q.log:
            if entry[0] in ("extend", "init"):
                for v in walk_av(entry[1]):
                    if isinstance(v, PyTuple) and len(v.items) == 2 and isinstance(v.items[1], (IntV, Const)):
                        d = v.items[1]
                        if isinstance(d, IntV) and d.lin == depth0.lin:
                            init_ok = True
                        else:
                            fail(r_depth, "nondet-visit:initial-depth", f"children of the root are queued with depth {describe(d)!r}, expected the depth parameter unchanged")
                            problems += 1
                            init_ok = True
                        break
                break
        if not init_ok:
            if r_depth:
                report.undecided(r_depth, site, "cannot find the initial enqueue of the root's children")
        body_ev = loop.body
        pops = [e for e in body_ev if e.kind == "queue" and e.info[0] in ("popleft", "pop")]
        if len(pops) != 1:
            if r_order:
                report.undecided(r_order, site, f"generic iteration takes {len(pops)} items from the queue")
            continue
        item = pops[0].info[1][0]
        if not (isinstance(item, PyTuple) and len(item.items) == 2 and isinstance(item.items[1], IntV)):
            if r_depth:
                report.undecided(r_depth, site, "queue items are not (node, depth) pairs")
            continue
        node, d = item.items
        after_pop = body_ev[body_ev.index(pops[0]) + 1 :]
        # region of this path
        exceeded = it.ctx.oct.entails_le0(limit - d.lin)
        within = it.ctx.oct.entails_le0(d.lin - limit + Lin.k(1))
        raises = [e for e in after_pop if e.kind == "raise"]
        expansions = [e for e in after_pop if e.kind in ("foreach", "queue")]
        ys = [e for e in after_pop if e.kind == "yield"]
        if ys and ys[0].value is not node:
            fail(r_order, "nondet-visit:yield-dequeued", f"yields {describe(ys[0].value)!r} instead of the dequeued node", ys[0])
            problems += 1
        # yield-before-expand
        if expansions:
            first_exp = after_pop.index(expansions[0])
            if not ys or after_pop.index(ys[0]) > first_exp:
                fail(r_order, "nondet-visit:parent-before-children", "children are expanded before the dequeued node is yielded", expansions[0])
                problems += 1
        if raises:
            exc = raises[0].value
            if not (isinstance(exc, Inst) and exc.cls.name == "JSONPathRecursionError"):
                fail(r_depth, "nondet-visit:raise-class", f"raises {describe(exc)!r}, expected JSONPathRecursionError", raises[0])
                problems += 1
            if not exceeded:
                fail(r_depth, "nondet-visit:guard-threshold", f"raises although queued depth < env.max_recursion_depth is possible (assumptions: {it.ctx.oct.describe(it.ctx.names)})", raises[0])
                problems += 1
            if expansions and after_pop.index(expansions[0]) < after_pop.index(raises[0]):
                fail(r_depth, "nondet-visit:guard-before-expansion", "children are expanded before the depth guard", expansions[0])
                problems += 1
            seen_cells.add("exceeded")
            continue
        if not within:
            fail(r_depth, "nondet-visit:guard-threshold", f"a path continues without JSONPathRecursionError although queued depth >= env.max_recursion_depth is possible on it (assumptions: {it.ctx.oct.describe(it.ctx.names)})")
            problems += 1
            continue
        seen_cells.add("within")
        # expansion of children
        fes = [e for e in after_pop if e.kind == "foreach"]
        if len(fes) != 1:
            if r_order:
                report.undecided(r_order, site, f"expected one loop over the dequeued node's children, found {len(fes)}")
            continue
        fe = fes[0]
        b = base_of(fe.src)
        if not (isinstance(b, Term) and b.op == "children" and b.args[0] is node):
            fail(r_order, "nondet-visit:children-of-dequeued", f"iterates {fe.src!r}, expected the children of the dequeued node", fe)
            problems += 1
            continue
        op = order_problem(fe.src)
        if op:
            fail(r_order, "nondet-visit:children-order", op, fe)
            problems += 1
        child = fe.elem.target
        cy = [e for e in fe.body if e.kind == "yield"]
        qa = [e for e in fe.body if e.kind == "queue" and e.info[0] in ("append", "extend", "appendleft", "extendleft")]
        carried = [e for e in fe.body if e.kind == "carried" and isinstance(e.info, AbsQueue)]
        coin = [v for k, v in run.ctx.world.items() if isinstance(k, tuple) and k[0] == "random.choice"]
        if cy:
            coin_branches.add("visit-now")
            # visit now: yield the child once, queue its children two levels down
            if len(cy) != 1 or cy[0].value is not child:
                fail(r_order, "nondet-visit:visit-now-once", f"visit-now branch yields {show_trace(cy)}, expected the child exactly once", cy[0])
                problems += 1
            if qa:
                fail(r_order, "nondet-visit:visit-now-requeues", "visit-now branch also queues the child (handled twice)", qa[0])
                problems += 1
            if len(carried) != 1:
                if r_order:
                    report.undecided(r_order, site, "visit-now branch does not rebuild the queue with the grandchildren")
                continue
            newq: AbsQueue = carried[0].info
            reach = list(walk_av(newq))
            gcs = [v for v in reach if isinstance(v, Term) and v.op == "children" and v.args[0] is child]
            if not gcs:
                fail(r_order, "nondet-visit:grandchildren-queued", "visit-now branch does not queue the visited child's own children", carried[0])
                problems += 1
            if not any(v is q for v in reach):
                fail(r_order, "nondet-visit:queue-kept", "rebuilt queue is not derived from the existing queue (pending nodes would be dropped)", carried[0])
                problems += 1
            gdepths = [v.items[1] for v in reach if isinstance(v, PyTuple) and len(v.items) == 2 and isinstance(v.items[1], (IntV, Const)) and not isinstance(v.items[0], (IntV, Const))]
            okd = [g for g in gdepths if isinstance(g, IntV) and g.lin == d.lin + Lin.k(2)]
            if gdepths and not okd:
                fail(r_depth, "nondet-visit:grandchild-depth", f"grandchildren are queued with depth {describe(gdepths[0])!r}, expected dequeued depth + 2 (two levels down)", carried[0])
                problems += 1
            if not gdepths and r_depth:
                report.undecided(r_depth, site, "cannot find the depth queued with grandchildren")
            if r_rng:
                smp = [v for v in reach if isinstance(v, Term) and v.op == "random.sample"]
                if not smp:
                    fail(r_rng, "nondet-visit:interleave-draw", "queue and grandchildren are merged without a random interleaving draw", carried[0])
                    problems += 1
        elif qa:
            coin_branches.add("visit-later")
            if len(qa) != 1 or qa[0].info[0] != "append":
                fail(r_order, "nondet-visit:visit-later-once", f"visit-later branch performs {[e.info[0] for e in qa]!r}, expected one append of the child", qa[0])
                problems += 1
            else:
                itemq = qa[0].info[1][0]
                if not (isinstance(itemq, PyTuple) and len(itemq.items) == 2 and itemq.items[0] is child):
                    fail(r_order, "nondet-visit:visit-later-item", f"queues {describe(itemq)!r}, expected (child, depth)", qa[0])
                    problems += 1
                else:
                    dd = itemq.items[1]
                    if not (isinstance(dd, IntV) and dd.lin == d.lin + Lin.k(1)):
                        fail(r_depth, "nondet-visit:child-depth", f"children are queued with depth {describe(dd)!r}, expected dequeued depth + 1", qa[0])
                        problems += 1
                if qa[0].value is not q and not carried:
                    fail(r_order, "nondet-visit:visit-later-queue", "child is appended to another queue object", qa[0])
                    problems += 1
        else:
            fail(r_order, "nondet-visit:child-dropped", "a path through the children loop neither yields nor queues the child", fe)
            problems += 1
        if r_rng:
            rc = [e for e in run.ctx.log if isinstance(e, tuple) and e[0] == "extcall" and e[1] == "random.choice"]
            if not rc:
                fail(r_rng, "nondet-visit:coin", "no random visit-now/visit-later choice is drawn")
                problems += 1
            else:
                try:
                    opts = it.concrete_items(rc[0][2][0], None)
                    vals = sorted(repr(getattr(o, "value", o)) for o in opts)
                except Exception:  # noqa: BLE001
                    vals = []
                if vals != ["False", "True"]:
                    fail(r_rng, "nondet-visit:coin-degenerate", f"the visit-now/visit-later choice is drawn from {vals!r}, expected both True and False")
                    problems += 1
    if r_depth:
        if "exceeded" not in seen_cells:
            fail(r_depth, "nondet-visit:guard-missing", "no path raises JSONPathRecursionError: the queue loop has no depth guard")
            problems += 1
        # R18.4: both visitors use the same level threshold.  det: level==depth param (origin default) raises iff depth > limit.
        dflt = _default_of(fn, params[2] if len(params) > 2 else "depth")
        ddet = _default_of(det, [a.arg for a in det.node.args.args][2]) if det is not None and len(det.node.args.args) > 2 else None
        if dflt != 1 or ddet != 1:
            fail(r_depth, "visit:depth-origin", f"visitors start counting at det={ddet!r}, nondet={dflt!r}; expected 1 for both")
            problems += 1
    if r_order and "visit-now" not in coin_branches and r_rng:
        fail(r_rng, "nondet-visit:visit-now-branch", "the visit-now branch is unreachable")
    if r_order and "visit-later" not in coin_branches and r_rng:
        fail(r_rng, "nondet-visit:visit-later-branch", "the visit-later branch is unreachable")
    if problems == 0:
        for r in (r_order, r_depth, r_rng):
            if r:
                report.ok(r, site, "nondet-visit:generic-iteration", detail={"paths": len(runs), "branches": sorted(coin_branches), "regions": sorted(seen_cells)})


def _default_of(fn: Any, param: str) -> Any:
    a = fn.node.args
    names = [x.arg for x in a.args]
    if param not in names:
        return None
    k = names.index(param) - (len(names) - len(a.defaults))
    if k < 0:
        return None
    try:
        import ast as _ast

        return _ast.literal_eval(a.defaults[k])
    except Exception:  # noqa: BLE001
        return None


def check_nondet_children(model: Model, report: Report, rule: str) -> None:
    fn = model.functions.get("segments._nondeterministic_children")
    if fn is None:
        raise AnalysisError("anchor vanished: segments._nondeterministic_children")
    for kind in KINDS:

        def body(it: Interp, kind=kind) -> Any:
            v = it.new_sym("V", [kind])
            node = make_node(it, model, v, "node")
            ev, term = run_trace(it, fn, [node], None)
            return ev, term, node, v

        cell = f"nondet-children:{kind}"
        try:
            runs = paths(model, body)
        except Unsupported as err:
            report.undecided(rule, fn.qualname, f"{cell}: {err}")
            continue
        good = True
        for run in runs:
            if run.kind == "raise":
                report.fail(rule, fn.qualname, cell, f"raises {run.exc_name()}", file=fn.file, line=fn.line)
                good = False
                continue
            ev, term, node, v = run.value
            if kind == "dict":
                x = expect_foreach_children(ev, term, node, v, ("items",), allow_shuffle=True, require_shuffle=True)
            elif kind == "list":
                x = expect_foreach_children(ev, term, node, v, ("enumerate",))
            else:
                x = expect_empty(ev, term, f"children of a {kind} value")
            good &= _report(report, rule, fn, cell, x, run, {"trace": show_trace(ev)})
        if good:
            report.ok(rule, fn.qualname, cell)
    report.touched(fn.qualname)
