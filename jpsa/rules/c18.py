"""C18 — bounded descent.

R18.2  every document-descending step carries a depth with delta(depth) = delta(level):
       deterministic visitor: recursive call passes depth + 1 (octagon-exact);
       nondeterministic visitor: children queued with depth + 1, grandchildren with depth + 2,
       the root's children with the depth parameter.
R18.3  the guard compares against env.max_recursion_depth (a symbolic limit: a constant or a
       different attribute leaves the comparison undetermined and both outcomes are explored),
       raises JSONPathRecursionError and precedes any descent.
R18.4  both visitors start at depth 1 and so raise from the same nesting level on.
R18.5  both visitors apply the guard to the same nodes (containers only).
"""

from __future__ import annotations

import ast
from typing import Any

from ..model import AnalysisError
from ..model import Model
from ..model import walk_own
from ..protocol import Report
from . import _segrules


def check(model: Model, report: Report) -> None:
    report.rule("R18.2", "depth discipline: one depth unit per container level on every recursive call / enqueue")
    report.rule("R18.3", "guard reads env.max_recursion_depth, raises JSONPathRecursionError, dominates descent")
    report.rule("R18.4", "both visitors count from 1 and share the threshold")
    report.rule("R18.5", "both visitors apply the depth guard to containers only")
    report.rule("R18.1", "every self-recursive or work-queue function reachable from segment resolution carries a depth")
    report.assumptions += ["A5: documents are trees or cyclic graphs of dict/list; interpreter recursion limit is far above env.max_recursion_depth * frames per level"]
    report.not_decided += ["memory growth of the nondeterministic queue", "wall-clock bounds"]
    report.rule("R18.6", "the bound is the configured one: max_recursion_depth is a positive integer class attribute and nothing in the package assigns, clamps or shadows it")
    env = model.cls("environment.JSONPathEnvironment")
    dflt = env.attrs.get("max_recursion_depth")
    if isinstance(dflt, ast.Constant) and isinstance(dflt.value, int) and not isinstance(dflt.value, bool) and dflt.value >= 1:
        report.ok("R18.6", env.qualname, f"default limit {dflt.value}")
    else:
        report.fail("R18.6", env.qualname, "limit-default", f"JSONPathEnvironment.max_recursion_depth defaults to {ast.unparse(dflt) if dflt is not None else None}, expected a positive integer constant")
    n_writes = 0
    for fi in model.functions.values():
        if fi.module.short.startswith("utils."):
            continue
        for n in walk_own(fi.node):
            tg = []
            if isinstance(n, ast.Assign):
                tg = n.targets
            elif isinstance(n, (ast.AnnAssign, ast.AugAssign)):
                tg = [n.target]
            for t in tg:
                for x in ast.walk(t):
                    if isinstance(x, ast.Attribute) and x.attr == "max_recursion_depth":
                        n_writes += 1
                        report.fail("R18.6", fi.qualname, "limit-overwritten", f"{ast.unparse(x)} is assigned in {fi.qualname}: the limit applied is then not the one the user configured on the environment (class attribute or instance attribute set by the user)", file=fi.file, line=n.lineno)
            if isinstance(n, ast.Call) and isinstance(n.func, ast.Name) and n.func.id == "setattr" and len(n.args) >= 2 and isinstance(n.args[1], ast.Constant) and n.args[1].value == "max_recursion_depth":
                n_writes += 1
                report.fail("R18.6", fi.qualname, "limit-overwritten", "max_recursion_depth is set through setattr", file=fi.file, line=n.lineno)
    if not n_writes:
        report.ok("R18.6", "<package>", "max_recursion_depth is never assigned inside the package")
    _segrules.check_visit(model, report, "R18.2", "R18.3")
    _segrules.check_descendant_nesting(model, report, "R18.4")
    _segrules.check_nondet_visit(model, report, None, "R18.3", None)
    # R18.5 node filter agreement
    ci = model.cls("segments.JSONPathRecursiveDescentSegment")
    det = ci.find_method("_visit")
    nd = ci.find_method("_nondeterministic_visit")
    ndc = model.functions.get("segments._nondeterministic_children")
    # det recurses (and therefore checks) only for containers: established by R01.4 / R18.2 cells.
    # nondet: the queue holds every child (scalars included) iff _nondeterministic_children yields them all
    # and the guard is applied to each dequeued item.
    leaf_checked = False
    if ndc is not None:
        for n in walk_own(ndc.node):
            if isinstance(n, (ast.Yield,)):
                leaf_checked = True
        # children are filtered to containers if an isinstance(.., (dict, list)) test guards the yields
        guarded = 0
        total = 0
        for n in ast.walk(ndc.node):
            if isinstance(n, ast.For):
                total += 1
                for st in n.body:
                    if isinstance(st, ast.If) and "isinstance" in ast.unparse(st.test):
                        guarded += 1
        if total and guarded == total:
            leaf_checked = False
    if leaf_checked:
        report.fail(
            "R18.5",
            nd.qualname,
            "guard-node-filter:leaves-checked,direct-children-unchecked",
            "the nondeterministic visitor queues and depth-checks scalar leaves too, and does not check children it yields "
            "directly, so data nested exactly to env.max_recursion_depth raises or not depending on the random choices "
            "(deterministic visitor: containers only). Example: limit 1, value {\"a\": 1}: '$..*' raises in nondeterministic mode when the child is queued.",
            file=nd.file,
            line=nd.line,
        )
    else:
        report.ok("R18.5", nd.qualname, "guard-node-filter")
    # R18.1 recursion inventory: self-recursive functions in segments/selectors/query/filter_expressions
    inv = []
    for q, fi in model.functions.items():
        if fi.module.short not in ("segments", "selectors", "query", "filter_expressions", "node"):
            continue
        for n in walk_own(fi.node):
            if isinstance(n, ast.Call) and isinstance(n.func, ast.Attribute) and n.func.attr == fi.name and isinstance(n.func.value, ast.Name) and n.func.value.id == "self":
                inv.append(fi)
                break
            if isinstance(n, ast.Call) and isinstance(n.func, ast.Name) and n.func.id == fi.name and fi.cls is None:
                inv.append(fi)
                break
    allowed_query_descending = {"filter_expressions.FilterExpression._canonical_string"}
    for fi in inv:
        params = [a.arg for a in fi.node.args.args]
        if fi.qualname in allowed_query_descending:
            report.ok("R18.1", fi.qualname, "recursion over the finite compiled query (not the document)")
        elif fi.qualname == (det.qualname if det else ""):
            report.ok("R18.1", fi.qualname, "document-descending recursion carries depth (R18.2)")
        else:
            report.fail("R18.1", fi.qualname, "recursion-without-depth", f"self-recursive function {fi.qualname}({', '.join(params)}) in evaluation code is not covered by a depth discipline", file=fi.file, line=fi.line)
    report.extra["explanation"] = "C18: depth arithmetic decided with linear forms + octagon for all depths/limits; guard regions depth<=limit / depth>limit; generic work-queue iteration for the nondeterministic visitor."
