"""C14 — purity, repeatability, isolation (write-effect analysis; see DESIGN 3.7 / 5-C14)."""

from __future__ import annotations

import ast
from typing import Any
from typing import List

from .. import effects
from ..model import AnalysisError
from ..model import Model
from ..model import walk_own
from ..protocol import Report

OK_CLASSES = {"fresh", "init", "percall", "exception", "memo"}
NONDET_MODULES = {"random", "time", "datetime", "os", "uuid", "secrets", "tempfile", "socket", "threading", "multiprocessing", "subprocess", "pathlib", "shutil", "glob"}
RANDOM_OK_IN = {"segments", "selectors"}


def report_census(model: Model, report: Report, rule: str, only_modules: Any = None) -> List[effects.WriteSite]:
    sites = effects.census(model)
    if len(sites) < 40:
        raise AnalysisError(f"write-site census found only {len(sites)} sites; the census is broken")
    for w in sites:
        if only_modules is not None and w.fn.module.short not in only_modules:
            continue
        what = f"{w.kind} {w.receiver}.{w.detail}" if w.kind != "item-store" else f"{w.kind} {w.receiver}[{w.detail}]"
        if w.cls in OK_CLASSES:
            report.ok(rule, w.fn.qualname, what, detail={"class": w.cls, "why": w.reason}, nontrivial=(w.cls != "init"))
        else:
            report.fail(
                rule,
                w.fn.qualname,
                w.key(),
                f"{what} writes to state that outlives the call: {w.reason}. Hidden state shared between calls, queries, environments or with the caller's document breaks purity/repeatability.",
                file=w.fn.file,
                line=w.line,
                what=what,
            )
    report.touched(*{w.fn.qualname for w in sites})
    return sites


def _constant_attribute_name(fi: Any, e: ast.expr) -> bool:
    """The attribute name handed to getattr() can only be a string constant written in the source: a literal, or a loop /
    comprehension variable ranging over a module-level literal table (tuple/list/dict of constants, possibly of tuples)."""
    if isinstance(e, ast.Constant):
        return isinstance(e.value, str)
    if not isinstance(e, ast.Name):
        return False

    def literal_table(x: ast.expr) -> bool:
        if isinstance(x, (ast.Tuple, ast.List, ast.Set)):
            return all(literal_table(y) or isinstance(y, (ast.Constant, ast.Attribute, ast.Name)) for y in x.elts)
        if isinstance(x, ast.Dict):
            return all(isinstance(k, (ast.Constant, ast.Attribute)) for k in x.keys if k is not None)
        return False

    for n in ast.walk(fi.node):
        targets = []
        if isinstance(n, ast.For):
            targets.append((n.target, n.iter))
        elif isinstance(n, (ast.ListComp, ast.SetComp, ast.DictComp, ast.GeneratorExp)):
            targets += [(g.target, g.iter) for g in n.generators]
        for tgt, it in targets:
            if not any(isinstance(x, ast.Name) and x.id == e.id for x in ast.walk(tgt)):
                continue
            src = it
            if isinstance(src, ast.Call) and isinstance(src.func, ast.Attribute) and src.func.attr in ("items", "values", "keys"):
                src = src.func.value
            if isinstance(src, ast.Name):
                v = fi.module.assigns.get(src.id)
                if v is not None and literal_table(v):
                    return True
            if literal_table(src):
                return True
    return False


def check(model: Model, report: Report) -> None:
    report.rule("R14.2", "every store / deletion / mutator call / in-place library call in the package has a receiver that is frame-fresh, self under construction, a per-call object, the in-flight exception, or a key-determined memo")
    report.rule("R14.3", "no global/nonlocal rebinding, no caching decorators, per-call classes never escape to attributes or module level")
    report.rule("R14.4", "the function registry is a fresh dict per environment instance; no class-level mutable container is ever written")
    report.rule("R14.5", "module-level API = bound methods of one JSONPathEnvironment() that no library code writes to")
    report.rule("R14.6", "sources of nondeterminism (random, time, os, ...) are imported only where the nondeterministic mode needs them")
    report.assumptions += ["A3: no dynamic features (checked: R00)", "A5: caller does not mutate the document concurrently", "transparency of the regex module's own pattern cache (A1)"]
    report.not_decided += ["behavioural equality itself: decided is the absence of any write to state that outlives a call, which implies it under A1-A5"]
    # R00 dynamic features
    for fi in model.functions.values():
        for n in walk_own(fi.node):
            if isinstance(n, ast.Call) and isinstance(n.func, ast.Name) and n.func.id in ("eval", "exec", "setattr", "delattr", "globals", "vars", "__import__", "getattr"):
                if fi.module.short.startswith("utils.") or fi.module.short in ("cli",):
                    continue
                if n.func.id == "getattr" and len(n.args) >= 2 and _constant_attribute_name(fi, n.args[1]):
                    report.ok("R14.3", fi.qualname, f"getattr with a name that is a constant of the source ({ast.unparse(n.args[1])})", nontrivial=False)
                    continue
                report.fail("R14.3", fi.qualname, f"dynamic:{n.func.id}", f"dynamic feature {n.func.id}() defeats the static write analysis (R00)", file=fi.file, line=n.lineno)
    report_census(model, report, "R14.2")
    # R14.3
    bad = False
    for fi in model.functions.values():
        for d in effects.cache_decorators(fi):
            why = effects.cache_key_problem(model, fi)
            if why:
                report.fail("R14.3", fi.qualname, f"cache-decorator:{d.split('(')[0]}", f"@{d} keeps results across calls and {why}", file=fi.file, line=fi.line)
                bad = True
            else:
                report.ok("R14.3", fi.qualname, f"@{d.split('(')[0]}: the cache key (arguments, instance equality) covers everything the body reads")
    for fi, node, msg in effects.percall_violations(model):
        report.fail("R14.3", fi.qualname if fi else "<module>", f"percall-escape:{msg}", f"{msg}: a per-call object becomes long-lived state", file=fi.file if fi else "", line=getattr(node, "lineno", 0))
        bad = True
    if not bad:
        report.ok("R14.3", "<package>", "no caching decorators; per-call objects stay in frames", detail={"per_call_classes": effects.PER_CALL_CLASSES})
    # R14.4 registry
    env = model.cls("environment.JSONPathEnvironment")
    init = env.methods.get("__init__")
    if init is None:
        raise AnalysisError("anchor vanished: JSONPathEnvironment.__init__")
    reg_ok = False
    for n in walk_own(init.node):
        tgt = None
        if isinstance(n, ast.AnnAssign):
            tgt, val = n.target, n.value
        elif isinstance(n, ast.Assign) and len(n.targets) == 1:
            tgt, val = n.targets[0], n.value
        if tgt is not None and isinstance(tgt, ast.Attribute) and tgt.attr == "function_extensions" and isinstance(tgt.value, ast.Name) and tgt.value.id == "self":
            if isinstance(val, (ast.Dict, ast.DictComp)) or (isinstance(val, ast.Call) and ast.unparse(val.func) in ("dict", "OrderedDict")):
                reg_ok = True
            else:
                report.fail("R14.4", init.qualname, "registry-not-fresh", f"self.function_extensions is bound to {ast.unparse(val) if val else None}, not to a fresh dict", file=init.file, line=n.lineno)
    if "function_extensions" in env.attrs:
        report.fail("R14.4", "environment.JSONPathEnvironment", "registry-class-level", "function_extensions is a class attribute shared by all environments")
        reg_ok = False
    if reg_ok:
        report.ok("R14.4", init.qualname, "registry is a fresh dict per instance")
    elif not any(f.key.startswith("registry") for f in report.findings):
        report.fail("R14.4", init.qualname, "registry-missing", "JSONPathEnvironment.__init__ does not create self.function_extensions", file=init.file, line=init.line)
    clw = effects.class_level_mutable_writes(model)
    for ci_, name_, w in clw:
        report.fail("R14.4", w.fn.qualname, f"class-level-container-written:{ci_.name}.{name_}:{w.detail}", f"{ci_.name}.{name_} is a container created once in the class body and never rebound per instance; {w.kind} {w.receiver}.{w.detail} writes to the one object every instance (every query, iterator and thread) shares", file=w.fn.file, line=w.line)
    if not clw:
        report.ok("R14.4", "<package>", "class-level mutable containers are never written (census)",             detail={"class_level_mutables": [f"{c.qualname}.{n}" for c, n, _ in effects.class_level_mutables(model)]})
    # R14.5 module-level API
    pkg = model.module("__init__")
    de = pkg.assigns.get("DEFAULT_ENV")
    if not (isinstance(de, ast.Call) and not de.args and not de.keywords and model.resolve_expr_static(pkg, de.func) == ("class", env)):
        report.fail("R14.5", "__init__", "default-env", f"DEFAULT_ENV is {ast.unparse(de) if de else None}, expected JSONPathEnvironment()")
    else:
        report.ok("R14.5", "__init__", "DEFAULT_ENV = JSONPathEnvironment()")
    for name in ("compile", "finditer", "find", "find_one"):
        e = pkg.assigns.get(name)
        if e is None and name in pkg.functions:
            from .c15 import _check_module_wrapper

            _check_module_wrapper(model, report, "R14.5", pkg.functions[name], name)
        elif not (isinstance(e, ast.Attribute) and isinstance(e.value, ast.Name) and e.value.id == "DEFAULT_ENV" and e.attr == name):
            report.fail("R14.5", "__init__", f"alias:{name}", f"module-level {name} is {ast.unparse(e) if e else None}, expected DEFAULT_ENV.{name}")
        else:
            report.ok("R14.5", "__init__", f"{name} = DEFAULT_ENV.{name}")
    # R14.6 imports
    for mod in model.modules.values():
        short = mod.short
        if short.startswith("utils.") or short in ("cli", "__main__"):
            continue
        for local, imp in mod.imports.items():
            top = imp[1].split(".")[0]
            if top in NONDET_MODULES:
                if top == "random" and short in RANDOM_OK_IN:
                    report.ok("R14.6", short, f"imports random (calls gated by env.nondeterministic: C17 R17.6)")
                else:
                    report.fail("R14.6", short, f"import:{top}", f"evaluation module {short} imports {top}: results may depend on something other than the query and the value")
    report.extra["explanation"] = "C14: write-site census (120 sites today) with receiver classification from def-use facts; registry, aliases, imports."
    report.extra["exhaustive"] = True
