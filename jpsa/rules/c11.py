"""C11 — match() / search() (I-Regexp to host regex mapping)."""

from __future__ import annotations

import ast
import re as _re
from typing import Any
from typing import Dict
from typing import List
from typing import Optional
from typing import Tuple

from ..absctx import Unsupported
from ..absint import Interp
from ..absval import *  # noqa: F403
from ..harness import describe
from ..harness import nothing
from ..harness import paths
from ..model import AnalysisError
from ..model import Model
from ..protocol import Report
from ._sel import KINDS

ROLES = {"Match": ("fullmatch",), "Search": ("search",)}
ARG_KINDS = KINDS + ["nothing"]


def run_function(model: Model, cname: str, mod: str, subject_kind: str, pattern_kind: str) -> List[Any]:
    ci = model.cls(f"function_extensions.{mod}.{cname}")
    fn = ci.find_method("__call__")
    if fn is None:
        raise AnalysisError(f"anchor vanished: {cname}.__call__")
    mapre = model.functions.get("function_extensions._pattern.map_re")

    def body(it: Interp) -> Any:
        f = it.harness_inst(ci, cname)

        def mk(kind: str, label: str) -> Any:
            if kind == "nothing":
                return nothing(it, model)
            return it.new_sym(label, [kind])

        s = mk(subject_kind, "subject")
        p = mk(pattern_kind, "pattern")
        seen: Dict[str, Any] = {}
        if mapre is not None:

            def hook(interp: Interp, fi: Any, args: List[Any], kw: Dict[str, Any], node: Any) -> Any:
                seen["mapped_from"] = args[0]
                t = Term("mapped", (args[0],), interp.ctx.new_id())
                seen["mapped"] = t
                return t

            it.hooks[mapre.qualname] = hook
        r = it.call_function(fn, [f, s, p], {}, None, self_av=f)
        return r, s, p, seen, it

    return paths(model, body)


LITERAL_PREDICATES = {"isalnum", "isalpha", "isdigit", "isdecimal", "isnumeric", "isidentifier"}


def literal_shortcut(run: Any, cname: str, p: Any, s: Any, res: Any) -> bool:
    """A path that skips the engine is the same function when the pattern is known to be free of metacharacters
    (a str predicate that admits only letters, digits, '_' held on it) and the result is pattern == subject for
    match / pattern in subject for search."""
    from ..harness import rel_of

    w = run.ctx.world
    if not any(isinstance(k, tuple) and k[0] == "strpred" and k[1] == p.id and k[2] in LITERAL_PREDICATES and v is True for k, v in w.items()):
        return False
    if cname == "Match":
        rel = rel_of(run.ctx, p, s)
        return rel is not None and res is (rel == "eq")
    v = w.get(("in_str", s.id, repr(p)))
    return v is not None and res is v


def check_functions(model: Model, report: Report) -> None:
    for cname, mod in (("Match", "match"), ("Search", "search")):
        ci = model.cls(f"function_extensions.{mod}.{cname}")
        fn = ci.find_method("__call__")
        site = fn.qualname
        want_entry = ROLES[cname][0]
        for sk in ARG_KINDS:
            for pk in ARG_KINDS:
                key = f"{mod}:subject={sk}:pattern={pk}"
                try:
                    runs = run_function(model, cname, mod, sk, pk)
                except Unsupported as err:
                    report.undecided("R11.3", site, f"{key}: {err}")
                    continue
                probs: Dict[str, Tuple[str, str]] = {}
                undecided_cells: set = set()
                for run in runs:
                    calls = [e for e in run.ctx.log if isinstance(e, tuple) and e[0] == "extcall" and str(e[1]).split(".")[-1] in ("fullmatch", "search", "match", "findall", "finditer")]
                    checks = [e for e in run.ctx.log if isinstance(e, tuple) and e[0] == "extcall" and str(e[1]).endswith("check")]
                    if run.kind == "raise":
                        probs["raises"] = ("R11.4", f"{mod}() raises {run.exc_name()} for a {sk} subject and a {pk} pattern; it must return false")
                        continue
                    r, s, p, seen, it = run.value
                    valid = None
                    for k, v in run.ctx.world.items():
                        if isinstance(k, tuple) and k[0] == "iregexp_check":
                            valid = v
                    outcome = None
                    for k, v in run.ctx.world.items():
                        if isinstance(k, tuple) and k[0] == "regex":
                            outcome = v
                    res = r.value if isinstance(r, Const) and isinstance(r.value, bool) else None
                    if res is None:
                        probs["non-bool"] = ("R11.4", f"{mod}() returns {describe(r)!r}, expected a boolean")
                        continue
                    if pk != "str":
                        if res is not False:
                            probs["non-string-pattern"] = ("R11.3", f"{mod}() returns {res} for a {pk} pattern, expected false")
                        if calls:
                            probs["engine-before-gate"] = ("R11.3", f"the regex engine is called with a {pk} pattern")
                        continue
                    if not checks:
                        probs["no-validity-check"] = ("R11.3", "the pattern is not passed through the I-Regexp validity check before use")
                        continue
                    if checks[0][2][0] is not p:
                        probs["check-other-arg"] = ("R11.3", "the I-Regexp validity check is applied to something else than the pattern argument")
                    if valid == "UnicodeEncodeError":
                        # the checker could not even encode the pattern (a lone surrogate): not an I-Regexp; handled
                        if res is not False or calls:
                            probs["unencodable-pattern"] = ("R11.3", f"{mod}() {'calls the engine' if calls else 'returns ' + str(res)} for a pattern the validity check cannot encode (a lone surrogate), expected false")
                        continue
                    if valid is False:
                        if res is not False or calls:
                            probs["invalid-pattern"] = ("R11.3", f"{mod}() {'calls the engine' if calls else 'returns ' + str(res)} for a pattern that is not a valid I-Regexp, expected false without evaluation")
                        continue
                    # valid I-Regexp string pattern
                    if any(isinstance(k, tuple) and k[0] == "regex-compile" and v == "error" for k, v in run.ctx.world.items()):
                        # the engine was consulted (it refused the pattern when asked to compile it)
                        if res is not False:
                            probs["engine-error"] = ("R11.4", f"{mod}() returns {res} when the engine rejects the pattern")
                        continue
                    compiled_calls = [e for e in run.ctx.log if isinstance(e, tuple) and e[0] == "compiled-call"]
                    if not calls and compiled_calls:
                        # the engine is consulted through a compiled pattern object (compile once, match many): which
                        # pattern text and flags reach the engine is not followed through that object by this rule
                        undecided_cells.add(f"{mod}() applies a compiled pattern object ({compiled_calls[0][1]}); entry point, pattern mapping and flags are not decided for this shape")
                        continue
                    if not calls:
                        if sk == "str" and literal_shortcut(run, cname, p, s, res):
                            continue
                        if sk == "str":
                            probs["no-engine"] = ("R11.1", f"{mod}() never consults the regex engine for a string subject and a valid pattern")
                        elif res is not False:
                            probs["non-string-subject"] = ("R11.3", f"{mod}() returns {res} for a {sk} subject")
                        continue
                    c = calls[0]
                    entry = str(c[1]).split(".")[-1]
                    if entry != want_entry:
                        probs["entry-point"] = ("R11.1", f"{mod}() calls regex.{entry}, expected regex.{want_entry} ({'whole-string' if cname == 'Match' else 'substring'} matching)")
                    args = c[2]
                    kwargs = c[3] if len(c) > 4 else ()
                    if len(args) != 2 or kwargs:
                        probs["flags"] = ("R11.2", f"{mod}() passes extra arguments/flags {[describe(a) for a in args[2:]]!r} {dict(kwargs)!r} to the engine; flags change the dialect (e.g. set operations in classes)")
                    if len(args) >= 2:
                        if args[0] is not seen.get("mapped") or seen.get("mapped_from") is not p:
                            probs["pattern-mapping"] = ("R11.2", f"the engine is given {describe(args[0])!r}, expected map_re(pattern)")
                        if args[1] is not s:
                            probs["subject"] = ("R11.2", f"the engine is applied to {describe(args[1])!r}, expected the subject argument")
                    if sk != "str":
                        if res is not False:
                            probs["non-string-subject"] = ("R11.3", f"{mod}() returns {res} for a {sk} subject")
                        continue
                    if outcome == "match" and res is not True:
                        probs["match-lost"] = ("R11.1", f"{mod}() returns false although the engine found a match")
                    if outcome == "nomatch" and res is not False:
                        probs["nomatch-true"] = ("R11.1", f"{mod}() returns true although the engine found no match")
                    if outcome == "regex.error" and res is not False:
                        probs["engine-error"] = ("R11.4", f"{mod}() returns {res} when the engine rejects the pattern")
                if probs:
                    for pk_, (rule, msg) in probs.items():
                        report.fail(rule, site, f"{key}:{pk_}", msg, file=fn.file, line=fn.line, what=key)
                elif undecided_cells:
                    report.undecided("R11.1", site, f"{key}: {sorted(undecided_cells)[0]}")
                else:
                    report.ok("R11.3", site, key, detail={"paths": len(runs)})
        report.touched(site)


CLASSES5 = [".", "\\", "[", "]", "$", "^", "x"]
SPECIALS = (".", "\\", "[", "]", "$", "^")
ANCHOR_LITERAL = {"$": ("\\$", "[$]"), "^": ("\\^",)}  # spellings of the literal character for the engine


def _flat_text(v: Any, ctx: Any) -> Optional[str]:
    """The concrete text of a piece built from constants and characters the path has fixed; None otherwise."""
    if isinstance(v, Const) and isinstance(v.value, str):
        return v.value
    if isinstance(v, SymChar):
        return ctx.char_fixed.get(v.id)
    if isinstance(v, Term) and v.op in ("concat", "fstr", "join"):
        parts = v.args[1] if v.op == "join" and len(v.args) > 1 and isinstance(v.args[1], tuple) else v.args
        out = []
        for a in parts:
            if isinstance(a, (tuple, list)):
                sub = [_flat_text(x, ctx) for x in a]
            else:
                sub = [_flat_text(a, ctx)]
            if any(x is None for x in sub):
                return None
            out += sub
        return "".join(out)
    return None


def oracle_map(classes: List[str], DOT: str) -> List[Any]:
    out: List[Any] = []
    escaped = False
    in_class = False
    for i, c in enumerate(classes):
        if escaped:
            out.append(("copy", i))
            escaped = False
            continue
        if c == ".":
            out.append(("dot",) if not in_class else ("copy", i))
        elif c in ("$", "^"):
            # ordinary characters in I-Regexp (RFC 9485 NormalChar), assertions for the engine: outside a class they
            # must reach the engine as literals; inside a class both dialects agree ('^' first negates)
            out.append(("lit", i) if not in_class else ("copy", i))
        elif c == "\\":
            escaped = True
            out.append(("copy", i))
        elif c == "[":
            in_class = True
            out.append(("copy", i))
        elif c == "]":
            in_class = False
            out.append(("copy", i))
        else:
            out.append(("copy", i))
    return out


def check_map_re(model: Model, report: Report) -> None:
    fn = model.functions.get("function_extensions._pattern.map_re")
    if fn is None:
        raise AnalysisError("anchor vanished: function_extensions._pattern.map_re")
    site = fn.qualname
    dot_literals: set = set()
    n_cells = 0
    import itertools

    for length in ((1, 2, 3, 4) if report.tier == "thorough" else (1, 2, 3)):

        def body(it: Interp, seq: Any) -> Any:
            chars = []
            for k, cls_ in enumerate(seq):
                cpv = it.ctx.new_int(f"cp{k}", 0, 0x10FFFF)
                ch = SymChar(it.ctx.new_id(), f"c{k}", cpv)
                if cls_ == "x":
                    it.ctx.char_excl[ch.id] = set(SPECIALS)
                else:
                    it.ctx.char_fixed[ch.id] = cls_
                chars.append(ch)
            r = it.call_function(fn, [PyTuple(chars)], {}, None)
            return r, chars, it

        runs = []
        try:
            for seq in itertools.product(CLASSES5, repeat=length):
                runs += paths(model, lambda it, seq=seq: body(it, seq), limit=2000)
        except Unsupported as err:
            report.undecided("R11.5", site, f"map_re on {length} symbolic characters: {err}")
            continue
        bad: Dict[str, str] = {}
        for run in runs:
            if run.kind == "raise":
                bad["raises"] = f"map_re raises {run.exc_name()}"
                continue
            r, chars, it = run.value
            classes = []
            for ch in chars:
                fx = run.ctx.char_fixed.get(ch.id)
                classes.append(fx if fx in SPECIALS else "x")
            if isinstance(r, Term) and r.op == "join":
                items = list(r.args[1]) if isinstance(r.args[1], tuple) else None
            elif isinstance(r, Const) and isinstance(r.value, str):
                # every character was a fixed special: compare the concrete text
                want0 = oracle_map(classes, "")
                if not r.value and not want0:
                    items = []
                elif len(want0) == 1:
                    items = [r]
                else:
                    L = next(iter(dot_literals)) if len(dot_literals) == 1 else None
                    if L is None:
                        items = None
                    else:
                        exps = [""]
                        for w in want0:
                            alts = [L] if w[0] == "dot" else (list(ANCHOR_LITERAL[classes[w[1]]]) if w[0] == "lit" else [classes[w[1]]])
                            exps = [e + a for e in exps for a in alts]
                        exp = exps[0]
                        n_cells += 1
                        if r.value not in exps:
                            bad[f"text:{''.join(classes)}"] = f"on class sequence {''.join(classes)!r} map_re gives {r.value!r}, expected {exp!r}"
                        continue
            else:
                items = None
            if items is None:
                bad["shape"] = f"map_re returns {describe(r)!r}, expected the concatenation of per-character pieces"
                continue
            want = oracle_map(classes, "")
            n_cells += 1
            cell = "".join(classes)
            if len(items) != len(want):
                bad[f"len:{cell}"] = f"on class sequence {cell!r} map_re emits {len(items)} pieces for {len(want)} characters"
                continue
            for k, (got, w) in enumerate(zip(items, want)):
                if w[0] == "copy":
                    same = got is chars[w[1]] or (isinstance(got, Const) and got.value == run.ctx.char_fixed.get(chars[w[1]].id))
                    if not same:
                        bad[f"copy:{cell}:{k}"] = f"on class sequence {cell!r} character {k} ({classes[k]!r}) is rewritten to {describe(got)!r}; only an unescaped '.' outside a character class may be rewritten"
                elif w[0] == "lit":
                    c_ = classes[w[1]]
                    flat = _flat_text(got, run.ctx)
                    if flat not in ANCHOR_LITERAL[c_]:
                        bad.setdefault(f"anchor:{c_}", "")
                        bad[f"anchor:{c_}"] = f"on class sequence {cell!r} the unescaped {c_!r} outside a character class reaches the engine as {describe(got)!r}: I-Regexp has no assertions, {c_!r} is an ordinary character (RFC 9485 NormalChar), but the engine reads it as an anchor, so match(@, 'a$') accepts 'a' and refuses 'a$'"
                else:
                    if not isinstance(got, Const) or got.value == ".":
                        bad[f"dot:{cell}:{k}"] = f"on class sequence {cell!r} the unescaped '.' outside a class is not rewritten (it would match CR or not match LF-free semantics of I-Regexp)"
                    else:
                        dot_literals.add(got.value)
        for k, msg in sorted(bad.items())[:12]:
            if k == "shape":
                # map_re is not a character-by-character transducer this rule can read: no verdict
                report.undecided("R11.5", site, f"map_re:{k}: {msg}")
                continue
            report.fail("R11.5", site, f"map_re:{k}", msg, file=fn.file, line=fn.line)
        if not bad:
            report.ok("R11.5", site, f"map_re transition table on all class sequences of length {length}", detail={"paths": len(runs)})
    # R11.6 the dot replacement
    if len(dot_literals) == 1:
        lit = next(iter(dot_literals))
        excl = dot_exclusions(lit)
        if excl is None:
            report.undecided("R11.6", site, f"dot replacement {lit!r} is not of a recognised form")
        elif excl != {"\n", "\r"}:
            report.fail("R11.6", site, f"dot-excludes:{sorted(ord(c) for c in excl)}", f"'.' is mapped to {lit!r} which excludes {sorted(excl)!r}; I-Regexp '.' excludes exactly LF and CR", file=fn.file, line=fn.line)
        else:
            report.ok("R11.6", site, "dot replacement excludes exactly LF and CR", detail={"replacement": lit})
    elif dot_literals:
        report.fail("R11.6", site, "dot-replacement-varies", f"'.' is rewritten in {len(dot_literals)} different ways: {sorted(dot_literals)!r}")
    else:
        report.undecided("R11.6", site, "no dot replacement observed")
    report.touched(site)
    report.extra["map_re_cells"] = n_cells


def dot_exclusions(lit: str) -> Optional[set]:
    """Characters a '.' replacement refuses, for the recognised spellings."""
    m = _re.fullmatch(r"\(\?:\(\?!\[([^\]]*)\]\)\\P\{Cs\}\|\\p\{Cs\}\\p\{Cs\}\)", lit)
    if m is None:
        m = _re.fullmatch(r"\[\^([^\]]*)\]", lit)
    if m is None:
        m = _re.fullmatch(r"\(\?:\(\?!\[([^\]]*)\]\)\.\)", lit) if False else m
    if m is None:
        return None
    body = m.group(1)
    out = set()
    i = 0
    while i < len(body):
        if body[i] == "\\" and i + 1 < len(body):
            esc = body[i + 1]
            mp = {"n": "\n", "r": "\r", "t": "\t", "f": "\f", "v": "\v"}
            if esc in mp:
                out.add(mp[esc])
            elif esc == "u" and i + 5 < len(body) + 1:
                out.add(chr(int(body[i + 2 : i + 6], 16)))
                i += 4
            else:
                out.add(esc)
            i += 2
        else:
            out.add(body[i])
            i += 1
    return out


def check(model: Model, report: Report) -> None:
    report.rule("R11.1", "match() consults the engine's whole-string entry point, search() its substring entry point; the boolean result is the engine's")
    report.rule("R11.2", "both functions give the engine exactly (map_re(pattern), subject) and no flags (sibling agreement)")
    report.rule("R11.3", "non-string pattern/subject and invalid I-Regexp give false; the validity gate dominates the engine call")
    report.rule("R11.4", "neither function raises for any argument kinds (TypeError / engine errors are handled)")
    report.rule("R11.5", "map_re transition table: only an unescaped '.' outside a character class is rewritten; everything else is copied")
    report.rule("R11.6", "the '.' replacement excludes exactly LF and CR")
    report.assumptions += ["A1: the host regex dialect gives every other I-Regexp construct its I-Regexp meaning (RFC 9485 section 5); iregexp_check.check decides I-Regexp validity", "regex.fullmatch/search raise TypeError for non-string subjects and regex.error for bad patterns"]
    report.not_decided += ["the language of each translated pattern (engine semantics are trusted)", "'^' and '$' (excluded by the property)"]
    check_functions(model, report)
    check_map_re(model, report)
    report.extra["explanation"] = "C11: Match/Search interpreted over 8x8 argument kinds with the engine modelled as match/no-match/error/TypeError; map_re interpreted on all sequences of <=3 symbolic characters over 5 classes."
