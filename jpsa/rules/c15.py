"""C15 — all entry points agree (delegation shapes over the interpreted entry points)."""

from __future__ import annotations

import ast
from typing import Any
from typing import Dict
from typing import List
from typing import Optional

from ..absctx import Unsupported
from ..absint import AbsRaise
from ..absint import Interp
from ..absval import *  # noqa: F403
from ..harness import describe
from ..harness import paths
from ..model import AnalysisError
from ..model import Model
from ..protocol import Report
from ._sel import base_of
from ._sel import order_problem


def _iter_marker(t: Any) -> Optional[Term]:
    """The ITER(query, value) marker a value derives from, if it is that stream unchanged."""
    if isinstance(t, Term) and t.op == "ITER":
        return t
    return None


def check_query_methods(model: Model, report: Report, rule: str) -> None:
    qci = model.cls("query.JSONPathQuery")
    nl = model.cls("node.JSONPathNodeList")
    fit = qci.find_method("finditer")
    if fit is None:
        raise AnalysisError("anchor vanished: JSONPathQuery.finditer")

    def setup(it: Interp) -> Any:
        q = it.harness_inst(qci, "query")
        q.attrs["env"] = it.new_opaque("env")
        q.attrs["segments"] = it.new_opaque("segments")
        v = it.new_sym("value")
        it.hooks[fit.qualname] = lambda interp, fi, args, kw, n: Term("ITER", (args[0], tuple(args[1:]), tuple(sorted(kw.items()))), interp.ctx.new_id())
        return q, v

    def iter_ok(t: Any, q: Any, v: Any) -> Optional[str]:
        if not (isinstance(t, Term) and t.op == "ITER"):
            return f"does not derive from self.finditer(value) but from {describe(t)!r}"
        if t.args[0] is not q:
            return "calls finditer on another query object"
        if len(t.args[1]) != 1 or t.args[1][0] is not v or t.args[2]:
            return f"passes {[describe(a) for a in t.args[1]]!r} to finditer, expected the value unchanged"
        return None

    # find / apply : LIST role
    for name in ("find", "apply"):
        fn = qci.find_method(name)
        key = f"query.{name}:list-of-finditer"
        if fn is None:
            report.fail(rule, f"query.JSONPathQuery.{name}", key, f"JSONPathQuery.{name} is missing")
            continue

        def body(it: Interp, fn=fn) -> Any:
            q, v = setup(it)
            return it.call_function(fn, [q, v], {}, None, self_av=q), q, v

        try:
            runs = paths(model, body)
        except Unsupported as err:
            report.undecided(rule, fn.qualname, f"{key}: {err}")
            continue
        bad = None
        for run in runs:
            if run.kind == "raise":
                bad = f"raises {run.exc_name()}"
                continue
            r, q, v = run.value
            if not (isinstance(r, Inst) and r.cls.is_subclass_of(nl)):
                bad = f"returns {describe(r)!r}, expected a JSONPathNodeList"
                continue
            seq = r.seq
            if not isinstance(seq, Source):
                bad = f"the nodelist is built from {describe(seq)!r}, expected every node of finditer(value)"
                continue
            if order_problem(seq):
                bad = f"the nodelist reorders/deduplicates the nodes: {order_problem(seq)}"
                continue
            if seq.view != "opaque":
                bad = f"the nodelist is a {seq.view} view of finditer(value), expected all nodes in order"
                continue
            p = iter_ok(base_of(seq), q, v)
            if p:
                bad = "the nodelist " + p
        if bad:
            report.fail(rule, fn.qualname, key, f"{name}() {bad}", file=fn.file, line=fn.line)
        else:
            report.ok(rule, fn.qualname, key, detail={"alias_of": qci.aliases.get(name)})
        report.touched(fn.qualname)
    # find_one : FIRST role
    fn = qci.find_method("find_one")
    key = "query.find_one:first-of-finditer-or-None"
    if fn is None:
        report.fail(rule, "query.JSONPathQuery.find_one", key, "JSONPathQuery.find_one is missing")
        return

    def body1(it: Interp) -> Any:
        q, v = setup(it)
        return it.call_function(fn, [q, v], {}, None, self_av=q), q, v, it

    try:
        runs = paths(model, body1)
    except Unsupported as err:
        report.undecided(rule, fn.qualname, f"{key}: {err}")
        return
    outcomes = set()
    bad = None
    for run in runs:
        if run.kind == "raise":
            bad = f"raises {run.exc_name()} (exhaustion must give None)"
            continue
        r, q, v, it = run.value
        loops = [e for e in run.ctx.log if isinstance(e, Ev) and e.kind == "foreach"]
        if isinstance(r, Term) and r.op == "first":
            src = r.args[0]
            b = base_of(src) if isinstance(src, Source) else src
            p = iter_ok(b, q, v)
            if p:
                bad = "the first node " + p
            elif isinstance(src, Source) and order_problem(src):
                bad = f"takes the first of a reordered stream: {order_problem(src)}"
            outcomes.add("first")
        elif isinstance(r, Const) and r.value is None:
            if loops:
                # for n in finditer(value): return n ; return None
                fe = loops[0]
                p = iter_ok(base_of(fe.src), q, v)
                rets = [e for e in fe.body if e.kind == "return"]
                if p:
                    bad = "the loop " + p
                elif len(fe.body) != 1 or not rets or rets[0].value is not fe.elem.target or order_problem(fe.src):
                    bad = "the loop does not return the first node unconditionally"
                outcomes.update({"first", "none"})
            else:
                exhausted = any(isinstance(k, tuple) and k[0] == "next" and val == "StopIteration" for k, val in run.ctx.world.items())
                if not exhausted:
                    bad = "returns None although finditer may have produced a node"
                outcomes.add("none")
        else:
            bad = f"returns {describe(r)!r}, expected the first node of finditer(value) or None"
    if not bad and outcomes != {"first", "none"}:
        bad = f"covers only the outcomes {sorted(outcomes)}; expected first node when there is one and None otherwise"
    if bad:
        report.fail(rule, fn.qualname, key, f"find_one() {bad}", file=fn.file, line=fn.line)
    else:
        report.ok(rule, fn.qualname, key)
    report.touched(fn.qualname)


def check_env_methods(model: Model, report: Report, rule: str, rule_err: str) -> None:
    eci = model.cls("environment.JSONPathEnvironment")
    comp = eci.find_method("compile")
    if comp is None:
        raise AnalysisError("anchor vanished: JSONPathEnvironment.compile")
    for name in ("finditer", "find", "find_one"):
        fn = eci.find_method(name)
        key = f"env.{name}:compile(query).{name}(value)"
        if fn is None:
            report.fail(rule, f"environment.JSONPathEnvironment.{name}", key, f"JSONPathEnvironment.{name} is missing")
            continue
        if fn.is_generator:
            report.fail(rule, fn.qualname, key + ":lazy", f"{name}() is a generator function: an invalid query would only be reported when the result is first advanced, unlike the other entry points", file=fn.file, line=fn.line)
            continue

        def body(it: Interp, fn=fn, fail=False) -> Any:
            env = it.harness_inst(eci, "env")
            qstr = it.new_str("query-text")
            v = it.new_sym("value")
            seen: Dict[str, Any] = {}

            def hook(interp: Interp, fi: Any, args: List[Any], kw: Dict[str, Any], n: Any) -> Any:
                seen["compile_args"] = (args[0], tuple(args[1:]), tuple(sorted(kw.items())))
                if fail:
                    exc = interp.instantiate(model.cls("exceptions.JSONPathSyntaxError"), [Const("bad")], {"token": interp.new_opaque("tok")}, None)
                    seen["exc"] = exc
                    raise AbsRaise(exc, None)
                o = interp.new_opaque("compiled", model.cls("query.JSONPathQuery"))
                seen["compiled"] = o
                return o

            it.hooks[comp.qualname] = hook
            r = it.call_function(fn, [env, qstr, v], {}, None, self_av=env)
            return r, env, qstr, v, seen

        try:
            runs = paths(model, lambda it: body(it))
            runs_fail = paths(model, lambda it: body(it, fail=True))
        except Unsupported as err:
            report.undecided(rule, fn.qualname, f"{key}: {err}")
            continue
        bad = None
        for run in runs:
            if run.kind == "raise":
                bad = f"raises {run.exc_name()}"
                continue
            r, env, qstr, v, seen = run.value
            ca = seen.get("compile_args")
            if ca is None:
                bad = "does not call self.compile"
            elif ca[0] is not env or len(ca[1]) != 1 or ca[1][0] is not qstr or ca[2]:
                bad = f"compiles {[describe(a) for a in ca[1]]!r}, expected the query text unchanged on the same environment"
            elif not (isinstance(r, Term) and r.op == "call"):
                bad = f"returns {describe(r)!r}, expected compile(query).{name}(value)"
            else:
                recv, meth, args, kwargs = r.args
                if recv is not seen.get("compiled"):
                    bad = "calls the method on something else than the compiled query"
                elif meth != name:
                    bad = f"delegates to .{meth}(), expected .{name}()"
                elif len(args) != 1 or args[0] is not v or kwargs:
                    bad = f"passes {[describe(a) for a in args]!r}, expected the value unchanged"
        if bad:
            report.fail(rule, fn.qualname, key, f"env.{name}() {bad}", file=fn.file, line=fn.line)
        else:
            report.ok(rule, fn.qualname, key)
        # error propagation: the compile error must escape unchanged and eagerly
        bad = None
        for run in runs_fail:
            if run.kind != "raise":
                bad = f"swallows the error raised by compile() (returns {describe(run.value[0])!r})"
            else:
                if not (isinstance(run.value, Inst) and run.value.cls.name == "JSONPathSyntaxError"):
                    bad = f"translates the compile error into {run.exc_name()}"
        if bad:
            report.fail(rule_err, fn.qualname, f"env.{name}:error-propagation", f"env.{name}() {bad}", file=fn.file, line=fn.line)
        else:
            report.ok(rule_err, fn.qualname, f"env.{name}: compile errors propagate unchanged and eagerly")
        report.touched(fn.qualname)


def _check_module_wrapper(model: Model, report: Report, rule: str, fi: Any, name: str) -> None:
    """A module-level entry point written as a function: it must hand its arguments unchanged to the same-named method
    of DEFAULT_ENV (directly, or as DEFAULT_ENV.compile(query).<name>(value), which is what that method does)."""
    body = [st for st in fi.node.body if not (isinstance(st, ast.Expr) and isinstance(st.value, ast.Constant))]
    params = [a.arg for a in fi.node.args.args]
    key = f"wrapper:{name}"
    if fi.is_generator:
        report.fail(rule, fi.qualname, key + ":lazy", f"module-level {name}() is a generator function: an invalid query is only reported when the result is first advanced, unlike DEFAULT_ENV.{name}", file=fi.file, line=fi.line)
        return

    def plain_args(call: ast.Call, want: List[str]) -> bool:
        got = [a.id if isinstance(a, ast.Name) else None for a in call.args] + [k.value.id if isinstance(k.value, ast.Name) and k.arg == k.value.id else None for k in call.keywords]
        return got == want

    ok = False
    if len(body) == 1 and isinstance(body[0], ast.Return) and isinstance(body[0].value, ast.Call):
        c = body[0].value
        f = c.func
        if isinstance(f, ast.Attribute) and f.attr == name:
            if isinstance(f.value, ast.Name) and f.value.id == "DEFAULT_ENV" and plain_args(c, params):
                ok = True
            elif (
                name != "compile"
                and isinstance(f.value, ast.Call)
                and isinstance(f.value.func, ast.Attribute)
                and f.value.func.attr == "compile"
                and isinstance(f.value.func.value, ast.Name)
                and f.value.func.value.id == "DEFAULT_ENV"
                and plain_args(f.value, params[:1])
                and plain_args(c, params[1:])
            ):
                ok = True
    def env_call(e: ast.expr, meth: str) -> bool:
        return (
            isinstance(e, ast.Call) and isinstance(e.func, ast.Attribute) and e.func.attr == meth
            and isinstance(e.func.value, ast.Name) and e.func.value.id == "DEFAULT_ENV" and plain_args(e, params)
        )

    if not ok and len(body) == 1 and isinstance(body[0], ast.Return) and isinstance(body[0].value, ast.Call):
        c = body[0].value
        fn_text = ast.unparse(c.func)
        # the two equivalent spellings through the lazy iterator: what the query methods themselves do
        if name == "find" and fn_text == "JSONPathNodeList" and len(c.args) == 1 and not c.keywords and env_call(c.args[0], "finditer"):
            ok = True
        if name == "find_one" and fn_text == "next" and len(c.args) == 2 and isinstance(c.args[1], ast.Constant) and c.args[1].value is None:
            a0 = c.args[0]
            if isinstance(a0, ast.Call) and ast.unparse(a0.func) == "iter" and len(a0.args) == 1 and env_call(a0.args[0], "finditer"):
                ok = True
    if ok:
        report.ok(rule, fi.qualname, f"{name}(...) delegates to DEFAULT_ENV.{name} with unchanged arguments")
        return
    others = sorted({n.func.id if isinstance(n.func, ast.Name) else n.func.attr for n in ast.walk(fi.node) if isinstance(n, ast.Call) and isinstance(n.func, (ast.Name, ast.Attribute)) and (n.func.id if isinstance(n.func, ast.Name) else n.func.attr) in ("compile", "finditer", "find", "find_one", "apply")} - {name, "compile"})
    if name == "find_one" and "find" in others:
        report.fail(rule, fi.qualname, key + ":other-entry-point", f"module-level {name}() is built on {', '.join(others)}() instead of delegating to DEFAULT_ENV.{name}: the two are evaluated differently (how much of the result is produced, when an error surfaces), so the entry points need not agree", file=fi.file, line=fi.line)
    else:
        report.undecided(rule, fi.qualname, f"module-level {name} is a function whose body is not a plain delegation to DEFAULT_ENV.{name}")


def check_module_api(model: Model, report: Report, rule: str) -> None:
    pkg = model.module("__init__")
    env = model.cls("environment.JSONPathEnvironment")
    de = pkg.assigns.get("DEFAULT_ENV")
    if isinstance(de, ast.Call) and model.resolve_expr_static(pkg, de.func) == ("class", env):
        report.ok(rule, "__init__", "DEFAULT_ENV is a JSONPathEnvironment")
    else:
        report.fail(rule, "__init__", "default-env", f"DEFAULT_ENV is {ast.unparse(de) if de else None}")
    for name in ("compile", "finditer", "find", "find_one"):
        e = pkg.assigns.get(name)
        if isinstance(e, ast.Attribute) and isinstance(e.value, ast.Name) and e.value.id == "DEFAULT_ENV" and e.attr == name:
            report.ok(rule, "__init__", f"{name} = DEFAULT_ENV.{name}")
        elif name in pkg.functions:
            _check_module_wrapper(model, report, rule, pkg.functions[name], name)
        else:
            report.fail(rule, "__init__", f"alias:{name}", f"module-level {name} is {ast.unparse(e) if e else 'missing'}, expected DEFAULT_ENV.{name}")
    # no rebinding of the aliases further down
    for n in pkg.tree.body:
        if isinstance(n, ast.Assign):
            for t in n.targets:
                if isinstance(t, ast.Name) and t.id in ("compile", "finditer", "find", "find_one", "DEFAULT_ENV") and pkg.assigns.get(t.id) is not n.value:
                    report.fail(rule, "__init__", f"rebound:{t.id}", f"{t.id} is bound more than once at module level")


def check_no_validity_errors_at_evaluation(model: Model, report: Report, rule: str) -> None:
    """Index-range, syntax and name errors are properties of the query: they are raised while compiling, so that every
    entry point reports them identically.  Raised from a resolve() generator they surface only when (and if) the
    iterator reaches that selector: find() raises, find_one() may return a node, finditer() raises later."""
    compile_only = {"JSONPathIndexError", "JSONPathSyntaxError", "JSONPathNameError", "JSONPathLexerError"}
    n = 0
    for ci in model.classes.values():
        if ci.module.short not in ("selectors", "segments"):
            continue
        res = ci.methods.get("resolve")
        if res is None:
            continue
        todo, seen = [res], set()
        while todo:
            f = todo.pop()
            if f.qualname in seen:
                continue
            seen.add(f.qualname)
            n += 1
            for node in ast.walk(f.node):
                if isinstance(node, ast.Raise) and isinstance(node.exc, ast.Call):
                    name = ast.unparse(node.exc.func).split(".")[-1]
                    if name in compile_only:
                        report.fail(rule, f.qualname, f"validity-error-at-evaluation:{name}", f"{name} is raised on the evaluation path of {ci.name}.resolve (in {f.name}): a validity error that is not reported by compile() reaches the user through find() but not, or later, through find_one() / finditer()", file=f.file, line=node.lineno)
                if isinstance(node, ast.Call) and isinstance(node.func, ast.Attribute) and isinstance(node.func.value, ast.Name) and node.func.value.id == "self":
                    m = ci.find_method(node.func.attr)
                    if m is not None:
                        todo.append(m)
    if n and not any(f.rule == rule and "validity-error-at-evaluation" in f.key for f in report.findings):
        report.ok(rule, "<selectors, segments>", "no index / syntax / name error is raised on an evaluation path", detail={"functions": n})


def check(model: Model, report: Report) -> None:
    report.rule("R15.1", "module-level compile/find/finditer/find_one are the bound methods of DEFAULT_ENV = JSONPathEnvironment()")
    report.rule("R15.2", "environment methods are eager pure delegations self.compile(query).<same method>(value) with unchanged arguments")
    report.rule("R15.3", "query.find/apply = JSONPathNodeList(self.finditer(value)) in order; find_one = first node of finditer(value) or None")
    report.rule("R15.4", "an error raised by compile() escapes every string-taking entry point unchanged and at call time")
    report.assumptions += ["JSONPathNodeList(iterable) keeps every element in order (list semantics, A1)"]
    check_module_api(model, report, "R15.1")
    check_env_methods(model, report, "R15.2", "R15.4")
    check_query_methods(model, report, "R15.3")
    report.rule("R15.5", "validity errors (index range, syntax, unknown name) are raised by compile(), never from resolve(): otherwise find(), find_one() and finditer() disagree on an invalid query")
    check_no_validity_errors_at_evaluation(model, report, "R15.5")
    report.extra["explanation"] = "C15: each entry point interpreted with finditer/compile replaced by markers; results compared with the delegation shape of its role (ITER / LIST / FIRST)."
