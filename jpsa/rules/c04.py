"""C04 — everything outside the RFC 9535 grammar is rejected (lexical layer + token-shape guards)."""

from __future__ import annotations

from ..model import Model
from ..protocol import Report
from . import _lexrules
from . import _lexstates
from . import _shapes


def check(model: Model, report: Report) -> None:
    for k, v in {
        "L1": "blank space recogniser ⊆ {SP,HT,LF,CR}+",
        "L2": "member-name-shorthand language ⊆ RFC",
        "L3": "index / slice component lexemes accepted ⊆ RFC int (no leading zeros, no -0) at each of the four sites",
        "L4": "number literal lexemes accepted ⊆ RFC number",
        "L5": "function-name language ⊆ RFC",
        "L6": "string literal bodies accepted ⊆ RFC string-literal for both quote styles",
        "L7": "no fixed lexeme beyond the RFC's operators/keywords/punctuation is tokenised; unknown characters and lone '=' are errors",
        "L9": "blank space is not tolerated where the grammar forbids it (after '.', '..', before '$', after the last segment)",
        "GRID": "every sequence of filter tokens (<= 4 quick / 5 thorough) and of bracketed-selection tokens that the RFC grammar or typing rules refuse raises a JSONPathError in the interpreted parser (exhaustive up to the bound)",
        "L11": "lexer state transitions and bracket / function-call bookkeeping (unbalanced or mismatched brackets are errors; a filter ends exactly at ',' outside a call or at ']')",
        "G": "token shapes outside the grammar (commas, empty segments, slice typestate, operand categories, dangling operators, trailing tokens) raise a JSONPathError",
    }.items():
        report.rule(f"R04.{k}", v)
    report.assumptions += ["A1: stdlib re semantics; int()/float() literal domains", "query strings range over Unicode scalar values"]
    report.not_decided += ["rejection of the complement of the whole context-free language: decided for the lexical layer and for the enumerated token shapes only"]
    _lexrules.lexical_layer(model, report, "a-only", "R04")
    from . import _pipeline

    report.rule("R04.T", "tokenize() scans exactly the text it is given from offset 0: nothing is stripped, normalised or rewritten before scanning (text before '$' is an error, not noise)")
    _pipeline.check_tokenize_setup(model, report, "R04.T")
    _lexstates.check_token_tables(model, report, "R04.L7", "a-only")
    _lexstates.check_blank_positions(model, report, "R04.L9", "a-only")
    _lexstates.check_transitions(model, report, "R04.L11")
    _shapes.check_shapes(model, report, "R04.G", want_valid=False)
    from . import _tokgrid

    _tokgrid.check_grid(model, report, "R04.GRID", want_valid=False)
    report.extra["explanation"] = "C04: regular-language inclusion accepted lexemes ⊆ RFC terminal per token position (automata product with shortest witnesses); lexer states as one generic iteration; parser interpreted on invalid token shapes."
