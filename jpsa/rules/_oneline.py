"""One-line diagnostics (C20): no error message the library can construct contains a line break.

The CLI prints str(error) followed by one newline; the diagnostic is one line iff the message is.  Two analyses:

A. lexer states (path-sensitive): every error token a state can emit and every exception a state can raise is
   taken from the interpreted paths; its message is a constant or an f-string whose parts are constants, repr()
   of query text (repr escapes line breaks), integers, or a raw query character that the path condition shows
   not to be LF / CR.
B. every other construction of a JSONPathError subclass (AST, flow-insensitive): the message expression is
   classified as line-break-free / tainted by query text / unknown by a small inference over constants,
   f-strings, !r conversions, integer-valued expressions, enum member names, locals and parameters (through all
   call sites), with an explicit table for the few texts that are safe for lexical reasons.
"""

from __future__ import annotations

import ast
from typing import Any
from typing import Dict
from typing import List
from typing import Optional
from typing import Set
from typing import Tuple

from ..absctx import Unsupported
from ..absval import *  # noqa: F403
from ..harness import describe
from ..model import AnalysisError
from ..model import FuncInfo
from ..model import Model
from ..model import walk_own
from ..protocol import Report
from . import _lexstates

BREAKS = ("\n", "\r")

# (function qualname or '*', expression text) -> reason.  Texts that come from the query but cannot hold a line
# break for lexical reasons; the lexical reason itself is checked by `function_names_are_one_line`.
SAFE_TEXT: Dict[Tuple[str, str], str] = {
    ("environment.JSONPathEnvironment.check_well_typedness", "token.value"): "text of a FUNCTION token (function-name regex)",
    ("*", "expr.name"): "FunctionExtension.name: text of a FUNCTION token (function-name regex)",
    ("filter_expressions.PrefixExpression.evaluate", "self.operator"): "operator lexeme stored by the parser: a fixed lexeme",
    ("filter_expressions.PrefixExpression.evaluate", "self.right"): "str() of a compiled expression: canonical strings (C08 R08.4 escapes control characters), numbers, keywords, operators",
    ("lex.tokenize", "tokens[-1].message"): "the message of the lexer's own error token, checked where the lexer builds it (part A)",
}


def has_break(s: str) -> bool:
    return any(b in s for b in BREAKS)


# ------------------------------------------------------------------ part A
def lexer_configs() -> List[Tuple[str, Dict[str, Any]]]:
    out: List[Tuple[str, Dict[str, Any]]] = []
    for st in ("lex_root", "lex_segment", "lex_descendant_segment", "lex_shorthand_selector"):
        for fd in (0, 1):
            out.append((st, dict(filter_depth=fd)))
    for bt in ("[", "(", None):
        for inf in (False, True):
            out.append(("lex_inside_filter", dict(filter_depth=1, bracket_top=bt, in_function=inf)))
        out.append(("lex_inside_bracketed_segment", dict(filter_depth=0, bracket_top=bt)))
    return out


def av_problem(av: Any, ctx: Any) -> Optional[str]:
    """Why the abstract message may contain a line break (None if it cannot; 'unknown: ...' if undecidable)."""
    if isinstance(av, Const):
        if isinstance(av.value, str) and has_break(av.value):
            return "the constant text contains a line break"
        return None
    if isinstance(av, IntV):
        return None
    if isinstance(av, SymChar):
        fx = ctx.char_fixed.get(av.id)
        if fx is not None:
            return f"the character {fx!r} is a line break" if fx in BREAKS else None
        ex = ctx.char_excl.get(av.id) or ()
        if all(b in ex for b in BREAKS):
            return None
        return f"the raw query character {av.label} is interpolated without repr(); on this path it can be LF or CR"
    if isinstance(av, Term):
        if av.op in ("repr", "ascii"):
            return None
        if av.op in ("fstr", "concat"):
            for part in av.args:
                p = av_problem(part, ctx)
                if p:
                    return p
            return None
        if av.op == "str" and av.args:
            return av_problem(av.args[0], ctx)
        if av.op == "strslice":
            return f"the raw query text {describe(av)!r} is interpolated without repr()"
    if isinstance(av, SymStr):
        return f"the raw text {av.label} is interpolated without repr()"
    return f"unknown: message part {describe(av)!r}"


def _starts_with_ignore(fi: Any) -> bool:
    """The next state re-establishes start == pos itself before anything else (string states drop the opening quote)."""
    if fi is None:
        return False
    body = [st for st in fi.node.body if not (isinstance(st, ast.Expr) and isinstance(st.value, ast.Constant))]
    if not body or not fi.node.args.args:
        return False
    st = body[0]
    p0 = fi.node.args.args[0].arg
    return isinstance(st, ast.Expr) and isinstance(st.value, ast.Call) and isinstance(st.value.func, ast.Attribute) and st.value.func.attr == "ignore" and isinstance(st.value.func.value, ast.Name) and st.value.func.value.id == p0


def check_lexer_messages(model: Model, report: Report, rule: str) -> Set[str]:
    """Returns the qualnames of the functions whose error sites were covered path-sensitively."""
    covered: Set[str] = set()
    n_msgs = 0
    n_raised = 0
    broken_invariant: List[str] = []
    lexmod = model.module("lex")
    for state, cfg in lexer_configs():
        try:
            steps = _lexstates.lexer_iteration(model, state, **cfg)
        except Unsupported as err:
            report.undecided(rule, f"lex.{state}", f"one-line messages: {err}")
            continue
        covered.add(f"lex.{state}")
        for s in steps:
            if s.raised_exc is not None:
                # an exception raised by a helper (backup / ignore_whitespace) on a reachable path
                n_raised += 1
                exc = s.raised_exc
                args = exc.attrs.get("args") if isinstance(exc, Inst) else None
                msg = args.items[0] if isinstance(args, (PyTuple, PyList)) and args.items else None
                p = av_problem(msg, s.ctx) if msg is not None else "unknown: exception without a message"
                if p and p.startswith("unknown"):
                    report.undecided(rule, f"lex.{state}", f"one-line messages: raised {s.raised}: {p}")
                elif p:
                    report.fail(rule, f"lex.{state}", f"raised-message:{state}:{s.raised}", f"the {s.raised} raised while scanning in {state} can carry a message that spans two lines: {p}")
                continue
            if s.next_state is not None and s.error is None and s.start_is_pos_after is False and not _starts_with_ignore(s.next_fi):
                broken_invariant.append(state)
            if s.error_av is None:
                continue
            n_msgs += 1
            p = av_problem(s.error_av, s.ctx)
            if p is None:
                continue
            if p.startswith("unknown"):
                report.undecided(rule, f"lex.{state}", f"one-line messages: {p}")
            else:
                fi = lexmod.functions.get(state)
                report.fail(rule, f"lex.{state}", f"message:{state}:{s.error if len(str(s.error)) < 80 else str(s.error)[:80]}", f"the error message built in {state} can span two lines: {p}; the CLI prints it verbatim as its diagnostic", file=fi.file if fi else "", line=fi.line if fi else 0)
    if n_msgs < 8:
        raise AnalysisError(f"only {n_msgs} lexer error messages were seen; the lexer-state exploration is broken")
    report.ok(rule, "lex", f"lexer states: {n_msgs} error-token messages and {n_raised} raised messages on all interpreted paths are line-break-free")
    # helper methods of the Lexer are reached only from the states; their raise sites are covered by the paths above
    # provided every state hands over with start == pos, the entry condition each iteration was analysed under
    if broken_invariant:
        report.undecided(rule, "lex.Lexer", f"states {sorted(set(broken_invariant))} can hand over with start != pos; raise sites in Lexer helper methods are then not covered by the state exploration")
    else:
        lci = model.cls("lex.Lexer")
        covered |= {m.qualname for m in lci.methods.values()}
        report.ok(rule, "lex.Lexer", "every continuing step leaves start == pos: helper raise sites (backup, ignore_whitespace) are reached only as explored")
    return covered


# ------------------------------------------------------------------ part B
class Inference:
    def __init__(self, model: Model) -> None:
        self.model = model
        self.int_attrs = self._int_attrs()
        self.errs = {c.name for c in model.classes.values() if any(b.name == "JSONPathError" for b in c.mro())}

    def _int_attrs(self) -> Set[str]:
        """Attribute names that hold an int in every class that assigns them (from int-annotated constructor
        parameters, int constants, or int arithmetic on them)."""
        votes: Dict[str, List[bool]] = {}
        for ci in self.model.classes.values():
            for m in ci.methods.values():
                ann = {a.arg: ast.unparse(a.annotation) for a in m.node.args.args + m.node.args.kwonlyargs if a.annotation is not None}
                for n in walk_own(m.node):
                    tgt = val = None
                    if isinstance(n, ast.Assign) and len(n.targets) == 1:
                        tgt, val = n.targets[0], n.value
                    elif isinstance(n, ast.AnnAssign) and n.value is not None:
                        tgt, val = n.target, n.value
                    elif isinstance(n, ast.AugAssign):
                        tgt, val = n.target, n.value
                    if isinstance(tgt, ast.Attribute) and isinstance(tgt.value, ast.Name) and tgt.value.id == "self":
                        ok = (
                            (isinstance(val, ast.Constant) and isinstance(val.value, int) and not isinstance(val.value, bool))
                            or (isinstance(val, ast.Name) and ann.get(val.id) == "int")
                            or (isinstance(val, ast.Attribute) and isinstance(val.value, ast.Name) and val.value.id == "self")  # self.a = self.b: decided by b
                            or (isinstance(val, ast.UnaryOp) and isinstance(val.operand, ast.Constant) and isinstance(val.operand.value, int))
                        )
                        votes.setdefault(tgt.attr, []).append(bool(ok))
        return {a for a, v in votes.items() if v and all(v)}

    # -- expression classification: None = line-break-free, "tainted: ..." or "unknown: ..."
    def classify(self, e: ast.expr, fi: FuncInfo, depth: int = 0) -> Optional[str]:
        text = ast.unparse(e)
        for key in ((fi.qualname, text), ("*", text)):
            if key in SAFE_TEXT:
                return None
        if depth > 6:
            return f"unknown: {text} (inference depth)"
        if isinstance(e, ast.Constant):
            if isinstance(e.value, str) and has_break(e.value):
                return f"tainted: the constant {e.value!r} contains a line break"
            return None
        if isinstance(e, ast.JoinedStr):
            for v in e.values:
                if isinstance(v, ast.FormattedValue):
                    if v.conversion in (114, 97):  # !r / !a escape line breaks
                        continue
                    p = self.classify(v.value, fi, depth + 1)
                    if p:
                        return p
                else:
                    p = self.classify(v, fi, depth + 1)
                    if p:
                        return p
            return None
        if isinstance(e, ast.IfExp):
            return self.classify(e.body, fi, depth + 1) or self.classify(e.orelse, fi, depth + 1)
        if isinstance(e, ast.BinOp) and isinstance(e.op, ast.Mod) and isinstance(e.left, ast.Constant) and isinstance(e.left.value, str):
            return self._printf(e.left.value, e.right, fi, depth, text)
        if isinstance(e, ast.BinOp) and isinstance(e.op, (ast.Add, ast.Sub, ast.Mult, ast.FloorDiv, ast.Mod)):
            if isinstance(e.op, ast.Mod) and not self.is_int(e.left, fi):
                return f"unknown: {text}"
            return self.classify(e.left, fi, depth + 1) or self.classify(e.right, fi, depth + 1)
        if isinstance(e, ast.Call):
            f = ast.unparse(e.func)
            if f in ("len", "repr", "ascii", "int", "hex", "ord", "type", "id", "bool"):
                return None
            if f == "str" and e.args:
                return self.classify(e.args[0], fi, depth + 1)
            if f == "format" and len(e.args) == 1:
                return self.classify(e.args[0], fi, depth + 1)
            if isinstance(e.func, ast.Attribute) and e.func.attr == "format":
                tmpl = e.func.value
                if isinstance(tmpl, ast.Name):
                    tv = self._const_of(tmpl.id, fi)
                    tmpl = ast.Constant(tv) if tv is not None else tmpl
                if isinstance(tmpl, ast.Constant) and isinstance(tmpl.value, str):
                    return self._strformat(tmpl.value, e, fi, depth, text)
            callee = self._helper(e, fi)
            if callee is not None:
                # a helper of the package that builds (part of) the text: every value it can return, judged in its
                # own body (its parameters are decided from all its call sites)
                rets = [n for n in walk_own(callee.node) if isinstance(n, ast.Return)]
                if rets and not callee.is_generator:
                    for r in rets:
                        if r.value is None:
                            continue
                        p = self.classify(r.value, callee, depth + 1)
                        if p:
                            return p
                    return None
            return f"unknown: {text}"
        if isinstance(e, ast.ListComp) or isinstance(e, ast.List):
            return f"unknown: {text}"
        if isinstance(e, ast.Attribute):
            if e.attr in self.int_attrs:
                return None
            if e.attr == "name" and (ast.unparse(e.value).endswith("type_") or self._enum_typed(e.value, fi)):
                return None  # enum member names are identifiers
            if e.attr == "message":
                return None  # a token's message is whatever Token(..., message) was built with: checked at those sites
            if e.attr in ("value", "query") and isinstance(e.value, ast.Name) and not any(
                isinstance(n, (ast.Assign, ast.AnnAssign)) and any(isinstance(t, ast.Name) and t.id == e.value.id for t in (n.targets if isinstance(n, ast.Assign) else [n.target])) for n in walk_own(fi.node)
            ):
                # attribute of a parameter: decided where the argument comes from
                sites = self.call_site_args(fi, e.value.id)
                if sites:
                    for g, arg in sites:
                        p = self.classify(ast.Attribute(value=arg, attr=e.attr, ctx=ast.Load()), g, depth + 1)
                        if p:
                            return p
                    return None
            if e.attr in ("value", "query"):
                return f"tainted: {text} is text of the query and is interpolated without repr(): it may contain a line break"
            return f"unknown: {text}"
        if isinstance(e, ast.Subscript):
            base = ast.unparse(e.value)
            if base.endswith("query") or base.endswith(".value"):
                return f"tainted: {text} is a piece of the query text interpolated without repr()"
            return f"unknown: {text}"
        if isinstance(e, ast.Name):
            return self.classify_name(e.id, fi, depth)
        return f"unknown: {text}"

    def _helper(self, call: ast.Call, fi: FuncInfo) -> Optional[FuncInfo]:
        f = call.func
        if isinstance(f, ast.Name):
            g = fi.module.functions.get(f.id)
            if g is not None:
                return g
            for q, cand in self.model.functions.items():
                if cand.cls is None and cand.name == f.id and f.id in getattr(fi.module, "imports", {}):
                    return cand
            return None
        if isinstance(f, ast.Attribute) and isinstance(f.value, ast.Name) and f.value.id in ("self", "cls") and fi.cls is not None:
            return fi.cls.find_method(f.attr)
        return None

    def _const_of(self, name: str, fi: FuncInfo) -> Optional[str]:
        """The string constant a module-level name (never rebound) or a single-assignment local stands for."""
        vals = [n.value for n in walk_own(fi.node) if isinstance(n, ast.Assign) and any(isinstance(t, ast.Name) and t.id == name for t in n.targets)]
        if not vals and name in fi.module.assigns and name not in {a.arg for a in fi.node.args.args}:
            vals = [fi.module.assigns[name]]
        if len(vals) == 1 and isinstance(vals[0], ast.Constant) and isinstance(vals[0].value, str):
            return vals[0].value
        return None

    def _strformat(self, template: str, call: ast.Call, fi: FuncInfo, depth: int, text: str) -> Optional[str]:
        import string as _string

        if has_break(template):
            return f"tainted: the template {template!r} contains a line break"
        auto = 0
        kws = {k.arg: k.value for k in call.keywords if k.arg}
        try:
            fields = list(_string.Formatter().parse(template))
        except ValueError:
            return f"unknown: {text}"
        for _lit, field, spec, conv in fields:
            if field is None:
                continue
            if conv in ("r", "a"):
                if field == "":
                    auto += 1
                continue
            head = field.split(".")[0].split("[")[0]
            if field == "":
                arg = call.args[auto] if auto < len(call.args) else None
                auto += 1
            elif head.isdigit():
                arg = call.args[int(head)] if int(head) < len(call.args) and head == field else None
            else:
                arg = kws.get(head) if head == field else None
            if arg is None or isinstance(arg, ast.Starred):
                return f"unknown: {text}"
            p = self.classify(arg, fi, depth + 1)
            if p:
                return p
        return None

    def _printf(self, template: str, right: ast.expr, fi: FuncInfo, depth: int, text: str) -> Optional[str]:
        import re as _re

        if has_break(template):
            return f"tainted: the template {template!r} contains a line break"
        args = list(right.elts) if isinstance(right, ast.Tuple) else [right]
        k = 0
        for m in _re.finditer(r"%(\([^)]*\))?[#0\- +]*(\*|\d+)?(\.(\*|\d+))?([a-zA-Z%])", template):
            c = m.group(5)
            if c == "%":
                continue
            if m.group(1) or k >= len(args):
                return f"unknown: {text}"
            a = args[k]
            k += 1
            if c in "ra" or c in "dioxXeEfFgGc":
                continue  # repr/ascii escape line breaks; numeric conversions print digits
            p = self.classify(a, fi, depth + 1)
            if p:
                return p
        return None

    def _enum_typed(self, e: ast.expr, fi: FuncInfo) -> bool:
        if isinstance(e, ast.Name):
            for a in fi.node.args.args + fi.node.args.kwonlyargs + ([fi.node.args.vararg] if fi.node.args.vararg else []):
                if a.arg == e.id and a.annotation is not None and "TokenType" in ast.unparse(a.annotation):
                    return True
        if isinstance(e, ast.Subscript):
            return self._enum_typed(e.value, fi)
        return False

    def is_int(self, e: ast.expr, fi: FuncInfo) -> bool:
        if isinstance(e, ast.Constant):
            return isinstance(e.value, int)
        if isinstance(e, ast.Attribute):
            return e.attr in self.int_attrs
        if isinstance(e, ast.BinOp):
            return self.is_int(e.left, fi) and self.is_int(e.right, fi)
        if isinstance(e, ast.Name):
            return self.classify_name(e.id, fi, 0) is None and self._name_is_int(e.id, fi)
        return False

    def _name_is_int(self, name: str, fi: FuncInfo) -> bool:
        for a in fi.node.args.args + fi.node.args.kwonlyargs:
            if a.arg == name and a.annotation is not None and ast.unparse(a.annotation) == "int":
                return True
        for n in walk_own(fi.node):
            if isinstance(n, ast.For) and isinstance(n.iter, ast.Call) and ast.unparse(n.iter.func) == "enumerate" and isinstance(n.target, ast.Tuple) and n.target.elts and isinstance(n.target.elts[0], ast.Name) and n.target.elts[0].id == name:
                return True
        return False

    def call_site_args(self, fi: FuncInfo, name: str) -> List[Tuple[FuncInfo, ast.expr]]:
        """(caller, argument expression) for parameter `name` of fi at every call of a function of that name."""
        params = [a.arg for a in fi.node.args.args + fi.node.args.kwonlyargs]
        if name not in params:
            return []
        pos = [a.arg for a in fi.node.args.args]
        idx = pos.index(name) - (1 if fi.cls is not None else 0) if name in pos else -1
        out: List[Tuple[FuncInfo, ast.expr]] = []
        for g in self.model.functions.values():
            for n in walk_own(g.node):
                if not isinstance(n, ast.Call):
                    continue
                callee = n.func.attr if isinstance(n.func, ast.Attribute) else n.func.id if isinstance(n.func, ast.Name) else None
                if callee != fi.name:
                    continue
                arg = None
                if 0 <= idx < len(n.args) and not any(isinstance(a, ast.Starred) for a in n.args[: idx + 1]):
                    arg = n.args[idx]
                for kw in n.keywords:
                    if kw.arg == name:
                        arg = kw.value
                if arg is not None:
                    out.append((g, arg))
        return out

    def classify_name(self, name: str, fi: FuncInfo, depth: int) -> Optional[str]:
        if self._name_is_int(name, fi):
            return None
        # locals: every assignment must be line-break-free
        vals: List[ast.expr] = []
        opaque = False
        for n in walk_own(fi.node):
            if isinstance(n, ast.Assign):
                for t in n.targets:
                    if isinstance(t, ast.Name) and t.id == name:
                        vals.append(n.value)
                    elif isinstance(t, (ast.Tuple, ast.List)) and any(isinstance(x, ast.Name) and x.id == name for x in ast.walk(t)):
                        # `a, b = x, y`: the component assigned to the name, when both sides are flat tuples
                        v_ = n.value
                        if isinstance(v_, (ast.Tuple, ast.List)) and len(v_.elts) == len(t.elts) and not any(isinstance(x, ast.Starred) for x in list(t.elts) + list(v_.elts)) and all(isinstance(x, ast.Name) for x in t.elts):
                            vals += [ve for te, ve in zip(t.elts, v_.elts) if te.id == name]
                        else:
                            opaque = True
            elif isinstance(n, ast.AnnAssign) and isinstance(n.target, ast.Name) and n.target.id == name and n.value is not None:
                vals.append(n.value)
            elif isinstance(n, (ast.For, ast.comprehension)) and any(isinstance(x, ast.Name) and x.id == name for x in ast.walk(n.target)):
                opaque = True
        if vals and not opaque:
            for v in vals:
                if isinstance(v, ast.Call) and isinstance(v.func, ast.Attribute) and v.func.attr in ("next", "peek") and not v.args:
                    return f"tainted: {name} is a raw character of the query ({ast.unparse(v)}) interpolated without repr()"
                p = self.classify(v, fi, depth + 1)
                if p:
                    return p
            return None
        # parameters: every call site in the package must pass a line-break-free argument
        params = [a.arg for a in fi.node.args.args]
        if name in params and not opaque:
            sites = self.call_site_args(fi, name)
            for g, arg in sites:
                p = self.classify(arg, g, depth + 1)
                if p:
                    return p
            if sites:
                return None
            return f"unknown: parameter {name} of {fi.qualname} has no call site in the package"
        # module-level constant
        if not vals and name not in params and name in fi.module.assigns:
            rebinds = [g for g in self.model.functions.values() if g.module is fi.module and any(isinstance(n, ast.Global) and name in n.names for n in walk_own(g.node))]
            if not rebinds:
                return self.classify(fi.module.assigns[name], fi, depth + 1)
        return f"unknown: {name} in {fi.qualname}"


def check_constructed_messages(model: Model, report: Report, rule: str, skip: Set[str]) -> None:
    inf = Inference(model)
    n_sites = 0
    for fi in model.functions.values():
        if fi.qualname in skip or fi.module.short.startswith("utils."):
            continue
        for n in walk_own(fi.node):
            if not isinstance(n, ast.Call):
                continue
            fname = ast.unparse(n.func)
            is_err = fname.split(".")[-1] in inf.errs
            is_lex_error = isinstance(n.func, ast.Attribute) and n.func.attr == "error" and fi.module.short == "lex"
            is_token = fname.split(".")[-1] == "Token" and (len(n.args) >= 5 or any(k.arg == "message" for k in n.keywords))
            if not (is_err or is_lex_error or is_token):
                continue
            if is_token:
                msg = n.args[4] if len(n.args) >= 5 else next(k.value for k in n.keywords if k.arg == "message")
            else:
                msg = n.args[0] if n.args else next((k.value for k in n.keywords if k.arg in ("msg", "message")), None)
            if msg is None:
                continue
            n_sites += 1
            p = inf.classify(msg, fi)
            key = f"message:{fi.qualname}:{ast.unparse(msg)[:70]}"
            if p is None:
                report.ok(rule, fi.qualname, key, nontrivial=not isinstance(msg, ast.Constant))
            elif p.startswith("tainted"):
                report.fail(rule, fi.qualname, key, f"the error message {ast.unparse(msg)[:120]} can span two lines: {p[9:]}; the CLI prints it verbatim as its diagnostic", file=fi.file, line=n.lineno)
            else:
                report.undecided(rule, fi.qualname, f"{key}: cannot show the message is one line ({p[9:]})")
    if n_sites < 40:
        raise AnalysisError(f"only {n_sites} error-message sites found")
    report.extra["message_sites"] = n_sites


def function_names_are_one_line(model: Model, report: Report, rule: str) -> None:
    """The lexical fact behind SAFE_TEXT: a FUNCTION token's text matches a regex that admits no LF / CR."""
    from ..automata import Chars, CharSet, Lang, Rep, Seq, common_partition, from_sre
    from . import _lexrules

    pats = _lexrules.lexer_patterns(model)
    names = _lexrules.token_regexes(model).get("FUNCTION") or []
    if not names:
        raise AnalysisError("no regex is emitted as FUNCTION")
    anyc = Rep(Chars(CharSet([(0, 0x10FFFF)])), 0, None)
    with_break = Seq(anyc, Chars(CharSet.of("\n\r")), anyc)
    for nme in names:
        rx = from_sre(pats[nme])
        classes = common_partition([rx, with_break])
        both = Lang.from_rx(rx, classes).product(Lang.from_rx(with_break, classes), "and").minimize()
        if any(both.accepting) and both.divergences(Lang.from_rx(Chars(CharSet()), classes).minimize()):
            report.fail(rule, "lex", f"function-name-regex:{nme}", f"the function-name pattern {pats[nme]!r} admits a line break; function names are quoted raw in type-error messages")
        else:
            report.ok(rule, "lex", f"function-name pattern {nme} admits no LF/CR")


def check(model: Model, report: Report, rule: str) -> None:
    covered = check_lexer_messages(model, report, rule)
    check_constructed_messages(model, report, rule, skip=covered | {"lex.Lexer.error"})
    function_names_are_one_line(model, report, rule)
