"""C05 — validity rules: well-typedness, singular comparands, integer range."""

from __future__ import annotations

from typing import Any
from typing import Dict
from typing import List
from typing import Optional
from typing import Tuple

from ..absctx import Unsupported
from ..absint import Interp
from ..absint import hkey
from ..absval import *  # noqa: F403
from ..harness import describe
from ..harness import make_stream
from ..harness import make_token
from ..harness import paths
from ..harness import real_env
from ..model import AnalysisError
from ..model import Model
from ..numeric import Lin
from ..protocol import Report
from .c10 import etype
from .c10 import probe_function

FE = "filter_expressions."
TYPES = ["VALUE", "LOGICAL", "NODES"]

# argument classes of RFC 9535 2.4.3 and whether a parameter of each type accepts them
ARG_CLASSES = [
    "literal:int", "literal:float", "literal:string", "literal:true", "literal:null",
    "query:relative:singular", "query:relative:non-singular", "query:root:singular", "query:root:non-singular",
    "comparison", "logical-and", "logical-or", "negation",
    "call->VALUE", "call->LOGICAL", "call->NODES",
]


def accepts(param: str, arg: str) -> bool:
    if arg.startswith("literal"):
        return param == "VALUE"
    if arg.startswith("query"):
        if arg.endswith(":singular"):
            return True
        return param in ("LOGICAL", "NODES")
    if arg in ("comparison", "logical-and", "logical-or", "negation"):
        return param == "LOGICAL"
    ret = arg.split("->")[1]
    if ret == "VALUE":
        return param == "VALUE"
    if ret == "LOGICAL":
        return param == "LOGICAL"
    return param in ("LOGICAL", "NODES")


def register(it: Interp, env: Inst, name: str, f: Inst) -> None:
    reg = env.attrs["function_extensions"]
    reg.items[hkey(Const(name))] = f
    reg.keys_av[hkey(Const(name))] = Const(name)


def make_query(it: Interp, model: Model, env: Inst, singular: bool) -> Inst:
    q = it.harness_inst(model.cls("query.JSONPathQuery"), "q")
    q.attrs["env"] = env
    tok = it.new_opaque("tok")
    if singular:
        sel = it.harness_inst(model.cls("selectors.NameSelector"), "name")
        sel.attrs.update({"env": env, "token": tok, "name": it.new_str("n")})
    else:
        sel = it.harness_inst(model.cls("selectors.WildcardSelector"), "wild")
        sel.attrs.update({"env": env, "token": tok})
    seg = it.harness_inst(model.cls("segments.JSONPathChildSegment"), "seg")
    seg.attrs.update({"env": env, "token": tok, "selectors": PyTuple((sel,))})
    q.attrs["segments"] = PyTuple((seg,))
    return q


def make_arg(it: Interp, model: Model, env: Inst, cls_: str, call_name: Any = None) -> Inst:
    tok = it.new_opaque("tok", model.cls("tokens.Token"))

    def inst(cname_: str, **attrs: Any) -> Inst:
        x = it.harness_inst(model.cls(FE + cname_), cls_)
        x.attrs["token"] = tok
        x.attrs.update(attrs)
        return x

    if cls_.startswith("literal"):
        k = cls_.split(":")[1]
        cname = {"int": "IntegerLiteral", "float": "FloatLiteral", "string": "StringLiteral", "true": "BooleanLiteral", "null": "NullLiteral"}[k]
        val = {"int": it.new_sym("v", ["int"]), "float": it.new_sym("v", ["float"]), "string": it.new_str("s"), "true": Const(True), "null": Const(None)}[k]
        return inst(cname, value=val)
    if cls_.startswith("query"):
        _, which, sing = cls_.split(":")
        cname = "RelativeFilterQuery" if which == "relative" else "RootFilterQuery"
        return inst(cname, query=make_query(it, model, env, sing == "singular"))
    q1 = inst("RelativeFilterQuery", query=make_query(it, model, env, True))
    q2 = inst("RelativeFilterQuery", query=make_query(it, model, env, True))
    if cls_ == "comparison":
        return inst("ComparisonExpression", left=q1, operator=Const("=="), right=q2)
    if cls_ == "logical-and":
        return inst("LogicalExpression", left=q1, operator=Const("&&"), right=q2)
    if cls_ == "logical-or":
        return inst("LogicalExpression", left=q1, operator=Const("||"), right=q2)
    if cls_ == "negation":
        return inst("PrefixExpression", operator=Const("!"), right=q1)
    ret = cls_.split("->")[1]
    name = call_name or f"g_{ret.lower()}"
    register(it, env, name, probe_function(it, model, [], ret, []))
    return inst("FunctionExtension", name=Const(name), args=it.new_list([]))


def check_typing_table(model: Model, report: Report, rule: str, rule_arity: str, only_valid: bool = False) -> None:
    eci = model.cls("environment.JSONPathEnvironment")
    fn = eci.find_method("check_well_typedness")
    if fn is None:
        raise AnalysisError("anchor vanished: JSONPathEnvironment.check_well_typedness")
    entry = eci.find_method("validate_function_extension_signature")
    if entry is not None and len(entry.node.args.args) != 3:
        entry = None
    FIRST = {"after-VALUE": ("VALUE", "literal:int"), "after-LOGICAL": ("LOGICAL", "comparison"), "after-NODES": ("NODES", "query:relative:non-singular")}
    # the registry is arbitrary (C05 quantifies over any set of registered functions): a nested call is also
    # typed when the function it names has replaced a standard function of another result type
    std_names: List[str] = []

    def names_body(it: Interp) -> Any:
        return real_env(it, model).attrs["function_extensions"]

    for run in paths(model, names_body):
        if run.kind != "raise":
            std_names = sorted(str(k.value) for k in run.value.keys_av.values() if isinstance(k, Const))
    cells = [(p, a, q, None) for p in TYPES for a in ARG_CLASSES for q in ("only", "after-VALUE", "after-LOGICAL", "after-NODES")]
    cells += [(p, a, "only", nm) for p in TYPES for a in ARG_CLASSES if a.startswith("call->") for nm in std_names]
    for param, arg, pos, call_name in cells:
        if True:

            def body(it: Interp, param=param, arg=arg, pos=pos, call_name=call_name) -> Any:
                env = real_env(it, model)
                f = probe_function(it, model, [param] if pos == "only" else [FIRST[pos][0], param], "LOGICAL", [])
                register(it, env, "f", f)
                tok = make_token(it, model, "FUNCTION", Const("f"), "ftok")
                a = make_arg(it, model, env, arg, call_name)
                args = [a] if pos == "only" else [make_arg(it, model, env, FIRST[pos][1]), a]
                if entry is not None:
                    # through the parser's entry point (registry lookup, then the check), on an environment that has
                    # been used before: nothing it remembers may let an ill-typed call through
                    return it.call_function(entry, [env, tok, it.new_list(args)], {}, None, self_av=env)
                return it.call_function(fn, [env, tok, f, it.new_list(args)], {}, None, self_av=env)

            key = f"typing:{param}Type<-{arg}" + ("" if pos == "only" else f":second-parameter-{pos}") + (f":registered-as-{call_name}" if call_name else "")
            try:
                runs = paths(model, body)
            except Unsupported as err:
                report.undecided(rule, fn.qualname, f"{key}: {err}")
                continue
            want = accepts(param, arg)
            if only_valid and not want:
                continue
            bad = None
            for run in runs:
                if run.kind == "raise":
                    isjp = isinstance(run.value, Inst) and any(c.name == "JSONPathError" for c in run.value.cls.mro())
                    if not isjp:
                        bad = f"raises {run.exc_name()} (not a JSONPathError)"
                    elif want:
                        bad = f"is refused with {run.exc_name()}, but RFC 9535 2.4.3 accepts it"
                elif not want:
                    bad = "is accepted, but RFC 9535 2.4.3 refuses it"
            if bad:
                report.fail(rule, fn.qualname, key, f"argument {arg} for a {param}Type parameter {bad}", file=fn.file, line=fn.line, what=key)
            else:
                report.ok(rule, fn.qualname, key, detail={"accepted": want, "paths": len(runs)})
    # arity
    for n_params in (0, 1, 2) if not only_valid else ():
        for n_args in (0, 1, 2, 3):

            def body2(it: Interp, n_params=n_params, n_args=n_args) -> Any:
                env = real_env(it, model)
                f = probe_function(it, model, ["VALUE"] * n_params, "LOGICAL", [])
                register(it, env, "f", f)
                tok = make_token(it, model, "FUNCTION", Const("f"), "ftok")
                args = [make_arg(it, model, env, "literal:int") for _ in range(n_args)]
                return it.call_function(fn, [env, tok, f, it.new_list(args)], {}, None, self_av=env)

            key = f"arity:{n_params}-params<-{n_args}-args"
            try:
                runs = paths(model, body2)
            except Unsupported as err:
                report.undecided(rule_arity, fn.qualname, f"{key}: {err}")
                continue
            want = n_params == n_args
            bad = None
            for run in runs:
                if run.kind == "raise":
                    isjp = isinstance(run.value, Inst) and any(c.name == "JSONPathError" for c in run.value.cls.mro())
                    if not isjp:
                        bad = f"raises {run.exc_name()} (not a JSONPathError)"
                    elif want:
                        bad = f"is refused with {run.exc_name()}"
                elif not want:
                    bad = "is accepted"
            if bad:
                report.fail(rule_arity, fn.qualname, key, f"{n_args} arguments for {n_params} parameters {bad}", file=fn.file, line=fn.line, what=key)
            else:
                report.ok(rule_arity, fn.qualname, key)
    report.touched(fn.qualname)


# --------------------------------------------------------- position typing
OPERANDS = ["literal", "singular-query", "non-singular-query", "call->VALUE", "call->LOGICAL", "call->NODES"]


def operand_tokens(it: Interp, model: Model, kind: str, q: Any, n: int) -> List[Inst]:
    T = lambda t, v, l: make_token(it, model, t, Const(v), f"{l}{n}", q)  # noqa: E731
    if kind == "literal":
        return [T("INT", "1", "int")]
    if kind == "singular-query":
        return [T("CURRENT", "@", "cur"), T("PROPERTY", "a", "prop")]
    if kind == "non-singular-query":
        return [T("CURRENT", "@", "cur"), T("WILD", "*", "wild")]
    ret = kind.split("->")[1]
    fname = NAME_OVERRIDE[0] if NAME_OVERRIDE and NAME_OVERRIDE[1] == ret else f"f_{ret.lower()}"
    return [T("FUNCTION", fname, "func"), T("RPAREN", ")", "rp")]


# (name, result type): the zero-parameter probe of that result type is registered under `name`, replacing
# whatever the environment registered there (C05 quantifies over arbitrary registries)
NAME_OVERRIDE: Optional[Tuple[str, str]] = None


def testable(kind: str) -> bool:
    return kind in ("singular-query", "non-singular-query", "call->LOGICAL", "call->NODES")


def comparable(kind: str) -> bool:
    return kind in ("literal", "singular-query", "call->VALUE")


def parse_filter(model: Model, shape_tokens, limit: int = 4000) -> List[Any]:
    pci = model.cls("parse.Parser")
    fn = pci.find_method("parse_filter_selector")
    if fn is None:
        raise AnalysisError("anchor vanished: Parser.parse_filter_selector")

    def body(it: Interp) -> Any:
        env = real_env(it, model)
        for ret in TYPES:
            register(it, env, f"f_{ret.lower()}", probe_function(it, model, [], ret, []))
        if NAME_OVERRIDE:
            register(it, env, NAME_OVERRIDE[0], probe_function(it, model, [], NAME_OVERRIDE[1], []))
        parser = env.attrs["parser"]
        q = it.new_str("query")
        toks = [make_token(it, model, "FILTER", Const("?"), "filter", q)] + shape_tokens(it, q)
        toks += [make_token(it, model, "RBRACKET", Const("]"), "rb", q), make_token(it, model, "EOF", Const(""), "eof", q)]
        st = make_stream(it, model, toks)
        return it.call_function(fn, [parser, st], {}, None, self_av=parser)

    return paths(model, body, limit)


def judge_parse(report: Report, rule: str, site: Any, key: str, runs: List[Any], want: bool, text: str, why: str) -> None:
    bad = None
    for run in runs:
        if run.kind == "raise":
            isjp = isinstance(run.value, Inst) and any(c.name == "JSONPathError" for c in run.value.cls.mro())
            if not isjp:
                bad = f"makes the parser raise {run.exc_name()} (not a JSONPathError)"
            elif want:
                bad = f"is refused with {run.exc_name()} although it is {why}"
        elif not want:
            bad = f"is accepted although it is {why}"
    if bad:
        report.fail(rule, site.qualname, key, f"filter '{text}' {bad}", file=site.file, line=site.line, what=key)
    else:
        report.ok(rule, site.qualname, key, detail={"valid": want, "text": text})


TEXT = {"literal": "1", "singular-query": "@.a", "non-singular-query": "@.*", "call->VALUE": "fv()", "call->LOGICAL": "fl()", "call->NODES": "fn()"}


def check_positions(model: Model, report: Report, rule: str) -> None:
    pci = model.cls("parse.Parser")
    site = pci.find_method("parse_filter_selector")
    T = lambda it, q, t, v, l: make_token(it, model, t, Const(v), l, q)  # noqa: E731
    # top-level test
    for k in OPERANDS:
        runs = _try(report, rule, site, f"position:test:{k}", lambda: parse_filter(model, lambda it, q, k=k: operand_tokens(it, model, k, q, 0)))
        if runs is not None:
            judge_parse(report, rule, site, f"position:test:{k}", runs, testable(k), f"?{TEXT[k]}", "well-typed as a test" if testable(k) else "not usable as a test (literal / ValueType result must be compared)")
    # negated test
    for k in OPERANDS:
        runs = _try(report, rule, site, f"position:not:{k}", lambda: parse_filter(model, lambda it, q, k=k: [T(it, q, "NOT", "!", "not")] + operand_tokens(it, model, k, q, 0)))
        if runs is not None:
            judge_parse(report, rule, site, f"position:not:{k}", runs, testable(k), f"?!{TEXT[k]}", "well-typed as a negated test" if testable(k) else "not usable as a test under '!'")
    # logical operands
    for opname, optok, optext in (("and", "AND", "&&"), ("or", "OR", "||")):
        for side in ("left", "right"):
            for k in OPERANDS:

                def toks(it: Interp, q: Any, k=k, side=side, optok=optok, optext=optext) -> List[Inst]:
                    other = operand_tokens(it, model, "singular-query", q, 1)
                    mine = operand_tokens(it, model, k, q, 0)
                    op = [T(it, q, optok, optext, "op")]
                    return (mine + op + other) if side == "left" else (other + op + mine)

                key = f"position:{opname}-{side}:{k}"
                runs = _try(report, rule, site, key, lambda: parse_filter(model, toks))
                if runs is not None:
                    txt = f"?{TEXT[k]} {optext} @.b" if side == "left" else f"?@.b {optext} {TEXT[k]}"
                    judge_parse(report, rule, site, key, runs, testable(k), txt, f"well-typed ({side} operand of {optext} is a test)" if testable(k) else f"ill-typed: {side} operand of {optext} must be a test")
    # comparison operands
    for side in ("left", "right"):
        for k in OPERANDS:

            def toks2(it: Interp, q: Any, k=k, side=side) -> List[Inst]:
                other = operand_tokens(it, model, "literal", q, 1)
                mine = operand_tokens(it, model, k, q, 0)
                op = [T(it, q, "EQ", "==", "op")]
                return (mine + op + other) if side == "left" else (other + op + mine)

            key = f"position:compare-{side}:{k}"
            runs = _try(report, rule, site, key, lambda: parse_filter(model, toks2))
            if runs is not None:
                txt = f"?{TEXT[k]} == 1" if side == "left" else f"?1 == {TEXT[k]}"
                judge_parse(report, rule, site, key, runs, comparable(k), txt, "a comparison of comparables" if comparable(k) else "ill-typed: comparands must be literals, singular queries or ValueType results")
    # the same positions when the called function has replaced a standard function of another result type
    global NAME_OVERRIDE
    std_names: List[str] = []
    for run in paths(model, lambda it: real_env(it, model).attrs["function_extensions"]):
        if run.kind != "raise":
            std_names = sorted(str(k.value) for k in run.value.keys_av.values() if isinstance(k, Const))
    for nm in std_names:
        for ret in TYPES:
            k = f"call->{ret}"
            NAME_OVERRIDE = (nm, ret)
            try:
                key = f"position:test:{k}:registered-as-{nm}"
                runs = _try(report, rule, site, key, lambda: parse_filter(model, lambda it, q, k=k: operand_tokens(it, model, k, q, 0)))
                if runs is not None:
                    judge_parse(report, rule, site, key, runs, testable(k), f"?{nm}()", "well-typed as a test" if testable(k) else "not usable as a test (ValueType result must be compared)")

                def toks2b(it: Interp, q: Any, k=k) -> List[Inst]:
                    return operand_tokens(it, model, k, q, 0) + [T(it, q, "EQ", "==", "op")] + operand_tokens(it, model, "literal", q, 1)

                key = f"position:compare-left:{k}:registered-as-{nm}"
                runs = _try(report, rule, site, key, lambda: parse_filter(model, toks2b))
                if runs is not None:
                    judge_parse(report, rule, site, key, runs, comparable(k), f"?{nm}() == 1", "a comparison of comparables" if comparable(k) else "ill-typed: only ValueType results are compared")
            finally:
                NAME_OVERRIDE = None

    # unknown function name
    def toks3(it: Interp, q: Any) -> List[Inst]:
        return [T(it, q, "FUNCTION", "nosuch", "func"), T(it, q, "RPAREN", ")", "rp")]

    runs = _try(report, "R05.4", site, "unknown-function", lambda: parse_filter(model, toks3))
    if runs is not None:
        bad = None
        for run in runs:
            if run.kind != "raise":
                bad = "is accepted"
            elif not (isinstance(run.value, Inst) and any(c.name == "JSONPathError" for c in run.value.cls.mro())):
                bad = f"raises {run.exc_name()}, not a JSONPathError"
        if bad:
            report.fail("R05.4", site.qualname, "unknown-function", f"a call of an unregistered function {bad}", file=site.file, line=site.line)
        else:
            report.ok("R05.4", site.qualname, "unknown function name raises a JSONPathError at compile time", detail={"error": sorted({r.exc_name() for r in runs})})
    report.touched(site.qualname, "parse.Parser.parse_filter_expression", "parse.Parser.parse_infix_expression", "parse.Parser.parse_function_extension")


def check_parenthesised_arguments(model: Model, report: Report, rule: str) -> None:
    """A parenthesised expression as a function argument is a logical-expr (LogicalType): `(@.a)` may only be passed to a
    LogicalType parameter, and `(1)` / `(f())` with f returning ValueType are not logical expressions at all (RFC 9535
    2.4.3 and the ABNF of function-argument / paren-expr).  Parentheses leave no trace in the expression tree, so this is
    decided on token shapes: `h( ( <inner> ) )` with h declared to take one parameter of each type."""
    pci = model.cls("parse.Parser")
    site = pci.find_method("parse_function_extension") or pci.find_method("parse_filter_selector")
    INNER = {"singular-query": "@.a", "non-singular-query": "@.*", "literal": "1", "call->VALUE": "fv()", "call->NODES": "fn()", "call->LOGICAL": "fl()"}
    for ptype in TYPES:
        for inner, text in INNER.items():

            def shape(it: Interp, q: Any, inner=inner) -> List[Inst]:
                T = lambda t, v, l: make_token(it, model, t, Const(v), l, q)  # noqa: E731
                return [T("FUNCTION", "h", "h"), T("LPAREN", "(", "lp")] + operand_tokens(it, model, inner, q, 0) + [T("RPAREN", ")", "rp1"), T("RPAREN", ")", "rp2")]

            def run() -> List[Any]:
                fn = pci.find_method("parse_filter_selector")

                def body(it: Interp) -> Any:
                    env = real_env(it, model)
                    for ret in TYPES:
                        register(it, env, f"f_{ret.lower()}", probe_function(it, model, [], ret, []))
                    register(it, env, "h", probe_function(it, model, [ptype], "LOGICAL", []))
                    parser = env.attrs["parser"]
                    q = it.new_str("query")
                    toks = [make_token(it, model, "FILTER", Const("?"), "filter", q)] + shape(it, q)
                    toks += [make_token(it, model, "RBRACKET", Const("]"), "rb", q), make_token(it, model, "EOF", Const(""), "eof", q)]
                    st = make_stream(it, model, toks)
                    return it.call_function(fn, [parser, st], {}, None, self_av=parser)

                return paths(model, body, 4000)

            key = f"paren-argument:{ptype}Type<-({inner})"
            runs = _try(report, rule, site, key, run)
            if runs is None:
                continue
            logical_expr = inner in ("singular-query", "non-singular-query", "call->NODES", "call->LOGICAL")
            want = logical_expr and ptype == "LOGICAL"
            why = (
                "a parenthesised test expression passed to a LogicalType parameter" if want
                else ("ill-typed: a parenthesised expression is a logical-expr (LogicalType), not a " + ("value" if ptype == "VALUE" else "query") if logical_expr
                      else "not derivable: a literal / ValueType result in parentheses is not a logical expression")
            )
            judge_parse(report, rule, site, key, runs, want, f"?h(({text}))  [h takes one {ptype}Type parameter]", why)


def _try(report: Report, rule: str, site: Any, key: str, f: Any) -> Optional[List[Any]]:
    try:
        return f()
    except Unsupported as err:
        report.undecided(rule, site.qualname, f"{key}: {err}")
        return None


# ------------------------------------------------------------ singular query
def check_singular(model: Model, report: Report, rule: str, only: Any = None) -> None:
    qci = model.cls("query.JSONPathQuery")
    fn = qci.find_method("singular_query")
    if fn is None:
        raise AnalysisError("anchor vanished: JSONPathQuery.singular_query")
    SEL = {"name": "NameSelector", "index": "IndexSelector", "slice": "SliceSelector", "wild": "WildcardSelector", "filter": "FilterSelector"}
    shapes: List[Tuple[str, List[Tuple[str, List[str]]], bool]] = [("$", [], True)]
    for s, ok in (("name", True), ("index", True), ("slice", False), ("wild", False), ("filter", False)):
        shapes.append((f"$[{s}]", [("child", [s])], ok))
        shapes.append((f"$..[{s}]", [("desc", [s])], False))
        shapes.append((f"$[name][{s}]", [("child", ["name"]), ("child", [s])], ok))
        shapes.append((f"$[{s}][index]", [("child", [s]), ("child", ["index"])], ok))
    shapes.append(("$[name,name]", [("child", ["name", "name"])], False))
    shapes.append(("$[name,index]", [("child", ["name", "index"])], False))
    shapes.append(("$[name]..[name]", [("child", ["name"]), ("desc", ["name"])], False))
    shapes.append(("$[]", [("child", [])], False))
    for text, segs, want in shapes:
        if only is not None and want is not only:
            continue

        def body(it: Interp, segs=segs) -> Any:
            env = it.harness_inst(model.cls("environment.JSONPathEnvironment"), "env")
            tok = it.new_opaque("tok")
            seg_insts = []
            for kind, sels in segs:
                sel_insts = []
                for s in sels:
                    x = it.harness_inst(model.cls("selectors." + SEL[s]), s)
                    x.attrs.update({"env": env, "token": tok})
                    if s == "index":
                        x.attrs["index"] = it.new_int("index")
                    elif s == "name":
                        x.attrs["name"] = it.new_str("name")
                    sel_insts.append(x)
                seg = it.harness_inst(model.cls("segments." + ("JSONPathChildSegment" if kind == "child" else "JSONPathRecursiveDescentSegment")), kind)
                seg.attrs.update({"env": env, "token": tok, "selectors": PyTuple(sel_insts)})
                seg_insts.append(seg)
            q = it.harness_inst(qci, "q")
            q.attrs.update({"env": env, "segments": PyTuple(seg_insts)})
            return it.call_function(fn, [q], {}, None, self_av=q)

        key = f"singular:{text}"
        try:
            runs = paths(model, body)
        except Unsupported as err:
            report.undecided(rule, fn.qualname, f"{key}: {err}")
            continue
        bad = None
        for run in runs:
            if run.kind == "raise":
                bad = f"raises {run.exc_name()}"
            elif not (isinstance(run.value, Const) and run.value.value is want):
                bad = f"returns {describe(run.value)!r}"
        if bad:
            report.fail(rule, fn.qualname, key, f"singular_query() of {text} {bad}, expected {want}", file=fn.file, line=fn.line)
        else:
            report.ok(rule, fn.qualname, key)
    report.touched(fn.qualname)


# -------------------------------------------------------------- integer range
def check_range(model: Model, report: Report, rule: str) -> None:
    # defaults
    def body0(it: Interp) -> Any:
        env = real_env(it, model)
        return it.getattr(env, "min_int_index"), it.getattr(env, "max_int_index")

    r0 = paths(model, body0)
    if len(r0) == 1 and r0[0].kind == "return":
        lo, hi = r0[0].value
        if isinstance(lo, Const) and isinstance(hi, Const) and lo.value == -(2**53) + 1 and hi.value == 2**53 - 1:
            report.ok(rule, "environment.JSONPathEnvironment", "default bounds are +/-(2^53 - 1)")
        else:
            report.fail(rule, "environment.JSONPathEnvironment", "default-bounds", f"default bounds are [{describe(lo)}, {describe(hi)}], expected +/-(2^53 - 1)")
    regions = ["below-min", "at-min", "inside", "at-max", "above-max"]

    def constrain(it: Interp, v: IntV, lo: IntV, hi: IntV, region: str) -> None:
        c = it.ctx
        if region == "below-min":
            c.assume_le0(v.lin - lo.lin + Lin.k(1))
        elif region == "at-min":
            c.assume_le0(v.lin - lo.lin)
            c.assume_le0(lo.lin - v.lin)
        elif region == "inside":
            c.assume_le0(lo.lin - v.lin + Lin.k(1))
            c.assume_le0(v.lin - hi.lin + Lin.k(1))
        elif region == "at-max":
            c.assume_le0(v.lin - hi.lin)
            c.assume_le0(hi.lin - v.lin)
        else:
            c.assume_le0(hi.lin - v.lin + Lin.k(1))

    def mkenv(it: Interp) -> Tuple[Inst, IntV, IntV]:
        env = it.harness_inst(model.cls("environment.JSONPathEnvironment"), "env")
        lo = it.new_int("min_int_index")
        hi = it.new_int("max_int_index")
        it.ctx.assume_le0(lo.lin - hi.lin + Lin.k(2))  # a non-degenerate configured range
        env.attrs.update({"min_int_index": lo, "max_int_index": hi})
        return env, lo, hi

    ici = model.cls("selectors.IndexSelector")
    sci = model.cls("selectors.SliceSelector")
    cases: List[Tuple[str, str, Any]] = []
    for region in regions:
        cases.append((f"index:{region}", region, ("index", None)))
    for comp in ("start", "stop", "step"):
        for region in regions:
            cases.append((f"slice.{comp}:{region}", region, ("slice", comp)))
    cases.append(("slice:all-omitted", "inside", ("slice", None)))
    for key, region, (which, comp) in cases:

        def body(it: Interp, region=region, which=which, comp=comp) -> Any:
            env, lo, hi = mkenv(it)
            tok = make_token(it, model, "INDEX", label="tok")
            if which == "index":
                v = it.new_int("index")
                constrain(it, v, lo, hi, region)
                r = it.instantiate(ici, [], {"env": env, "token": tok, "index": v}, None)
                return r, v
            kw: Dict[str, Any] = {"env": env, "token": tok}
            v = None
            for c in ("start", "stop", "step"):
                if comp is None:
                    kw[c] = Const(None)
                elif c == comp:
                    v = it.new_int(c)
                    constrain(it, v, lo, hi, region)
                    kw[c] = v
                else:
                    o = it.new_int(c)
                    constrain(it, o, lo, hi, "inside")
                    kw[c] = o
            return it.instantiate(sci, [], kw, None), v

        want_ok = region in ("at-min", "inside", "at-max")
        site = ("selectors.IndexSelector.__init__" if which == "index" else "selectors.SliceSelector.__init__")
        try:
            runs = paths(model, body)
        except Unsupported as err:
            report.undecided(rule, site, f"range:{key}: {err}")
            continue
        bad = None
        for run in runs:
            if run.kind == "raise":
                isjp = isinstance(run.value, Inst) and any(c.name == "JSONPathError" for c in run.value.cls.mro())
                if not isjp:
                    bad = f"raises {run.exc_name()} (not a JSONPathError)"
                elif want_ok:
                    bad = f"is refused with {run.exc_name()} although it lies within [min_int_index, max_int_index]"
            else:
                if not want_ok:
                    bad = "is accepted although it lies outside [min_int_index, max_int_index]"
                elif which == "index":
                    r, v = run.value
                    got = r.attrs.get("index")
                    if not (isinstance(got, IntV) and got.lin == v.lin):
                        bad = f"is stored as {describe(got)!r}"
        fi = model.functions.get(site)
        if bad:
            report.fail(rule, site, f"range:{key}", f"integer {key} {bad}", file=fi.file if fi else "", line=fi.line if fi else 0)
        else:
            report.ok(rule, site, f"range:{key}", detail={"paths": len(runs)})
    report.touched("selectors.IndexSelector.__init__", "selectors.SliceSelector.__init__", "selectors.SliceSelector._check_range")


def check_registry_owned(model: Model, report: Report, rule: str) -> bool:
    """The registry the type checks consult belongs to the environment: it is an object the constructor creates for
    this instance.  A class-level or module-level dict is shared by every environment (and filled by each one's
    setup), so which queries one environment accepts would depend on what was registered through another."""
    eci = model.cls("environment.JSONPathEnvironment")
    cell = "registry:created-per-environment"

    def body(it: Interp) -> Any:
        n0 = it.ctx.new_id()
        ci = eci
        env = it.instantiate(ci, [], {}, None)
        return env, it, n0

    ok = True
    for run in paths(model, body):
        if run.kind == "raise":
            report.fail(rule, eci.qualname, cell, f"constructing an environment raises {run.exc_name()}", file=eci.module.relpath, line=eci.node.lineno)
            return False
        env, it, n0 = run.value
        reg = env.attrs.get("function_extensions")
        prob = None
        if reg is None:
            shared = it.host.class_attr(eci, "function_extensions", None, None)
            prob = "function_extensions is not an attribute the constructor sets on the instance" + (": the registry is the class-level object shared by every environment" if shared is not None else "")
        elif not isinstance(reg, PyDict):
            prob = f"function_extensions is {describe(reg)!r}, not a dict created by the constructor"
        elif any(v is reg for v in it.class_attr_cache.values()) or any(v is reg for v in it.global_cache.values()):
            prob = "function_extensions is bound to a class-level / module-level dict: the registry is shared by every environment"
        if prob:
            ok = False
            report.fail(rule, eci.qualname, cell, prob + "; a function registered, replaced or removed through one environment changes which queries another accepts", file=eci.module.relpath, line=eci.node.lineno, what=cell)
            break
    if ok:
        report.ok(rule, eci.qualname, cell)
    return ok


def check(model: Model, report: Report) -> None:
    report.rule("R05.0", "the function registry consulted by the type checks is a dict the constructor creates for this environment (not a class-level or module-level object shared between environments)")
    if not check_registry_owned(model, report, "R05.0"):
        report.not_decided += ["R05.1-R05.8 skipped: they are stated over an environment's own registry"]
        return
    report.rule("R05.1", "well-typedness table: parameter type x argument class (RFC 9535 2.4.3), for arbitrary registered signatures (probe functions)")
    report.rule("R05.2", "argument count must equal parameter count")
    report.rule("R05.3", "position typing through the interpreted parser: test positions (top, under !, beside && / ||) and comparison operands x operand class")
    report.rule("R05.4", "unknown function name raises a JSONPathError at compile time")
    report.rule("R05.5", "singular_query() table over segment/selector shapes")
    report.rule("R05.7", "exhaustive token grid with typed atoms (queries, literals, zero-argument calls of each result type): every sequence up to 3 (quick) / 4-5 (thorough) tokens is accepted iff it is grammatical and well-typed")
    report.rule("R05.6", "index and slice integers are checked against the environment's configured bounds (symbolic bounds, five regions each)")
    report.assumptions += ["A4: user function objects declare their types truthfully"]
    report.not_decided += ["nesting depth > 1 of calls/parentheses beyond the operand classes enumerated"]
    check_typing_table(model, report, "R05.1", "R05.2")
    check_positions(model, report, "R05.3")
    check_singular(model, report, "R05.5")
    report.rule("R05.L3", "every index / slice lexeme the RFC allows is accepted at each of the four consumption sites (whatever the configured bounds make of its value afterwards): C03's rule L3, refuses-too-much direction")
    from . import _lexrules

    _lexrules.lexical_layer(model, report, "b-only", "R05", only=("L3",))
    report.rule("R05.L12", "a call of a registered function is recognised as a call whatever its (RFC) name: C03's rule L12")
    from . import _lexstates

    _lexstates.check_function_dispatch(model, report, "R05.L12")
    report.rule("R05.8", "a parenthesised argument is a LogicalType expression: accepted only for LogicalType parameters and only if it is a test expression; a parenthesised literal or ValueType call is refused for every parameter type")
    check_parenthesised_arguments(model, report, "R05.8")
    check_range(model, report, "R05.6")
    from . import _tokgrid

    _tokgrid.check_grid(model, report, "R05.7", want_valid=True)
    _tokgrid.check_grid(model, report, "R05.7", want_valid=False)
    report.extra["explanation"] = "C05: check_well_typedness interpreted on 3 parameter types x 16 argument classes with probe signatures; parser interpreted on token shapes for each position x operand class; bounds decided with symbolic min/max."
