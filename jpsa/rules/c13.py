"""C13 — totality: compile() and find() return or raise a JSONPathError.

R13.1 is a class-discipline rule over every raise statement.  R13.2 re-runs the abstract
interpretation cells of the other properties (token shapes, lexeme sites with symbolic lexemes,
lexer state iterations, string decoding, selector/segment traces over every kind of value,
expression evaluators, function conversions and bodies, match/search over all argument kinds,
node rendering) with a monitor that records every exception that is NOT a JSONPathError and
escapes the interpreted entry point on some path.  Host operations raise per assumption A1
(subscripts, conversions, len, <, regex engine, table lookups, next, chr, unpacking ...).
"""

from __future__ import annotations

import ast
from typing import Any
from typing import Dict
from typing import List

from .. import harness
from ..absctx import Unsupported
from ..absint import Interp
from ..absval import *  # noqa: F403
from ..harness import make_token
from ..harness import paths
from ..model import AnalysisError
from ..model import Model
from ..model import walk_own
from ..protocol import Report


def _is_error_expr(model: Model, fi: Any, e: ast.expr, base: Any, seen: set) -> bool:
    if isinstance(e, ast.IfExp):
        return _is_error_expr(model, fi, e.body, base, seen) and _is_error_expr(model, fi, e.orelse, base, seen)
    if isinstance(e, ast.Call):
        r = model.resolve_expr_static(fi.module, e.func)
        if r and r[0] == "class":
            return r[1].is_subclass_of(base)
        if r and r[0] == "func":
            return _returns_only_errors(model, r[1], base, seen)
    if isinstance(e, ast.Name):
        return _local_is_error(model, fi, e.id, base, seen)
    return False


def _returns_only_errors(model: Model, fn: Any, base: Any, seen: set) -> bool:
    """Every return of the helper hands back a newly built JSONPathError (subclass) instance."""
    if fn.qualname in seen or fn.is_generator:
        return False
    seen = seen | {fn.qualname}
    rets = [n for n in walk_own(fn.node) if isinstance(n, ast.Return)]
    return bool(rets) and all(r.value is not None and _is_error_expr(model, fn, r.value, base, seen) for r in rets)


def _local_is_error(model: Model, fi: Any, name: str, base: Any, seen: Any = None) -> bool:
    vals = []
    for n in walk_own(fi.node):
        if isinstance(n, ast.Assign) and any(isinstance(t, ast.Name) and t.id == name for t in n.targets):
            vals.append(n.value)
        elif isinstance(n, ast.AnnAssign) and isinstance(n.target, ast.Name) and n.target.id == name and n.value is not None:
            vals.append(n.value)
    return bool(vals) and all(_is_error_expr(model, fi, v, base, seen or set()) for v in vals)


def check_raise_classes(model: Model, report: Report, rule: str) -> None:
    base = model.cls("exceptions.JSONPathError")
    n = 0
    for fi in model.functions.values():
        short = fi.module.short
        if short in ("cli", "__main__") or short.startswith("utils."):
            continue
        handlers_names = {h.name for t in walk_own(fi.node) if isinstance(t, ast.Try) for h in t.handlers if h.name}
        for node in walk_own(fi.node):
            if isinstance(node, ast.Assert):
                n += 1
                report.ok(rule, fi.qualname, f"assert {ast.unparse(node.test)[:50]} (discharged by the interpreted token shapes: R13.2)", nontrivial=False)
            if not isinstance(node, ast.Raise):
                continue
            n += 1
            if node.exc is None:
                report.ok(rule, fi.qualname, "re-raise", nontrivial=False)
                continue
            target = node.exc.func if isinstance(node.exc, ast.Call) else node.exc
            if isinstance(target, ast.Name) and target.id in handlers_names:
                report.ok(rule, fi.qualname, f"raise {target.id} (caught exception)", nontrivial=False)
                continue
            r = model.resolve_expr_static(fi.module, target)
            text = ast.unparse(target)
            if r and r[0] == "class" and r[1].is_subclass_of(base):
                report.ok(rule, fi.qualname, f"raise {r[1].name}")
            elif r and r[0] == "func" and isinstance(node.exc, ast.Call) and _returns_only_errors(model, r[1], base, set()):
                report.ok(rule, fi.qualname, f"raise {text}(...) (a factory whose every return is a JSONPathError)")
            elif isinstance(target, ast.Name) and _local_is_error(model, fi, target.id, base):
                report.ok(rule, fi.qualname, f"raise {text} (a local bound to a JSONPathError)")
            elif text == "StopIteration" and fi.name == "__next__":
                report.ok(rule, fi.qualname, "raise StopIteration in an iterator's __next__", nontrivial=False)
            elif _caught_locally(fi, node, text):
                report.ok(rule, fi.qualname, f"raise {text} inside a try block of the same function whose handler catches it (what the handler raises is judged on its own)", nontrivial=False)
            else:
                report.fail(rule, fi.qualname, f"raise:{text}", f"raises {text}, which is not a JSONPathError subclass", file=fi.file, line=node.lineno)
    if n < 30:
        raise AnalysisError(f"only {n} raise/assert statements found")


def _caught_locally(fi: Any, node: ast.Raise, text: str) -> bool:
    """The raise sits in the body (not a handler, else or finally part) of a `try` statement of the same function one of
    whose handlers names the raised builtin class or one of its bases: it cannot leave the function as it is."""
    from ..absval import BUILTIN_EXC_BASES

    chain = []
    cur: Any = text
    while cur in BUILTIN_EXC_BASES and cur is not None:
        chain.append(cur)
        cur = BUILTIN_EXC_BASES[cur]
    if not chain:
        return False
    for t in walk_own(fi.node):
        if not isinstance(t, ast.Try):
            continue
        if not any(n is node for st in t.body for n in ast.walk(st)):
            continue
        for h in t.handlers:
            if h.type is None:
                return True
            names = [ast.unparse(x) for x in (h.type.elts if isinstance(h.type, ast.Tuple) else [h.type])]
            if any(nm in chain for nm in names):
                return True
    return False


class _Null(Report):
    """A report that swallows verdicts: C13 only wants the cells to be explored."""

    def __init__(self) -> None:
        super().__init__(prop="C13-cells", tier="quick")


def explore_cells(model: Model, tier: str) -> Dict[str, int]:
    from . import _filtersel, _lexrules, _lexstates, _segrules, _selrules, _shapes, _strings, c02, c05, c06, c08, c10, c11, c01, c07, c15, c19

    null = _Null()
    null.tier = tier
    counts: Dict[str, int] = {}

    def section(name: str, f: Any) -> None:
        before = len(harness.MONITOR or [])
        try:
            f()
        except Unsupported as err:
            raise AnalysisError(f"cells of {name} cannot be explored: {err}") from err
        counts[name] = len(harness.MONITOR or []) - before

    # compile side
    section("token-shapes-valid", lambda: _shapes.check_shapes(model, null, "x", True))
    section("token-shapes-invalid", lambda: _shapes.check_shapes(model, null, "x", False))
    section("position-typing", lambda: c05.check_positions(model, null, "x"))
    section("typing-table", lambda: c05.check_typing_table(model, null, "x", "x"))
    section("bounds", lambda: c05.check_range(model, null, "x"))
    section("slice-shapes", lambda: c07.check_parse_slice(model, null, "x"))
    section("lexeme-sites", lambda: lexeme_sites(model))
    section("lexer-states", lambda: lexer_states(model))
    section("tokenize", lambda: tokenize_cells(model))
    section("string-decoding", lambda: _strings.extract_decoder(model))
    section("string-lexing", lambda: [_strings.analyse_lex_string(model, q, c) for q in ("'", '"') for c in ("bracket", "filter")])
    section("error-rendering", lambda: (c19.check_position(model, null, "x"), c19.check_str(model, null, "x")))
    # evaluation side
    for nondet in (False, True):
        section(f"wildcard-{nondet}", lambda: _selrules.check_wildcard(model, null, "x", nondet=nondet))
        section(f"filter-selector-{nondet}", lambda: _filtersel.check_filter_selector(model, null, "x", nondet=nondet))
    section("name", lambda: _selrules.check_name(model, null, "x"))
    section("index", lambda: _selrules.check_index(model, null, "x"))
    section("slice", lambda: _selrules.check_slice(model, null, "x"))
    section("segments", lambda: (_segrules.check_child_segment(model, null, "x"), _segrules.check_descendant_nesting(model, null, "x")))
    section("visit", lambda: _segrules.check_visit(model, null, "x", "x"))
    section("nondet-visit", lambda: (_segrules.check_nondet_visit(model, null, "x", "x", "x"), _segrules.check_nondet_children(model, null, "x")))
    section("query", lambda: (c01.check_finditer(model, null, "x"), c01.check_new_child(model, null, "x"), c15.check_query_methods(model, null, "x")))
    section("comparison", lambda: c06.check(model, null))
    section("truthiness-logic", lambda: (c02.check_truthiness(model, null, "x"), c02.check_logic(model, null, "x"), c02.check_scoping(model, null, "x")))
    section("conversions", lambda: (c10.check_conversions(model, null, "x"), c10.check_bodies(model, null, "x")))
    section("match-search", lambda: (c11.check_functions(model, null), c11.check_map_re(model, null)))
    section("node-rendering", lambda: (c08.check_path_template(model, null, "x"), c08.check_projections(model, null, "x")))
    section("builtin-calls-end-to-end", lambda: builtin_calls(model))
    section("token-grid", lambda: grid_crashes(model, tier))
    return counts


def lexeme_sites(model: Model) -> None:
    """Symbolic lexemes at every consumption site.  A raising path counts only if some lexeme of the
    token's regular language actually takes it (LEX fact: e.g. L(RE_INDEX) is inside the domain of int())."""
    from . import _lexrules

    pats = _lexrules.lexer_patterns(model)
    tokre = _lexrules.token_regexes(model)
    saved = harness.MONITOR
    harness.MONITOR = None
    try:
        sites = []
        for pos in ("selector", "start", "stop", "step"):
            sites.append((f"index:{pos}", _lexrules.site_language(model, tokre.get("INDEX") or [], pats, _lexrules.index_site(model, pos), include_magnitude=True)))
        sites.append(("INT", _lexrules.site_language(model, tokre.get("INT") or [], pats, _lexrules.literal_site(model, "INT"), include_magnitude=True)))
        sites.append(("FLOAT", _lexrules.site_language(model, tokre.get("FLOAT") or [], pats, _lexrules.literal_site(model, "FLOAT"), include_magnitude=True)))
    finally:
        harness.MONITOR = saved
    for name, sl in sites:
        if sl.undecided:
            raise AnalysisError(f"lexeme site {name}: {sl.undecided}")
        for c in sorted(set(sl.crashes)):
            if harness.MONITOR is not None:
                harness.MONITOR.append({"exc": c.split(" ")[0], "msg": c, "site": ("jsonpath_rfc9535/parse.py", 0, f"lexeme-site:{name}"), "entry": [f"lexeme-site:{name}"], "world": {}})


def builtin_calls(model: Model) -> None:
    """count(@) / value(@) / length(@) / match(@, 'x') / search(@, 'x') evaluated through the real registry and the real
    embedded-query evaluation, for a child of every kind (composition of the pieces checked separately)."""
    from ..harness import real_env
    from ._sel import KINDS

    FE = "filter_expressions."
    for fname, nargs in (("count", 1), ("value", 1), ("length", 1), ("match", 2), ("search", 2), ("unregistered_after_compile", 1)):
        for kind in KINDS:

            def body(it: Interp, fname=fname, nargs=nargs, kind=kind) -> Any:
                env = real_env(it, model)
                tok = it.new_opaque("tok")
                q = it.harness_inst(model.cls("query.JSONPathQuery"), "q")
                q.attrs.update({"env": env, "segments": PyTuple(())})
                rel = it.harness_inst(model.cls(FE + "RelativeFilterQuery"), "@")
                rel.attrs.update({"token": tok, "query": q})
                args = [rel]
                if nargs == 2:
                    lit = it.harness_inst(model.cls(FE + "StringLiteral"), "lit")
                    lit.attrs.update({"token": tok, "value": it.new_sym("pattern", ["str"])})
                    args.append(lit)
                call = it.harness_inst(model.cls(FE + "FunctionExtension"), "call")
                call.attrs.update({"token": tok, "name": Const(fname), "args": it.new_list(args)})
                c = it.harness_inst(model.cls(FE + "FilterContext"), "context")
                c.attrs.update({"env": env, "current": it.new_sym("current", [kind]), "root": it.new_sym("root")})
                return it.call_function(call.cls.find_method("evaluate"), [call, c], {}, None, self_av=call)

            paths(model, body)


def grid_crashes(model: Model, tier: str) -> None:
    """Every short token sequence: the parser may accept or refuse, but only with a JSONPathError."""
    from . import _tokgrid

    mf, ms, mt = (5, 5, 4) if tier == "thorough" else (4, 4, 3)
    for entry, seq, verdict, detail in _tokgrid.run_grid(mf, ms, mt):
        if verdict.startswith("crash") and harness.MONITOR is not None:
            text = " ".join(seq)
            harness.MONITOR.append({"exc": verdict[6:], "msg": f"token sequence {entry}: {text}", "site": ("jsonpath_rfc9535/parse.py", 0, f"token-grid:{entry}"), "entry": [f"token-grid:{entry}:{text}"], "world": {}})


def lexer_states(model: Model) -> None:
    from . import _lexstates

    for st in ("lex_root", "lex_segment", "lex_descendant_segment", "lex_shorthand_selector"):
        for fd in (0, 1):
            _lexstates.lexer_iteration(model, st, filter_depth=fd)
    for bt in ("[", "(", None):
        for inf in (False, True):
            _lexstates.lexer_iteration(model, "lex_inside_filter", filter_depth=1, bracket_top=bt, in_function=inf)
        _lexstates.lexer_iteration(model, "lex_inside_bracketed_segment", filter_depth=0, bracket_top=bt)


def tokenize_cells(model: Model) -> None:
    lex = model.module("lex")
    fn = lex.functions.get("tokenize")
    run = model.cls("lex.Lexer").find_method("run")
    if fn is None or run is None:
        raise AnalysisError("anchor vanished: lex.tokenize / Lexer.run")
    for last in ("none", "error", "eof"):
        for stack in ("empty", "bracket", "paren"):

            def body(it: Interp, last=last, stack=stack) -> Any:
                q = it.new_str("query")

                def hook(interp: Interp, fi: Any, args: List[Any], kw: Dict[str, Any], node: Any) -> Any:
                    lx = args[0]
                    toks = lx.attrs["tokens"]
                    if last == "error":
                        t = make_token(interp, model, "ERROR", label="err", query=q)
                        t.attrs["message"] = Const("bad")
                        toks.items.append(t)
                    elif last == "eof":
                        toks.items.append(make_token(interp, model, "EOF", Const(""), "eof", q))
                    if stack != "empty":
                        idx = interp.new_int("open-index", 0)
                        interp.ctx.assume_le0(idx.lin - IntV(__import__("jpsa.numeric", fromlist=["Lin"]).Lin.var(q.len_var)).lin + __import__("jpsa.numeric", fromlist=["Lin"]).Lin.k(1))
                        lx.attrs["bracket_stack"].items.append(PyTuple((Const("[" if stack == "bracket" else "("), idx)))
                    return Const(None)

                it.hooks[run.qualname] = hook
                return it.call_function(fn, [q], {}, None)

            paths(model, body)


def report_escapes(model: Model, report: Report, rule: str, what: str) -> Dict[str, int]:
    """Explore every cell with the escape monitor on and report each foreign exception once (shared with C20: whatever
    escapes compile() or evaluation as a non-JSONPathError reaches the CLI as a traceback)."""
    saved = harness.MONITOR
    harness.MONITOR = []
    try:
        counts = explore_cells(model, report.tier)
        found = list(harness.MONITOR)
    finally:
        harness.MONITOR = saved
    seen = set()
    for f in found:
        site = f["site"]
        fnq = site[2] if site else (f["entry"][0] if f["entry"] else "?")
        key = f"escape:{f['exc']}@{fnq}"
        if key in seen:
            continue
        seen.add(key)
        report.fail(
            rule,
            fnq,
            key,
            f"{f['exc']} ({f['msg']}) {what}; raised at {site[0] if site else '?'}:{site[1] if site else 0}; interpreted entry {f['entry']}; assumptions {f['world']}",
            file=site[0] if site else "",
            line=site[1] if site else 0,
        )
    for name, k in counts.items():
        if k == 0:
            report.ok(rule, "<cells>", f"{name}: no foreign exception escapes")
    return counts


def check(model: Model, report: Report) -> None:
    report.rule("R13.1", "every raise statement in compile/evaluation code raises a JSONPathError subclass (or re-raises)")
    report.rule("R13.2", "no exception other than a JSONPathError escapes any interpreted cell: token shapes, symbolic lexemes at every consumption site, every lexer state, string decoding, every selector/segment/visitor on every kind of value, every expression evaluator and conversion, built-in functions over all argument kinds, node rendering")
    report.rule("R13.3", "str(error) and Token.position() cannot raise, with or without a token")
    report.rule("R13.4", "the scan terminates: every step of every lexer state stops, provably consumes at least one character, or belongs to no cycle of zero-progress steps that is consistent about the character at the pointer")
    report.assumptions += ["A1: effect sets of host operations (which exception classes int/float/chr/len/next/subscripts/slice.indices/<,==/regex may raise on which operand kinds)"]
    report.not_decided += [
        "termination of the parser loops and of the string decoder (the token grid and the decoder cells would not converge on a loop that spins, which ends in exit 2, but that is not a proof)",
        "interpreter RecursionError / MemoryError on pathological sizes",
        "index bookkeeping across iterations of scanner loops (each iteration is analysed from an arbitrary in-range position)",
    ]
    check_raise_classes(model, report, "R13.1")
    from . import _lexstates

    _lexstates.check_progress(model, report, "R13.4")
    counts = report_escapes(model, report, "R13.2", "can escape instead of a JSONPathError")
    report.extra["cell_sections"] = counts
    report.extra["explanation"] = "C13: raise-class discipline over the AST + a monitor over all abstract-interpretation cells of the other properties."
