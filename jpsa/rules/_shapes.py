"""Token-type shapes run through the interpreted parser: structural validity at token level.

Each shape is a short sequence of token types with concrete lexemes where the parser inspects
them; the abstract interpreter executes the real parser methods on it (every path) and the rule
compares accept/reject with the RFC 9535 grammar.  Valid shapes serve C03, invalid ones C04.
"""

from __future__ import annotations

from typing import Any
from typing import Callable
from typing import Dict
from typing import List
from typing import Optional
from typing import Tuple

from ..absctx import Unsupported
from ..absint import Interp
from ..absval import *  # noqa: F403
from ..harness import make_stream
from ..harness import make_token
from ..harness import paths
from ..harness import real_env
from ..model import AnalysisError
from ..model import Model
from ..protocol import Report
from .c05 import register
from .c10 import probe_function

# lexemes for token types
LEX = {
    "ROOT": "$", "CURRENT": "@", "LBRACKET": "[", "RBRACKET": "]", "WILD": "*", "COMMA": ",", "COLON": ":",
    "FILTER": "?", "DOUBLE_DOT": "..", "NOT": "!", "LPAREN": "(", "RPAREN": ")", "EQ": "==", "NE": "!=", "LT": "<",
    "AND": "&&", "OR": "||", "TRUE": "true", "NULL": "null", "EOF": "",
}

Q = ["CURRENT", ("PROPERTY", "a")]  # @.a
Q2 = ["CURRENT", ("PROPERTY", "b")]
Q3 = ["CURRENT", ("PROPERTY", "c")]
ONE = [("INT", "1")]
TWO = [("INT", "2")]
S = [("SINGLE_QUOTE_STRING", "x")]


def F(name: str, *args: List[Any]) -> List[Any]:
    out: List[Any] = [("FUNCTION", name)]
    for k, a in enumerate(args):
        if k:
            out.append("COMMA")
        out += a
    out.append("RPAREN")
    return out


# (id, entry point, tokens, valid?, text)
FILTER_SHAPES: List[Tuple[str, List[Any], bool, str]] = [
    ("test", Q, True, "?@.a"),
    ("not-test", ["NOT"] + Q, True, "?!@.a"),
    ("paren-test", ["LPAREN"] + Q + ["RPAREN"], True, "?(@.a)"),
    ("not-paren", ["NOT", "LPAREN"] + Q + ["RPAREN"], True, "?!(@.a)"),
    ("comparison", Q + ["EQ"] + ONE, True, "?@.a == 1"),
    ("paren-comparison", ["LPAREN"] + Q + ["EQ"] + ONE + ["RPAREN"], True, "?(@.a == 1)"),
    ("not-paren-comparison", ["NOT", "LPAREN"] + Q + ["EQ"] + ONE + ["RPAREN"], True, "?!(@.a == 1)"),
    ("and", Q + ["AND"] + Q2, True, "?@.a && @.b"),
    ("or-and", Q + ["OR"] + Q2 + ["AND"] + Q3, True, "?@.a || @.b && @.c"),
    ("paren-or-and", ["LPAREN"] + Q + ["OR"] + Q2 + ["RPAREN", "AND"] + Q3, True, "?(@.a || @.b) && @.c"),
    ("cmp-and-test", Q + ["EQ"] + ONE + ["AND"] + Q2, True, "?@.a == 1 && @.b"),
    ("test-and-cmp", Q2 + ["AND"] + Q + ["EQ"] + ONE, True, "?@.b && @.a == 1"),
    ("literal-cmp-literal", ONE + ["EQ"] + TWO, True, "?1 == 2"),
    ("string-cmp", Q + ["EQ"] + S, True, "?@.a == 'x'"),
    ("value-call-cmp", F("fv1", Q) + ["EQ"] + ONE, True, "?fv1(@.a) == 1"),
    ("logical-call-test", F("fl2", Q, S), True, "?fl2(@.a, 'x')"),
    ("nested-paren", ["LPAREN", "LPAREN"] + Q + ["RPAREN", "RPAREN"], True, "?((@.a))"),
    ("not-in-and", Q + ["AND", "NOT"] + Q2, True, "?@.a && !@.b"),
    # ---- invalid
    ("negated-comparand-left", ["NOT"] + Q + ["EQ"] + ONE, False, "?!@.a == 1"),
    ("negated-comparand-right", Q + ["EQ", "NOT"] + Q2, False, "?@.a == !@.b"),
    ("chained-comparison", ONE + ["EQ"] + ONE + ["EQ"] + TWO, False, "?1 == 1 == 2"),
    ("paren-comparand-left", ["LPAREN"] + Q + ["RPAREN", "EQ"] + ONE, False, "?(@.a) == 1"),
    ("paren-comparand-right", Q + ["EQ", "LPAREN"] + ONE + ["RPAREN"], False, "?@.a == (1)"),
    ("paren-query-comparand-right", Q + ["EQ", "LPAREN"] + Q2 + ["RPAREN"], False, "?@.a == (@.b)"),
    ("double-paren-comparand-right", ONE + ["LT", "LPAREN", "LPAREN"] + Q + ["RPAREN", "RPAREN"], False, "?1 < ((@.a))"),
    ("paren-query-comparand-left", ["LPAREN"] + Q + ["RPAREN", "LT"] + Q2, False, "?(@.a) < @.b"),
    ("logical-comparand", ["LPAREN"] + Q + ["AND"] + Q2 + ["RPAREN", "EQ"] + ONE, False, "?(@.a && @.b) == 1"),
    ("double-not", ["NOT", "NOT"] + Q, False, "?!!@.a"),
    ("double-and", Q + ["AND", "AND"] + Q2, False, "?@.a && && @.b"),
    ("leading-operator", ["EQ"] + ONE, False, "?== 1"),
    ("dangling-comparison", Q + ["EQ"], False, "?@.a =="),
    ("dangling-and", Q + ["AND"], False, "?@.a &&"),
    ("lone-not", ["NOT"], False, "?!"),
    ("empty-parens", ["LPAREN", "RPAREN"], False, "?()"),
    ("empty-filter", [], False, "?"),
    ("two-operands", Q + Q2, False, "?@.a @.b"),
    ("paren-two-operands", ["LPAREN"] + Q + ONE + TWO + ["RPAREN"], False, "?(@.a 1 2)"),
    ("literal-test", ONE, False, "?1"),
    ("paren-literal", ["LPAREN"] + ONE + ["RPAREN"], False, "?(1)"),
    ("trailing-comma-in-args", ["FUNCTION_fv1"] + Q + ["COMMA", "RPAREN", "EQ"] + ONE, False, "?fv1(@.a,) == 1"),
    ("leading-comma-in-args", ["FUNCTION_fv1", "COMMA"] + Q + ["RPAREN", "EQ"] + ONE, False, "?fv1(,@.a) == 1"),
    ("missing-comma-in-args", ["FUNCTION_fl2"] + Q + S + ["RPAREN"], False, "?fl2(@.a 'x')"),
    ("double-comma-in-args", ["FUNCTION_fl2"] + Q + ["COMMA", "COMMA"] + S + ["RPAREN"], False, "?fl2(@.a,,'x')"),
]

SELECTION_SHAPES: List[Tuple[str, List[Any], bool, str]] = [
    ("wild", ["WILD"], True, "[*]"),
    ("two", ["WILD", "COMMA", ("INDEX", "1")], True, "[*, 1]"),
    ("name", S, True, "['x']"),
    ("slice-then-index", [("INDEX", "1"), "COLON", ("INDEX", "2"), "COMMA", ("INDEX", "3")], True, "[1:2, 3]"),
    ("filter-then-wild", ["FILTER"] + Q + ["COMMA", "WILD"], True, "[?@.a, *]"),
    ("empty", [], False, "[]"),
    ("trailing-comma", ["WILD", "COMMA"], False, "[*,]"),
    ("leading-comma", ["COMMA", "WILD"], False, "[,*]"),
    ("double-comma", ["WILD", "COMMA", "COMMA", "WILD"], False, "[*,,*]"),
    ("missing-comma", ["WILD", "WILD"], False, "[* *]"),
    ("index-index", [("INDEX", "1"), ("INDEX", "2")], False, "[1 2]"),
    ("slice-extra-index", [("INDEX", "1"), "COLON", ("INDEX", "2"), ("INDEX", "3")], False, "[1:2 3]"),
    ("slice-three-colons", ["COLON", "COLON", "COLON"], False, "[:::]"),
    ("slice-four-parts", [("INDEX", "1"), "COLON", ("INDEX", "2"), "COLON", ("INDEX", "3"), "COLON", ("INDEX", "4")], False, "[1:2:3:4]"),
    ("slice-omitted-stop-extra", [("INDEX", "1"), "COLON", "COLON", ("INDEX", "2"), ("INDEX", "3")], False, "[1::2 3]"),
    ("name-name", S + S, False, "['x' 'x']"),
    ("unterminated", ["WILD", "EOF"], False, "[*"),
    ("property-in-brackets", [("PROPERTY", "a")], False, "[a]"),
]

QUERY_SHAPES: List[Tuple[str, List[Any], bool, str]] = [
    ("root-only", ["ROOT"], True, "$"),
    ("shorthand", ["ROOT", ("PROPERTY", "a"), "WILD"], True, "$.a.*"),
    ("descendant", ["ROOT", "DOUBLE_DOT", ("PROPERTY", "a")], True, "$..a"),
    ("no-root", [("PROPERTY", "a")], False, ".a"),
    ("trailing-rbracket", ["ROOT", ("PROPERTY", "a"), "RBRACKET"], False, "$.a]"),
    ("trailing-comma", ["ROOT", ("PROPERTY", "a"), "COMMA"], False, "$.a,"),
    ("trailing-literal", ["ROOT", ("PROPERTY", "a"), ("INT", "1")], False, "$.a 1"),
    ("current-at-top", ["CURRENT", ("PROPERTY", "a")], False, "@.a"),
]


def build_tokens(it: Interp, model: Model, spec: List[Any], q: Any) -> List[Inst]:
    out: List[Inst] = []
    for k, s in enumerate(spec):
        if isinstance(s, tuple):
            t, v = s
        elif isinstance(s, str) and s.startswith("FUNCTION_"):
            t, v = "FUNCTION", s[len("FUNCTION_"):]
        else:
            t, v = s, LEX[s]
        out.append(make_token(it, model, t, Const(v), f"t{k}", q))
    return out


def run_shape(model: Model, entry: str, spec: List[Any]) -> List[Any]:
    pci = model.cls("parse.Parser")

    def body(it: Interp) -> Any:
        env = real_env(it, model)
        register(it, env, "fv1", probe_function(it, model, ["VALUE"], "VALUE", []))
        register(it, env, "fl2", probe_function(it, model, ["VALUE", "VALUE"], "LOGICAL", []))
        for nm, ret in (("gv", "VALUE"), ("gl", "LOGICAL"), ("gn", "NODES")):
            register(it, env, nm, probe_function(it, model, [], ret, []))
        parser = env.attrs["parser"]
        q = it.new_str("query")
        if entry == "filter":
            toks = build_tokens(it, model, ["FILTER"] + spec + ["RBRACKET", "EOF"], q)
            fn = pci.find_method("parse_filter_selector")
        elif entry == "selection":
            toks = build_tokens(it, model, ["LBRACKET"] + spec + (["RBRACKET", "EOF"] if "EOF" not in spec else []), q)
            fn = pci.find_method("parse_bracketed_selection")
        else:
            toks = build_tokens(it, model, spec + ["EOF"], q)
            fn = pci.find_method("parse")
        if fn is None:
            raise AnalysisError(f"anchor vanished: Parser entry for {entry}")
        st = make_stream(it, model, toks)
        r = it.call_function(fn, [parser, st], {}, None, self_av=parser)
        if entry == "query":
            r = it.host.materialize(r, None)
        if entry == "filter":
            # the caller (parse_bracketed_selection) requires ',' or ']' to follow a selector
            cur = st.attrs.get("current")
            nxt = it.getattr(st, "peek")
            return r, nxt.attrs.get("type_")
        return r, None

    return paths(model, body, limit=3000)


def check_shapes(model: Model, report: Report, rule: str, want_valid: bool) -> None:
    """want_valid=True: valid shapes must be accepted (C03); False: invalid shapes must raise a JSONPathError (C04)."""
    for entry, shapes in (("filter", FILTER_SHAPES), ("selection", SELECTION_SHAPES), ("query", QUERY_SHAPES)):
        site_q = {"filter": "parse.Parser.parse_filter_selector", "selection": "parse.Parser.parse_bracketed_selection", "query": "parse.Parser.parse"}[entry]
        fi = model.functions.get(site_q)
        for sid, spec, valid, text in shapes:
            if valid != want_valid:
                continue
            key = f"shape:{entry}:{sid}"
            try:
                runs = run_shape(model, entry, spec)
            except Unsupported as err:
                report.undecided(rule, site_q, f"{key}: {err}")
                continue
            bad = None
            for run in runs:
                if run.kind == "raise":
                    isjp = isinstance(run.value, Inst) and any(c.name == "JSONPathError" for c in run.value.cls.mro())
                    if not isjp:
                        bad = f"makes the parser raise {run.exc_name()} (not a JSONPathError)"
                    elif valid:
                        bad = f"is refused with {run.exc_name()} although it is grammatical"
                else:
                    r, nxt = run.value
                    leftover = False
                    if entry == "filter" and isinstance(nxt, EnumV) and nxt.member not in ("RBRACKET", "COMMA"):
                        leftover = True  # the enclosing selection loop rejects what follows
                    if not valid and not leftover:
                        bad = "is accepted although it is not derivable from the RFC 9535 grammar"
                    if valid and leftover:
                        bad = f"is parsed only up to a {nxt.member} token"
            if bad:
                report.fail(rule, site_q, key, f"'{text}' {bad}", file=fi.file if fi else "", line=fi.line if fi else 0, what=key)
            else:
                report.ok(rule, site_q, key, detail={"text": text, "valid": valid, "paths": len(runs)})
    report.touched("parse.Parser.parse_filter_selector", "parse.Parser.parse_bracketed_selection", "parse.Parser.parse", "parse.Parser.parse_filter_expression", "parse.Parser.parse_infix_expression", "parse.Parser.parse_grouped_expression", "parse.Parser.parse_function_extension", "parse.Parser.parse_slice")


# ------------------------------------------------------------ expression trees built by the parser
def qn(name: str) -> Any:
    return ("q", "relative", name)


TREES: Dict[str, Any] = {
    "test": qn("a"),
    "not-test": ("not", qn("a")),
    "paren-test": qn("a"),
    "not-paren": ("not", qn("a")),
    "comparison": ("cmp", "==", qn("a"), ("lit", 1)),
    "paren-comparison": ("cmp", "==", qn("a"), ("lit", 1)),
    "not-paren-comparison": ("not", ("cmp", "==", qn("a"), ("lit", 1))),
    "and": ("&&", qn("a"), qn("b")),
    "or-and": ("||", qn("a"), ("&&", qn("b"), qn("c"))),
    "paren-or-and": ("&&", ("||", qn("a"), qn("b")), qn("c")),
    "cmp-and-test": ("&&", ("cmp", "==", qn("a"), ("lit", 1)), qn("b")),
    "test-and-cmp": ("&&", qn("b"), ("cmp", "==", qn("a"), ("lit", 1))),
    "literal-cmp-literal": ("cmp", "==", ("lit", 1), ("lit", 2)),
    "string-cmp": ("cmp", "==", qn("a"), ("lit", "x")),
    "value-call-cmp": ("cmp", "==", ("call", "fv1", [qn("a")]), ("lit", 1)),
    "logical-call-test": ("call", "fl2", [qn("a"), ("lit", "x")]),
    "nested-paren": qn("a"),
    "not-in-and": ("&&", qn("a"), ("not", qn("b"))),
}
# every comparison operator under a negation keeps its operator and its negation (no algebraic folding)
EXTRA_TREE_SHAPES: List[Tuple[str, List[Any], Any]] = []
for _tok, _op in (("EQ", "=="), ("NE", "!="), ("LT", "<"), ("LE", "<="), ("GT", ">"), ("GE", ">=")):
    EXTRA_TREE_SHAPES.append((f"not-paren-{_tok.lower()}", ["NOT", "LPAREN"] + Q + [_tok] + ONE + ["RPAREN"], ("not", ("cmp", _op, qn("a"), ("lit", 1)))))
    EXTRA_TREE_SHAPES.append((f"plain-{_tok.lower()}", Q + [_tok] + ONE, ("cmp", _op, qn("a"), ("lit", 1))))
    EXTRA_TREE_SHAPES.append((f"swapped-{_tok.lower()}", ONE + [_tok] + Q, ("cmp", _op, ("lit", 1), qn("a"))))
LEX.update({"LE": "<=", "GT": ">", "GE": ">="})
EXTRA_TREE_SHAPES.append(("not-paren-and", ["NOT", "LPAREN"] + Q + ["AND"] + Q2 + ["RPAREN"], ("not", ("&&", qn("a"), qn("b")))))
EXTRA_TREE_SHAPES.append(("not-paren-or", ["NOT", "LPAREN"] + Q + ["OR"] + Q2 + ["RPAREN"], ("not", ("||", qn("a"), qn("b")))))
EXTRA_TREE_SHAPES.append(("string-literal-with-blanks", Q + ["EQ", ("SINGLE_QUOTE_STRING", " x ")], ("cmp", "==", qn("a"), ("lit", " x "))))
EXTRA_TREE_SHAPES.append(("string-literal-double-quoted", [("DOUBLE_QUOTE_STRING", "A b")] + ["NE"] + Q, ("cmp", "!=", ("lit", "A b"), qn("a"))))
EXTRA_TREE_SHAPES.append(("root-query-test", ["ROOT", ("PROPERTY", "a")], ("q", "root", "a")))
EXTRA_TREE_SHAPES.append(("and-and", Q + ["AND"] + Q2 + ["AND"] + Q3, ("&&", ("&&", qn("a"), qn("b")), qn("c"))))
EXTRA_TREE_SHAPES.append(("or-or", Q + ["OR"] + Q2 + ["OR"] + Q3, ("||", ("||", qn("a"), qn("b")), qn("c"))))
EXTRA_TREE_SHAPES.append(("and-or", Q + ["AND"] + Q2 + ["OR"] + Q3, ("||", ("&&", qn("a"), qn("b")), qn("c"))))


def expr_shape(x: Any) -> Any:
    """Structure of a parsed filter expression (classes, operators, names, literal values)."""
    if not isinstance(x, Inst):
        return ("?", repr(x))
    n = x.cls.name
    if n == "FilterExpression":
        return expr_shape(x.attrs.get("expression"))
    if n in ("RelativeFilterQuery", "RootFilterQuery"):
        q = x.attrs.get("query")
        segs = q.attrs.get("segments") if isinstance(q, Inst) else None
        names = []
        if isinstance(segs, PyTuple):
            for sg in segs.items:
                sels = sg.attrs.get("selectors") if isinstance(sg, Inst) else None
                if isinstance(sels, PyTuple) and len(sels.items) == 1 and isinstance(sels.items[0], Inst):
                    nm = sels.items[0].attrs.get("name")
                    names.append(nm.value if isinstance(nm, Const) else sels.items[0].cls.name)
                else:
                    names.append("?")
        return ("q", "relative" if n == "RelativeFilterQuery" else "root", ".".join(map(str, names)))
    if n.endswith("Literal"):
        v = x.attrs.get("value")
        return ("lit", v.value if isinstance(v, Const) else repr(v))
    if n == "ComparisonExpression":
        op = x.attrs.get("operator")
        return ("cmp", op.value if isinstance(op, Const) else repr(op), expr_shape(x.attrs.get("left")), expr_shape(x.attrs.get("right")))
    if n == "LogicalExpression":
        op = x.attrs.get("operator")
        return (op.value if isinstance(op, Const) else repr(op), expr_shape(x.attrs.get("left")), expr_shape(x.attrs.get("right")))
    if n == "PrefixExpression":
        op = x.attrs.get("operator")
        if isinstance(op, Const) and op.value == "!":
            return ("not", expr_shape(x.attrs.get("right")))
        return ("prefix", repr(op), expr_shape(x.attrs.get("right")))
    if n == "FunctionExtension":
        nm = x.attrs.get("name")
        args = x.attrs.get("args")
        items = args.items if isinstance(args, (PyList, PyTuple)) else []
        return ("call", nm.value if isinstance(nm, Const) else repr(nm), [expr_shape(a) for a in items])
    return ("?", n)


def check_trees(model: Model, report: Report, rule: str) -> None:
    """The parser builds exactly the expression tree the grammar describes (no rewriting)."""
    site_q = "parse.Parser.parse_filter_selector"
    fi = model.functions.get(site_q)
    cases: List[Tuple[str, List[Any], Any]] = []
    for sid, spec, valid, text in FILTER_SHAPES:
        if valid and sid in TREES:
            cases.append((sid, spec, TREES[sid]))
    cases += EXTRA_TREE_SHAPES
    for sid, spec, want in cases:
        key = f"tree:{sid}"
        try:
            runs = run_shape(model, "filter", spec)
        except Unsupported as err:
            report.undecided(rule, site_q, f"{key}: {err}")
            continue
        bad = None
        for run in runs:
            if run.kind == "raise":
                continue  # acceptance is C03's business
            r, _nxt = run.value
            sel_expr = r.attrs.get("expression") if isinstance(r, Inst) else None
            got = _assoc_normal(expr_shape(sel_expr))
            want = _assoc_normal(want)
            if got != want:
                bad = f"is parsed into {got!r}, expected {want!r}: the parser must not rewrite the expression (e.g. fold '!' into a comparison: !(a < b) is not a >= b when the operands are unordered)"
        if bad:
            report.fail(rule, site_q, key, f"shape '{sid}' {bad}", file=fi.file if fi else "", line=fi.line if fi else 0)
        else:
            report.ok(rule, site_q, key)


def _assoc_normal(t: Any) -> Any:
    """&& and || are associative: compare as n-ary operators."""
    if isinstance(t, tuple) and t and t[0] in ("&&", "||"):
        items: List[Any] = []
        for x in t[1:]:
            nx = _assoc_normal(x)
            if isinstance(nx, tuple) and nx and nx[0] == t[0]:
                items.extend(nx[1:])
            else:
                items.append(nx)
        return (t[0],) + tuple(items)
    if isinstance(t, tuple):
        return tuple(_assoc_normal(x) if isinstance(x, (tuple, list)) else x for x in t)
    if isinstance(t, list):
        return [_assoc_normal(x) for x in t]
    return t


# ------------------------------------------------------------ query trees built by the parser
QUERY_TREES: List[Tuple[str, List[Any], Any]] = [
    ("root", ["ROOT"], []),
    ("shorthand-name", ["ROOT", ("PROPERTY", "Ab_1")], [("child", [("name", "Ab_1")])]),
    ("shorthand-wild", ["ROOT", "WILD"], [("child", [("wild",)])]),
    ("descendant-name", ["ROOT", "DOUBLE_DOT", ("PROPERTY", "a")], [("descendant", [("name", "a")])]),
    ("descendant-wild", ["ROOT", "DOUBLE_DOT", "WILD"], [("descendant", [("wild",)])]),
    ("descendant-bracket", ["ROOT", "DOUBLE_DOT", "LBRACKET", ("INDEX", "1"), "RBRACKET"], [("descendant", [("index", 1)])]),
    ("bracket-name-single", ["ROOT", "LBRACKET", ("SINGLE_QUOTE_STRING", " x y "), "RBRACKET"], [("child", [("name", " x y ")])]),
    ("bracket-name-double", ["ROOT", "LBRACKET", ("DOUBLE_QUOTE_STRING", "X"), "RBRACKET"], [("child", [("name", "X")])]),
    ("bracket-index-negative", ["ROOT", "LBRACKET", ("INDEX", "-2"), "RBRACKET"], [("child", [("index", -2)])]),
    ("bracket-index-zero", ["ROOT", "LBRACKET", ("INDEX", "0"), "RBRACKET"], [("child", [("index", 0)])]),
    ("bracket-wild", ["ROOT", "LBRACKET", "WILD", "RBRACKET"], [("child", [("wild",)])]),
    ("bracket-slice", ["ROOT", "LBRACKET", ("INDEX", "1"), "COLON", ("INDEX", "-2"), "COLON", ("INDEX", "3"), "RBRACKET"], [("child", [("slice", 1, -2, 3)])]),
    ("bracket-slice-open", ["ROOT", "LBRACKET", "COLON", "COLON", ("INDEX", "-1"), "RBRACKET"], [("child", [("slice", None, None, -1)])]),
    (
        "bracket-mixed-order",
        ["ROOT", "LBRACKET", ("SINGLE_QUOTE_STRING", "x"), "COMMA", ("INDEX", "2"), "COMMA", "WILD", "COMMA", ("INDEX", "1"), "COLON", ("INDEX", "2"), "COMMA", "FILTER"] + Q + ["COMMA", ("INDEX", "0"), "RBRACKET"],
        [("child", [("name", "x"), ("index", 2), ("wild",), ("slice", 1, 2, None), ("filter", ("q", "relative", "a")), ("index", 0)])],
    ),
    (
        "three-segments",
        ["ROOT", ("PROPERTY", "a"), ("PROPERTY", "b"), "LBRACKET", ("INDEX", "0"), "RBRACKET", "DOUBLE_DOT", ("PROPERTY", "c"), "WILD"],
        [("child", [("name", "a")]), ("child", [("name", "b")]), ("child", [("index", 0)]), ("descendant", [("name", "c")]), ("child", [("wild",)])],
    ),
    ("same-name-twice", ["ROOT", "LBRACKET", ("SINGLE_QUOTE_STRING", "a"), "COMMA", ("SINGLE_QUOTE_STRING", "a"), "RBRACKET"], [("child", [("name", "a"), ("name", "a")])]),
]


def selector_shape(x: Any) -> Any:
    if not isinstance(x, Inst):
        return ("?", repr(x))
    n = x.cls.name

    def val(a: Any) -> Any:
        if isinstance(a, Const):
            return a.value
        if isinstance(a, IntV) and a.lin.is_const():
            return a.lin.const
        return repr(a)

    if n == "NameSelector":
        return ("name", val(x.attrs.get("name")))
    if n == "IndexSelector":
        return ("index", val(x.attrs.get("index")))
    if n == "WildcardSelector":
        return ("wild",)
    if n == "SliceSelector":
        sl = x.attrs.get("slice")
        if isinstance(sl, SliceV):
            return ("slice", val(sl.start), val(sl.stop), val(sl.step))
        return ("slice", "?")
    if n == "FilterSelector":
        return ("filter", _assoc_normal(expr_shape(x.attrs.get("expression"))))
    return ("?", n)


def segments_shape(segs: Any, interp: Any) -> Any:
    try:
        items = interp.concrete_items(segs, None)
    except Exception:  # noqa: BLE001
        return ("?", repr(segs))
    out = []
    for sg in items:
        if not isinstance(sg, Inst):
            out.append(("?", repr(sg)))
            continue
        kind = {"JSONPathChildSegment": "child", "JSONPathRecursiveDescentSegment": "descendant"}.get(sg.cls.name, sg.cls.name)
        sels = sg.attrs.get("selectors")
        try:
            sl = interp.concrete_items(sels, None)
        except Exception:  # noqa: BLE001
            sl = []
        out.append((kind, [selector_shape(x) for x in sl]))
    return out


def check_query_trees(model: Model, report: Report, rule: str) -> None:
    """Tokens of a whole query -> exactly the segments and selectors the grammar describes, in order."""
    site_q = "parse.Parser.parse"
    fi = model.functions.get(site_q)
    pci = model.cls("parse.Parser")
    for sid, spec, want in QUERY_TREES:

        def body(it: Interp, spec=spec) -> Any:
            env = real_env(it, model)
            parser = env.attrs["parser"]
            q = it.new_str("query")
            toks = build_tokens(it, model, spec + ["EOF"], q)
            st = make_stream(it, model, toks)
            r = it.call_function(pci.find_method("parse"), [parser, st], {}, None, self_av=parser)
            r = it.host.materialize(r, None)
            return segments_shape(r, it)

        key = f"query-tree:{sid}"
        try:
            runs = paths(model, body, limit=3000)
        except Unsupported as err:
            report.undecided(rule, site_q, f"{key}: {err}")
            continue
        bad = None
        for run in runs:
            if run.kind == "raise":
                bad = f"is refused with {run.exc_name()}"
                continue
            if run.value != want:
                bad = f"is parsed into {run.value!r}, expected {want!r}"
        if bad:
            report.fail(rule, site_q, key, f"query shape '{sid}' {bad}", file=fi.file if fi else "", line=fi.line if fi else 0)
        else:
            report.ok(rule, site_q, key)
    report.touched("parse.Parser.parse", "parse.Parser.parse_query", "parse.Parser.parse_selectors", "parse.Parser.parse_bracketed_selection")
