"""STR: op-chain models of string-building functions (canonical_string) and of the reader.

The writer is extracted from the source as a chain of host string operations with constant
arguments; each op has an exact model (assumption A2 for json.dumps).  The composed model is
evaluated on every class of a code-point partition and on every ordered pair of special
characters, which is exhaustive because all ops are local (window <= 2).
"""

from __future__ import annotations

from typing import Any
from typing import Dict
from typing import List
from typing import Optional
from typing import Tuple

from ..absctx import Unsupported
from ..absint import Interp
from ..absval import *  # noqa: F403
from ..harness import describe
from ..harness import paths
from ..model import AnalysisError
from ..model import Model

SHORT = {0x08: "\\b", 0x09: "\\t", 0x0A: "\\n", 0x0C: "\\f", 0x0D: "\\r"}


def model_json_dumps(s: str, ensure_ascii: bool) -> str:
    """A2: json.dumps of a str."""
    out = ['"']
    for ch in s:
        cp = ord(ch)
        if ch == '"':
            out.append('\\"')
        elif ch == "\\":
            out.append("\\\\")
        elif cp in SHORT:
            out.append(SHORT[cp])
        elif cp < 0x20:
            out.append(f"\\u{cp:04x}")
        elif ensure_ascii and cp >= 0x7F:
            if cp >= 0x10000:
                v = cp - 0x10000
                out.append(f"\\u{0xD800 + (v >> 10):04x}\\u{0xDC00 + (v & 0x3FF):04x}")
            else:
                out.append(f"\\u{cp:04x}")
        else:
            out.append(ch)
    out.append('"')
    return "".join(out)


def rfc_normalized_name(s: str) -> str:
    """RFC 9535 2.7 normalized-path name."""
    out = ["'"]
    for ch in s:
        cp = ord(ch)
        if ch == "'":
            out.append("\\'")
        elif ch == "\\":
            out.append("\\\\")
        elif cp in SHORT:
            out.append(SHORT[cp])
        elif cp < 0x20:
            out.append(f"\\u{cp:04x}")
        else:
            out.append(ch)
    out.append("'")
    return "".join(out)


class Chain:
    def __init__(self) -> None:
        self.ops: List[Tuple[Any, ...]] = []

    def apply(self, s: str) -> str:
        cur = s
        for op in self.ops:
            if op[0] == "json.dumps":
                cur = model_json_dumps(cur, op[1])
            elif op[0] == "slice":
                cur = cur[op[1] : op[2]]
            elif op[0] == "replace":
                cur = cur.replace(op[1], op[2])
            elif op[0] == "wrap":
                cur = op[1] + cur + op[2]
            elif op[0] == "translate":
                cur = cur.translate(op[1])
            elif op[0] in ("strip", "lstrip", "rstrip", "removeprefix", "removesuffix"):
                cur = getattr(cur, op[0])(*op[1])
            else:
                raise AnalysisError(f"unknown op {op}")
        return cur

    def show(self) -> List[str]:
        return [repr(o) for o in self.ops]


class Piecewise:
    """A string function given as guarded op chains: the first case whose conditions hold applies."""

    def __init__(self) -> None:
        self.cases: List[Tuple[List[Tuple[str, Any, bool]], Chain]] = []

    def apply(self, s: str) -> str:
        for conds, ch in self.cases:
            if all(_holds(kind, arg, s) == truth for kind, arg, truth in conds):
                return ch.apply(s)
        raise AnalysisError(f"no case of the string function covers {s!r}")

    def show(self) -> List[str]:
        return [f"if {conds}: {ch.show()}" for conds, ch in self.cases]


def _holds(kind: str, arg: Any, s: str) -> bool:
    """A1 models of the string predicates a writer may branch on, evaluated on a test string."""
    if kind == "contains":
        return arg in s
    if kind == "strpred":
        name, a = arg
        if a:
            return bool(getattr(s, name)(*a))
        return bool(getattr(s, name)())
    if kind == "len-le":
        return len(s) <= arg
    raise AnalysisError(f"unmodelled condition {kind}")


def extract_chain(model: Model, qual: str = "serialize.canonical_string") -> Tuple[Optional[Any], Optional[str], Any]:
    fn = model.func(qual)

    def body(it: Interp) -> Any:
        v = it.new_str("value")
        return it.call_function(fn, [v], {}, None), v

    try:
        runs = paths(model, body)
    except Unsupported as err:
        return None, str(err), fn
    if any(r.kind != "return" for r in runs):
        return None, "canonical_string raises on some path", fn
    if len(runs) == 1:
        ch, err = _chain_of(runs[0].value[0], runs[0].value[1], runs[0].interp)
        return ch, err, fn
    pw = Piecewise()
    for run in runs:
        r, v = run.value
        conds: List[Tuple[str, Any, bool]] = []
        for key, val in run.ctx.world.items():
            info = run.ctx.atom_info.get(key)
            if info is None:
                if isinstance(key, tuple) and key[0] == "le0":
                    (coefs, const) = key[1]
                    if len(coefs) == 1 and coefs[0][0] == v.len_var and coefs[0][1] == 1:
                        conds.append(("len-le", -const, bool(val)))
                        continue
                    return None, f"condition {key!r} on the string is not modelled", fn
                continue
            if info["kind"] == "contains" and info["recv"] is v:
                conds.append(("contains", info["item"], bool(val)))
            elif info["kind"] == "strpred" and info["recv"] is v:
                try:
                    args = tuple(a.value if isinstance(a, Const) else tuple(x.value for x in a.items) for a in info["args"])
                except AttributeError:
                    return None, "string predicate with a dynamic argument", fn
                conds.append(("strpred", (info["name"], args), bool(val)))
            else:
                return None, f"condition of kind {info['kind']} is not modelled", fn
        ch, err = _chain_of(r, v, run.interp)
        if ch is None:
            return None, err, fn
        pw.cases.append((conds, ch))
    return pw, None, fn


def _chain_of(r: Any, v: Any, interp: Any = None) -> Tuple[Optional[Chain], Optional[str]]:
    ch = Chain()

    def bound(x: Any, recv: Any) -> Any:
        """A slice bound as a python int/None; len(recv) - k is the negative index -k."""
        if isinstance(x, Const) and (x.value is None or isinstance(x.value, int)):
            return x.value
        if isinstance(x, IntV) and interp is not None and len(x.lin.coefs) == 1:
            (var, c), = x.lin.coefs.items()
            lv = interp.host.len_vars.get(("op", getattr(recv, "id", None)))
            if c == 1 and lv == var and x.lin.const <= 0:
                return x.lin.const if x.lin.const < 0 else None
        raise ValueError

    def walk(t: Any) -> Optional[str]:
        if t is v:
            return None
        if isinstance(t, Term):
            if t.op == "fstr":
                parts = list(t.args)
                idx = [i for i, p in enumerate(parts) if not isinstance(p, Const)]
                if len(idx) != 1:
                    return "f-string with more than one dynamic part"
                pre = "".join(p.value for p in parts[: idx[0]])
                post = "".join(p.value for p in parts[idx[0] + 1 :])
                e = walk(parts[idx[0]])
                ch.ops.append(("wrap", pre, post))
                return e
            if t.op == "concat":
                a, b = t.args
                if isinstance(a, Const) and isinstance(b, Const):
                    return "constant concat"
                if isinstance(a, Const):
                    e = walk(b)
                    ch.ops.append(("wrap", a.value, ""))
                    return e
                if isinstance(b, Const):
                    e = walk(a)
                    ch.ops.append(("wrap", "", b.value))
                    return e
                # (a + x) + b
                return "concatenation of two dynamic parts"
            if t.op == "strmeth":
                recv, name, args = t.args
                if name == "replace" and len(args) == 2 and all(isinstance(a, Const) and isinstance(a.value, str) for a in args):
                    e = walk(recv)
                    ch.ops.append(("replace", args[0].value, args[1].value))
                    return e
                if name in ("strip", "lstrip", "rstrip", "removeprefix", "removesuffix") and all(isinstance(a, Const) and isinstance(a.value, str) for a in args) and len(args) <= 1:
                    e = walk(recv)
                    ch.ops.append((name, tuple(a.value for a in args)))
                    return e
                if name == "translate" and len(args) == 1 and isinstance(args[0], PyDict):
                    table: Dict[int, Any] = {}
                    for hk, val in args[0].items.items():
                        kav = args[0].keys_av[hk]
                        if not (isinstance(kav, Const) and isinstance(kav.value, int) and not isinstance(kav.value, bool)):
                            return "translate table with a non-integer key"
                        if not (isinstance(val, Const) and (val.value is None or isinstance(val.value, (str, int)))):
                            return "translate table with a non-constant replacement"
                        table[kav.value] = val.value
                    e = walk(recv)
                    ch.ops.append(("translate", table))
                    return e
                return f"string method {name} is not modelled"
            if t.op == "strslice":
                recv, a, b, c = t.args
                if not (isinstance(c, Const) and c.value is None):
                    return "stepped slice"
                try:
                    lo_, hi_ = bound(a, recv), bound(b, recv)
                except ValueError:
                    return "symbolic slice bounds"
                e = walk(recv)
                ch.ops.append(("slice", lo_, hi_))
                return e
            if t.op == "json.dumps":
                args = [a for a in t.args if not isinstance(a, tuple)]
                kw = dict(a for a in t.args if isinstance(a, tuple))
                if len(args) != 1:
                    return "json.dumps with extra positional arguments"
                ea = kw.pop("ensure_ascii", Const(True))
                if kw:
                    return f"json.dumps with options {sorted(kw)}"
                if not isinstance(ea, Const):
                    return "json.dumps(ensure_ascii=<dynamic>)"
                e = walk(args[0])
                ch.ops.append(("json.dumps", bool(ea.value)))
                return e
        return f"string expression {describe(t)!r} is not an op chain over the argument"

    err = walk(r)
    if err:
        return None, err
    return ch, None


SPECIALS = ['"', "'", "\\", "\x08", "\t", "\n", "\x0c", "\r", "\x00", "\x1f", "/", "a", "u", "0", "b", "n"]
CLASS_REPS = [chr(c) for c in (0x00, 0x01, 0x07, 0x0B, 0x0E, 0x1F, 0x20, 0x21, 0x23, 0x26, 0x28, 0x2F, 0x30, 0x41, 0x5B, 0x5D, 0x61, 0x7E, 0x7F, 0x80, 0xA0, 0xE9, 0x2028, 0xD7FF, 0xE000, 0xFFFF, 0x10000, 0x1F600, 0x10FFFF)]


def test_strings() -> List[str]:
    out = [""]
    out += SPECIALS
    out += [c for c in CLASS_REPS if c not in SPECIALS]
    for a in SPECIALS:
        for b in SPECIALS:
            out.append(a + b)
    out += ["a'b\\c\"d", "\\'", "'\\", "\\\\'", "\"'\"", "\\u0000", "\\n"]
    return out


def apply_normalisation(chain: List[Tuple[Any, ...]], text: str) -> str:
    """Apply the literal-normalisation steps _decode_string_literal performs, on a constant text: (old, new) is
    str.replace; ("re.sub", pattern, repl) is a regex literal of the analysed source applied with stdlib semantics (A1)."""
    import re as _re

    for step in chain:
        if len(step) == 2:
            text = text.replace(step[0], step[1])
        elif step[0] == "re.sub":
            text = _re.sub(step[1], step[2], text)
        else:
            raise AnalysisError(f"unknown normalisation step {step!r}")
    return text


def decode_with_model(dm: Any, chain: List[Tuple[str, str]], body: str, lex_escapes: Any, lex_raw: Any, quote: str) -> Tuple[Optional[str], str]:
    """Decode a literal body with the *extracted* reader tables.  Returns (decoded | None, reason)."""
    # lexer level
    i = 0
    while i < len(body):
        c = body[i]
        if c == "\\":
            if i + 1 >= len(body):
                return None, "dangling backslash"
            if not lex_escapes.contains(ord(body[i + 1])):
                return None, f"lexer refuses escape \\{body[i + 1]}"
            i += 2
            continue
        if c == quote:
            return None, "unescaped quote"
        if not lex_raw.contains(ord(c)):
            return None, f"lexer refuses raw U+{ord(c):04X}"
        i += 1
    s = body
    s = apply_normalisation(chain, s)
    out: List[str] = []
    i = 0
    while i < len(s):
        c = s[i]
        if c != "\\":
            if dm.raw_rejects.contains(ord(c)):
                return None, f"parser refuses raw U+{ord(c):04X}"
            out.append(c)
            i += 1
            continue
        if i + 1 >= len(s):
            return None, "dangling backslash"
        e = s[i + 1]
        if e in dm.simple:
            out.append(dm.simple[e])
            i += 2
            continue
        if e == dm.hex_escape:
            def hex4(j: int) -> Optional[int]:
                if j + 4 > len(s):
                    return None
                v = 0
                for k in range(4):
                    cp = ord(s[j + k])
                    if not dm.hex_digits[k].contains(cp):
                        return None
                    v = v * 16 + int(s[j + k], 16)
                return v

            v = hex4(i + 2)
            if v is None:
                return None, "bad hex escape"
            if dm.low.contains(v):
                return None, "lone low surrogate"
            if dm.high.contains(v):
                if s[i + 6 : i + 8] != "\\" + dm.hex_escape:
                    return None, "lone high surrogate"
                w = hex4(i + 8)
                if w is None or not dm.low.contains(w):
                    return None, "high surrogate without low"
                out.append(chr(0x10000 + ((v - 0xD800) << 10) + (w - 0xDC00)))
                i += 12
                continue
            if dm.escape_rejects.contains(v):
                return None, f"parser refuses \\u{v:04x}"
            out.append(chr(v))
            i += 6
            continue
        return None, f"parser refuses escape \\{e}"
    return "".join(out), ""
