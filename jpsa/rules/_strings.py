"""String-literal decoding: extraction of the decoder's tables by abstract interpretation
(shared by C09, C03/C04 lexical rules and the C08 reader model)."""

from __future__ import annotations

from typing import Any
from typing import Dict
from typing import List
from typing import Optional
from typing import Tuple

from ..absctx import Unsupported
from ..absint import Interp
from ..absval import *  # noqa: F403
from ..automata import Alt
from ..automata import Chars
from ..automata import CharSet
from ..automata import Eps
from ..automata import Rx
from ..automata import Seq
from ..automata import lit
from ..automata import star
from ..harness import describe
from ..harness import make_token
from ..harness import paths
from ..harness import real_env
from ..model import AnalysisError
from ..model import Model
from ..numeric import INF
from ..numeric import Lin
from ..protocol import Report

P = "parse.Parser."
HEX_CLASSES = {"digit": (48, 57, 48), "upper": (65, 70, 55), "lower": (97, 102, 87)}


def _parser(it: Interp, model: Model) -> Inst:
    env = real_env(it, model)
    p = env.attrs.get("parser")
    if not isinstance(p, Inst):
        raise AnalysisError("environment has no parser")
    return p


def _is_syntax_error(run: Any) -> bool:
    return run.kind == "raise" and isinstance(run.value, Inst) and run.value.cls.name == "JSONPathSyntaxError"


def bounds(run: Any, v: IntV) -> Tuple[float, float]:
    return run.ctx.oct.min_of(v.lin), run.ctx.oct.max_of(v.lin)


# ------------------------------------------------------------ hex digits
def analyse_hex_digits(model: Model) -> Dict[str, Any]:
    """_parse_hex_digits on a 4-character substring: accepted digit sets per position and the value form."""
    fn = model.func(P + "_parse_hex_digits")

    def body(it: Interp) -> Any:
        parser = _parser(it, model)
        value = it.new_str("value")
        tok = make_token(it, model, "DOUBLE_QUOTE_STRING", value, "tok")
        i = it.new_int("i", 0)
        it.ctx.assume_le0(i.lin + Lin.k(4) - Lin.var(value.len_var))
        digits = it.host.subscript(value, SliceV(i, IntV(i.lin + Lin.k(4)), Const(None)), None)
        cps = [IntV(Lin.var(it.host.subscript(value, IntV(i.lin + Lin.k(k)), None).cp_var)) for k in range(4)]
        r = it.call_function(fn, [parser, digits, tok], {}, None, self_av=parser)
        return r, cps

    runs = paths(model, body, limit=5000)
    accepted: List[CharSet] = [CharSet(), CharSet(), CharSet(), CharSet()]
    problems: List[Tuple[str, str]] = []
    n_ok = 0
    for run in runs:
        if run.kind == "raise":
            if not _is_syntax_error(run):
                problems.append(("raises", f"raises {run.exc_name()} instead of JSONPathSyntaxError"))
            continue
        r, cps = run.value
        n_ok += 1
        if not isinstance(r, (IntV, Const)):
            problems.append(("value-form", f"returns {describe(r)!r}"))
            continue
        lin = r.lin if isinstance(r, IntV) else Lin.k(r.value)
        want = Lin.k(0)
        for k, cp in enumerate(cps):
            lo, hi = bounds(run, cp)
            cls = None
            for name, (a, b, base) in HEX_CLASSES.items():
                if lo >= a and hi <= b:
                    cls = name
            if lo == -INF or hi == INF:
                problems.append((f"digit{k}:unbounded", f"digit {k} is accepted without a range test"))
                continue
            accepted[k] = accepted[k] | CharSet([(int(lo), int(hi))])
            if cls is None:
                problems.append((f"digit{k}:non-hex", f"digit {k} in {CharSet([(int(lo), int(hi))]).show()} is accepted as a hex digit"))
                continue
            base = HEX_CLASSES[cls][2]
            want = want + (cp.lin - Lin.k(base)).scale(16 ** (3 - k))
        if not any(p[0].startswith("digit") for p in problems) and lin != want:
            problems.append(("value", f"hex value is computed as {lin.show(run.ctx.names)}, expected {want.show(run.ctx.names)}"))
    hexset = CharSet([(48, 57), (65, 70), (97, 102)])
    for k in range(4):
        missing = hexset - accepted[k]
        if not missing.empty() and n_ok:
            problems.append((f"digit{k}:rejected", f"valid hex digits {missing.show()} are rejected at position {k}"))
    if n_ok == 0:
        problems.append(("never-accepts", "no path returns a value"))
    return {"fn": fn, "accepted": accepted, "problems": problems, "paths": len(runs)}


# ---------------------------------------------------------- int predicates
def analyse_predicate(model: Model, qual: str) -> Dict[str, Any]:
    """Set of integers for which a (self, codepoint) -> bool predicate is true."""
    fn = model.func(qual)

    def body(it: Interp) -> Any:
        parser = _parser(it, model)
        cp = it.new_int("codepoint", 0, 0x10FFFF)
        return it.call_function(fn, [parser, cp], {}, None, self_av=parser), cp

    runs = paths(model, body)
    true = CharSet()
    probs = []
    for run in runs:
        if run.kind == "raise":
            probs.append(f"raises {run.exc_name()}")
            continue
        r, cp = run.value
        lo, hi = bounds(run, cp)
        t = run.interp.truth(r)
        if t:
            true = true | CharSet([(int(lo), int(hi))])
    return {"fn": fn, "true": true, "problems": probs}


def analyse_string_from_codepoint(model: Model) -> Dict[str, Any]:
    fn = model.func(P + "_string_from_codepoint")

    def body(it: Interp) -> Any:
        parser = _parser(it, model)
        cp = it.new_int("codepoint", 0, 0x10FFFF)
        tok = make_token(it, model, "DOUBLE_QUOTE_STRING", label="tok")
        return it.call_function(fn, [parser, cp, tok], {}, None, self_av=parser), cp

    runs = paths(model, body)
    rejected = CharSet()
    probs: List[str] = []
    for run in runs:
        if run.kind == "raise":
            # bounds of the input on this path: recover from the only int named 'codepoint'
            cpv = [v for v, n in run.ctx.names.items() if n == "codepoint"]
            lo, hi = run.ctx.oct.bounds_var(cpv[0])
            if _is_syntax_error(run):
                rejected = rejected | CharSet([(int(lo), int(hi))])
            else:
                probs.append(f"raises {run.exc_name()} for code points {int(lo):#x}-{int(hi):#x}")
            continue
        r, cp = run.value
        if not (isinstance(r, Term) and r.op == "chr" and isinstance(r.args[0], IntV) and r.args[0].lin == cp.lin):
            probs.append(f"returns {describe(r)!r}, expected chr(codepoint)")
    return {"fn": fn, "rejected": rejected, "problems": probs}


# -------------------------------------------------------- _decode_hex_char
def analyse_hex_char(model: Model) -> Dict[str, Any]:
    fn = model.func(P + "_decode_hex_char")
    hexfn = model.func(P + "_parse_hex_digits")
    out: Dict[str, Any] = {"fn": fn, "problems": [], "cells": 0}
    probs: List[Tuple[str, str]] = out["problems"]
    D8, DB, DC, DF = 0xD800, 0xDBFF, 0xDC00, 0xDFFF
    regions = ["truncated", "non-surrogate-low", "non-surrogate-high", "low", "high:truncated", "high:complete"]

    def body(it: Interp, region: str) -> Any:
        parser = _parser(it, model)
        value = it.new_str("value")
        n = Lin.var(value.len_var)
        tok = make_token(it, model, "DOUBLE_QUOTE_STRING", value, "tok")
        index = it.new_int("index", 0)  # position of the 'u'
        it.ctx.assume_le0(index.lin - n + Lin.k(1))
        calls: List[Any] = []

        def hook(interp: Interp, fi: Any, args: List[Any], kw: Dict[str, Any], node: Any) -> Any:
            cp = interp.new_int(f"cp{len(calls) + 1}", 0, 0xFFFF)
            calls.append((args[1] if len(args) > 1 else None, cp))
            c = interp.ctx
            if len(calls) == 1:
                if region == "non-surrogate-low":
                    c.assume_le0(cp.lin - Lin.k(D8 - 1))
                elif region == "non-surrogate-high":
                    c.assume_le0(Lin.k(DF + 1) - cp.lin)
                elif region == "low":
                    c.assume_le0(Lin.k(DC) - cp.lin)
                    c.assume_le0(cp.lin - Lin.k(DF))
                elif region.startswith("high"):
                    c.assume_le0(Lin.k(D8) - cp.lin)
                    c.assume_le0(cp.lin - Lin.k(DB))
            return cp

        it.hooks[hexfn.qualname] = hook
        c = it.ctx
        if region == "truncated":
            c.assume_le0(n - index.lin - Lin.k(4))  # fewer than 4 characters after the 'u'
        elif region == "high:truncated":
            c.assume_le0(index.lin + Lin.k(5) - n)  # 4 digits present
            c.assume_le0(n - index.lin - Lin.k(10))  # but no complete second escape
        elif region == "high:complete":
            c.assume_le0(index.lin + Lin.k(11) - n)
        else:
            c.assume_le0(index.lin + Lin.k(5) - n)
        r = it.call_function(fn, [parser, value, index, tok], {}, None, self_av=parser)
        return r, calls, value, index, it

    for region in regions:
        try:
            runs = paths(model, lambda it, region=region: body(it, region))
        except Unsupported as err:
            probs.append((f"{region}:unsupported", str(err)))
            continue
        out["cells"] += 1
        for run in runs:
            key = region
            if run.kind == "raise":
                if not _is_syntax_error(run):
                    probs.append((f"{key}:raises", f"raises {run.exc_name()} ({region})"))
                elif region in ("non-surrogate-low", "non-surrogate-high"):
                    probs.append((f"{key}:rejected", f"a well-formed \\uXXXX escape of a non-surrogate code point is rejected ({region})"))
                elif region == "high:complete":
                    # legitimate only if the follow-up is not '\\u' + low surrogate
                    w = run.ctx.world
                    follow_ok = [v for k, v in w.items() if isinstance(k, tuple) and k[0] == "charis"]
                    cp2 = [v for v, nme in run.ctx.names.items() if nme == "cp2"]
                    if follow_ok and all(follow_ok) and cp2:
                        lo, hi = run.ctx.oct.bounds_var(cp2[0])
                        if lo >= DC and hi <= DF:
                            probs.append((f"{key}:pair-rejected", "a high surrogate escape followed by a low surrogate escape is rejected"))
                continue
            r, calls, value, index, it = run.value
            if region in ("truncated", "low", "high:truncated"):
                probs.append((f"{key}:accepted", f"escape is accepted although it is {region} (returns {describe(r)!r})"))
                continue
            if not (isinstance(r, PyTuple) and len(r.items) == 2):
                probs.append((f"{key}:shape", f"returns {describe(r)!r}, expected (codepoint, index)"))
                continue
            cpr, idx = r.items
            # digit slices
            def slice_ok(arg: Any, lo: Lin, hi: Lin) -> bool:
                return isinstance(arg, SymStr) and arg.origin and arg.origin[0] == "substr" and arg.origin[1] is value and arg.origin[2] == lo and arg.origin[3] == hi

            if not calls or not slice_ok(calls[0][0], index.lin + Lin.k(1), index.lin + Lin.k(5)):
                probs.append((f"{key}:digits1", "the first four hex digits are not value[index+1:index+5]"))
                continue
            cp1 = calls[0][1]
            if region.startswith("non-surrogate"):
                if not (isinstance(cpr, IntV) and cpr.lin == cp1.lin):
                    probs.append((f"{key}:codepoint", f"returns code point {describe(cpr)!r}, expected the escape's own value"))
                if not (isinstance(idx, IntV) and idx.lin == index.lin + Lin.k(4)):
                    probs.append((f"{key}:index", f"returns index {describe(idx)!r}, expected the last hex digit (index+4)"))
                if len(calls) != 1:
                    probs.append((f"{key}:extra-digits", "a second escape is read after a non-surrogate"))
            else:  # high:complete accepted
                ws = run.ctx.world
                follow = {k[2]: v for k, v in ws.items() if isinstance(k, tuple) and k[0] == "charis"}
                if len(calls) != 2 or not slice_ok(calls[1][0], index.lin + Lin.k(7), index.lin + Lin.k(11)):
                    probs.append((f"{key}:digits2", "the low surrogate digits are not value[index+7:index+11]"))
                    continue
                if follow.get("\\") is not True or follow.get("u") is not True:
                    probs.append((f"{key}:follow", "a surrogate pair is accepted without checking that '\\u' follows the high surrogate"))
                cp2 = calls[1][1]
                lo, hi = bounds(run, cp2)
                if lo < DC or hi > DF:
                    probs.append((f"{key}:low-range", f"second escape in {int(lo):#x}-{int(hi):#x} is accepted as a low surrogate"))
                    continue
                want = Lin.k(0x10000) + (cp1.lin - Lin.k(D8)).scale(0x400) + (cp2.lin - Lin.k(DC))
                if not (isinstance(cpr, IntV) and cpr.lin == want):
                    probs.append((f"{key}:pair-arithmetic", f"pair is combined as {describe(cpr)!r}, expected 0x10000 + (hi-0xD800)*0x400 + (lo-0xDC00)"))
                if not (isinstance(idx, IntV) and idx.lin == index.lin + Lin.k(10)):
                    probs.append((f"{key}:index", f"returns index {describe(idx)!r}, expected the last hex digit of the second escape (index+10)"))
    return out


# ------------------------------------------------- _decode_escape_sequence
RFC_SIMPLE = {'"': '"', "\\": "\\", "/": "/", "b": "\x08", "f": "\x0c", "n": "\n", "r": "\r", "t": "\t"}


def analyse_escape_table(model: Model) -> Dict[str, Any]:
    fn = model.func(P + "_decode_escape_sequence")
    hexfn = model.func(P + "_decode_hex_char")
    sfc = model.func(P + "_string_from_codepoint")
    table: Dict[str, Any] = {}
    other = None
    probs: List[Tuple[str, str]] = []
    u_info: Dict[str, Any] = {}

    def body(it: Interp) -> Any:
        parser = _parser(it, model)
        value = it.new_str("value")
        tok = make_token(it, model, "DOUBLE_QUOTE_STRING", value, "tok")
        index = it.new_int("index", 0)
        it.ctx.assume_le0(index.lin - Lin.var(value.len_var) + Lin.k(1))
        seen: Dict[str, Any] = {}

        def hook(interp: Interp, fi: Any, args: List[Any], kw: Dict[str, Any], node: Any) -> Any:
            seen["hex_args"] = args[1:]
            cp = interp.new_int("escaped-cp", 0, 0x10FFFF)
            j = interp.new_int("hex-end")
            seen["cp"], seen["j"] = cp, j
            return PyTuple((cp, j))

        def hook2(interp: Interp, fi: Any, args: List[Any], kw: Dict[str, Any], node: Any) -> Any:
            seen["sfc_arg"] = args[1]
            t = Term("decoded", (args[1],), interp.ctx.new_id())
            seen["decoded"] = t
            return t

        it.hooks[hexfn.qualname] = hook
        it.hooks[sfc.qualname] = hook2
        ch = it.host.subscript(value, index, None)
        r = it.call_function(fn, [parser, value, index, tok], {}, None, self_av=parser)
        return r, ch, index, value, seen, it

    runs = paths(model, body)
    for run in runs:
        fixed = None
        if run.kind == "return":
            r, ch, index, value, seen, it = run.value
            fixed = run.ctx.char_fixed.get(ch.id)
        else:
            # find the escape character fixed on this path
            fx = list(run.ctx.char_fixed.values())
            fixed = fx[0] if fx else None
        if run.kind == "raise":
            if not _is_syntax_error(run):
                probs.append((f"escape:{fixed or 'other'}:raises", f"raises {run.exc_name()}"))
            if fixed is None:
                other = "rejected"
            else:
                table[fixed] = "rejected"
            continue
        if fixed is None:
            other = "accepted"
            probs.append(("escape:other:accepted", f"an unknown escape character is accepted (returns {describe(r)!r})"))
            continue
        if not (isinstance(r, PyTuple) and len(r.items) == 2):
            probs.append((f"escape:{fixed}:shape", f"returns {describe(r)!r}"))
            continue
        dec, idx = r.items
        if "hex_args" in seen:
            table[fixed] = "hex"
            a = seen["hex_args"]
            if not (len(a) >= 2 and a[0] is value and isinstance(a[1], IntV) and a[1].lin == index.lin):
                probs.append((f"escape:{fixed}:hex-args", "_decode_hex_char is not called with (value, index)"))
            if seen.get("sfc_arg") is seen.get("cp") and dec is seen.get("decoded"):
                u_info["via_string_from_codepoint"] = True
            elif isinstance(dec, Term) and dec.op == "chr" and isinstance(dec.args[0], IntV) and dec.args[0].lin == seen["cp"].lin:
                u_info["via_string_from_codepoint"] = False
            else:
                probs.append((f"escape:{fixed}:hex-result", f"the decoded code point is turned into {describe(dec)!r}"))
            if not (isinstance(idx, IntV) and idx.lin == seen["j"].lin):
                probs.append((f"escape:{fixed}:hex-index", "the index returned by _decode_hex_char is not passed on"))
        else:
            if isinstance(dec, SymChar) and run.ctx.char_fixed.get(dec.id) is not None:
                dec = Const(run.ctx.char_fixed[dec.id])  # the character itself, known on this path
            table[fixed] = dec.value if isinstance(dec, Const) else describe(dec)
            if not (isinstance(idx, IntV) and idx.lin == index.lin):
                probs.append((f"escape:{fixed}:index", f"returns index {describe(idx)!r}, expected it unchanged"))
    return {"fn": fn, "table": table, "other": other, "problems": probs, "u": u_info, "paths": len(runs)}


# ----------------------------------------------------------- unescape loop
def analyse_unescape_loop(model: Model) -> Dict[str, Any]:
    fn = model.func(P + "_unescape_string")
    esc = model.func(P + "_decode_escape_sequence")
    sfc = model.func(P + "_string_from_codepoint")
    probs: List[Tuple[str, str]] = []
    info: Dict[str, Any] = {"raw_checked": None}

    def body(it: Interp) -> Any:
        parser = _parser(it, model)
        value = it.new_str("value")
        it.ctx.assume_le0(Lin.k(1) - Lin.var(value.len_var))
        tok = make_token(it, model, "DOUBLE_QUOTE_STRING", value, "tok")
        seen: Dict[str, Any] = {}

        def hook(interp: Interp, fi: Any, args: List[Any], kw: Dict[str, Any], node: Any) -> Any:
            seen["esc_args"] = args[1:]
            d = interp.new_opaque("decoded-char")
            j = interp.new_int("esc-end")
            seen["d"], seen["j"] = d, j
            return PyTuple((d, j))

        def hook2(interp: Interp, fi: Any, args: List[Any], kw: Dict[str, Any], node: Any) -> Any:
            seen.setdefault("sfc_args", []).append(args[1])
            return Term("checked", (args[1],), interp.ctx.new_id())

        it.hooks[esc.qualname] = hook
        it.hooks[sfc.qualname] = hook2
        it.hooks["__while_once__"] = {fn.qualname}
        r = it.call_function(fn, [parser, value, tok], {}, None, self_av=parser)
        return r, value, seen, it

    runs = paths(model, body)
    kinds = set()
    for run in runs:
        if run.kind == "raise":
            probs.append(("loop:raises", f"first iteration raises {run.exc_name()}"))
            continue
        r, value, seen, it = run.value
        if not (isinstance(r, Term) and r.op == "loop-continues"):
            probs.append(("loop:shape", f"the unescape loop is not a while loop over the string (returned {describe(r)!r})"))
            continue
        loc = r.args[0]
        idx = [v for k, v in loc.items() if isinstance(v, (IntV, Const)) and k not in ("self",) and not isinstance(getattr(v, "value", 0), (str, type(None)))]
        lists = [v for v in loc.values() if isinstance(v, PyList)]
        ch0 = it.host.chars.get((value.id, Lin.k(0).key()))
        is_escape = ch0 is not None and run.ctx.char_fixed.get(ch0.id) == "\\"
        if len(lists) != 1:
            probs.append(("loop:accumulator", "cannot identify the output list"))
            continue
        out = lists[0].items
        nxt = loc.get("index")
        if is_escape:
            kinds.add("escape")
            a = seen.get("esc_args")
            if not a or a[0] is not value or not (isinstance(a[1], (IntV, Const)) and it.host.as_lin(a[1]) == Lin.k(1)):
                probs.append(("loop:escape-args", "after a backslash the decoder is not called with (value, index+1)"))
            if len(out) != 1 or out[0] is not seen.get("d"):
                probs.append(("loop:escape-output", f"the decoded character is not what is appended ({[describe(o) for o in out]!r})"))
            if not (isinstance(nxt, IntV) and nxt.lin == seen["j"].lin + Lin.k(1)):
                probs.append(("loop:escape-advance", f"after an escape the index becomes {describe(nxt)!r}, expected decoder index + 1"))
        else:
            kinds.add("raw")
            if len(out) != 1 or out[0] is not ch0:
                probs.append(("loop:raw-output", f"a raw character is not copied unchanged ({[describe(o) for o in out]!r})"))
            if not (it.host.as_lin(nxt) == Lin.k(1)):
                probs.append(("loop:raw-advance", f"after a raw character the index becomes {describe(nxt)!r}, expected index + 1"))
            sa = seen.get("sfc_args", [])
            info["raw_checked"] = bool(sa) and isinstance(sa[0], IntV) and ch0 is not None and sa[0].lin == Lin.var(ch0.cp_var)
    if kinds != {"escape", "raw"}:
        probs.append(("loop:branches", f"expected a raw and an escape branch, found {sorted(kinds)}"))
    return {"fn": fn, "problems": probs, "info": info}


# ------------------------------------------------------------ hex4 regexes
def hex4_rx(cs: CharSet) -> Optional[Rx]:
    """Regex over 4 hex digits (either case) whose value lies in cs (restricted to the BMP)."""
    cs = cs & CharSet([(0, 0xFFFF)])
    if cs.empty():
        return None
    HEX = CharSet([(48, 57), (65, 70), (97, 102)])

    def nib(v: int) -> CharSet:
        if v < 10:
            return CharSet([(48 + v, 48 + v)])
        return CharSet([(65 + v - 10, 65 + v - 10), (97 + v - 10, 97 + v - 10)])

    def rec(base: int, depth: int) -> Optional[Rx]:
        size = 16 ** (4 - depth)
        blk = CharSet([(base, base + size - 1)])
        inter = blk & cs
        if inter.empty():
            return None
        if inter == blk:
            return Seq(*[Chars(HEX) for _ in range(4 - depth)]) if depth < 4 else Eps()
        alts: List[Rx] = []
        child = size // 16
        for v in range(16):
            sub = rec(base + v * child, depth + 1)
            if sub is not None:
                alts.append(Seq(Chars(nib(v)), sub))
        return Alt(*alts) if alts else None

    return rec(0, 0)


class DecoderModel:
    """What the parser's decoder accepts, as tables (double-quote convention)."""

    def _decodes(self, t: str) -> bool:
        """Does the decoder (tables) accept the text t made of raw characters and simple escapes?"""
        i = 0
        while i < len(t):
            if t[i] == "\\":
                if i + 1 >= len(t) or t[i + 1] not in self.simple:
                    return False
                i += 2
            else:
                if self.raw_rejects.contains(ord(t[i])):
                    return False
                i += 1
        return True

    def __init__(self) -> None:
        self.simple: Dict[str, str] = {}
        self.hex_escape: Optional[str] = None
        self.hex_digits: List[CharSet] = []
        self.high = CharSet()
        self.low = CharSet()
        self.escape_rejects = CharSet()  # code points refused when produced by \uXXXX
        self.raw_rejects = CharSet()  # raw characters refused
        self.problems: List[Tuple[str, str, Any]] = []  # (rule-part, key, message, fn)

    def body_rx(self, lexer_escapes: CharSet, quote: str) -> Rx:
        """Accepted string bodies for a literal delimited by *quote*."""
        other = "'" if quote == '"' else '"'
        raw = CharSet.any() - CharSet.of("\\" + quote) - self.raw_rejects
        alts: List[Rx] = [Chars(raw)]
        simple = CharSet()
        chain = getattr(self, "chains", {}).get(quote)
        for a, b in lexer_escapes.iv:
            for cp in range(a, min(b, a + 300) + 1):
                e = chr(cp)
                if e == self.hex_escape:
                    continue
                if chain is not None:
                    # what reaches the decoder after the quote normalisation of this style
                    t = "\\" + e
                    from ._strmodel import apply_normalisation

                    t = apply_normalisation(chain, t)
                    ok = self._decodes(t)
                else:
                    src = '"' if e == quote else e
                    ok = src in self.simple
                if ok:
                    simple = simple | CharSet.of(e)
        if not simple.empty():
            alts.append(Seq(lit("\\"), Chars(simple)))
        if self.hex_escape and lexer_escapes.contains(ord(self.hex_escape)):
            ok = CharSet([(0, 0xFFFF)]) - self.high - self.low - self.escape_rejects
            parts: List[Rx] = []
            h = hex4_rx(ok)
            if h is not None:
                parts.append(h)
            hi, lo = hex4_rx(self.high), hex4_rx(self.low)
            if hi is not None and lo is not None:
                parts.append(Seq(hi, lit("\\"), lit(self.hex_escape), lo))
            if parts:
                alts.append(Seq(lit("\\"), lit(self.hex_escape), Alt(*parts)))
        return star(Alt(*alts))


def extract_decoder(model: Model) -> DecoderModel:
    dm = DecoderModel()
    hd = analyse_hex_digits(model)
    dm.hex_digits = hd["accepted"]
    for k, msg in hd["problems"]:
        dm.problems.append(("hex-digits", k, msg, hd["fn"]))
    for name, attr in (("_is_high_surrogate", "high"), ("_is_low_surrogate", "low")):
        pr = analyse_predicate(model, P + name)
        setattr(dm, attr, pr["true"])
        for msg in pr["problems"]:
            dm.problems.append(("surrogates", f"{name}:raises", msg, pr["fn"]))
    sfc = analyse_string_from_codepoint(model)
    for msg in sfc["problems"]:
        dm.problems.append(("codepoint", "string-from-codepoint", msg, sfc["fn"]))
    hc = analyse_hex_char(model)
    for k, msg in hc["problems"]:
        dm.problems.append(("hex-char", k, msg, hc["fn"]))
    et = analyse_escape_table(model)
    for k, msg in et["problems"]:
        dm.problems.append(("escape-table", k, msg, et["fn"]))
    for c, v in et["table"].items():
        if v == "hex":
            dm.hex_escape = c
        elif v != "rejected":
            dm.simple[c] = v
    if et["u"].get("via_string_from_codepoint"):
        dm.escape_rejects = sfc["rejected"]
    ul = analyse_unescape_loop(model)
    for k, msg in ul["problems"]:
        dm.problems.append(("loop", k, msg, ul["fn"]))
    if ul["info"].get("raw_checked"):
        dm.raw_rejects = sfc["rejected"]
    dm.escape_table_other = et["other"]  # type: ignore[attr-defined]
    return dm


# ------------------------------------------------------------- lexer side
def analyse_lex_string(model: Model, quote: str, context: str = "bracket") -> Dict[str, Any]:
    """One generic iteration of the string-literal state function for *quote*."""
    lexmod = model.module("lex")
    name = {
        ("'", "bracket"): "lex_single_quoted_string_inside_bracket_segment",
        ('"', "bracket"): "lex_double_quoted_string_inside_bracket_segment",
        ("'", "filter"): "lex_single_quoted_string_inside_filter_expression",
        ('"', "filter"): "lex_double_quoted_string_inside_filter_expression",
    }[(quote, context)]
    if name not in lexmod.assigns and name not in lexmod.functions:
        raise AnalysisError(f"anchor vanished: lex.{name}")
    lci = model.cls("lex.Lexer")
    probs: List[Tuple[str, str]] = []
    escapes = CharSet()
    raw = CharSet()
    info: Dict[str, Any] = {"emits": None, "next_state": None}

    def body(it: Interp) -> Any:
        q = it.new_str("query")
        n = Lin.var(q.len_var)
        lx = it.instantiate(lci, [q], {}, None)
        p = it.new_int("pos", 1)
        it.ctx.assume_le0(p.lin - n)
        lx.attrs["pos"] = p
        lx.attrs["start"] = IntV(p.lin - Lin.k(1))  # the opening quote has been consumed, not yet ignored
        st = it.module_global(lexmod, name)
        if isinstance(st, FuncV):
            it.hooks["__while_once__"] = {st.fi.qualname}
        r = it.call(st, [lx], {})
        return r, lx, p, q, it, st

    runs = paths(model, body, limit=4000)
    for run in runs:
        if run.kind == "raise":
            probs.append(("lex:raises", f"string state raises {run.exc_name()}"))
            continue
        r, lx, p, q, it, st = run.value
        c0 = it.host.chars.get((q.id, p.lin.key()))
        c1 = it.host.chars.get((q.id, (p.lin + Lin.k(1)).key()))
        at_end = run.ctx.oct.entails_le0(Lin.var(q.len_var) - p.lin)
        toks = lx.attrs["tokens"].items if isinstance(lx.attrs.get("tokens"), PyList) else []
        err = [t for t in toks if isinstance(t, Inst) and isinstance(t.attrs.get("type_"), EnumV) and t.attrs["type_"].member == "ERROR"]
        emitted = [t for t in toks if t not in err]
        fixed0 = run.ctx.char_fixed.get(c0.id) if c0 is not None else None
        newpos = lx.attrs.get("pos")
        adv = (newpos.lin - p.lin) if isinstance(newpos, IntV) else None
        cont = isinstance(r, Term) and r.op == "loop-continues"
        if at_end:
            # nothing after the opening quote: must be an error (unclosed) -- or the empty-string shortcut
            if not err and not emitted:
                probs.append(("lex:eof", "end of input inside a string literal is not reported"))
            continue
        if fixed0 == "\\":
            nxt_fixed = run.ctx.char_fixed.get(c1.id) if c1 is not None else None
            if cont:
                if adv != Lin.k(2):
                    probs.append(("lex:escape-advance", "an accepted escape does not consume exactly two characters"))
                if nxt_fixed is None:
                    probs.append(("lex:escape-any", "a backslash followed by an arbitrary character is accepted"))
                else:
                    escapes = escapes | CharSet.of(nxt_fixed)
            elif not err:
                probs.append(("lex:escape-silent", "a refused escape produces neither an error nor progress"))
        elif fixed0 == quote:
            if len(emitted) != 1:
                probs.append(("lex:close", f"closing quote emits {len(emitted)} tokens"))
            else:
                t = emitted[0]
                info["emits"] = t.attrs["type_"].member
                val = t.attrs.get("value")
                info["value_ok"] = isinstance(val, SymStr) and val.origin and val.origin[0] == "substr" and val.origin[1] is q
                # the token's text is the query text strictly between the quotes: it ends where the closing quote stands
                if not (info["value_ok"] and val.origin[3] == p.lin):
                    end = val.origin[3].show(run.ctx.names) if info["value_ok"] else describe(val)
                    probs.append(("lex:close-text", f"the string token's text ends at {end}, not at the closing quote: the literal's value would include the quote (an empty literal becomes a one-character name)"))
                info["next_state"] = r.fi.name if isinstance(r, FuncV) else describe(r)
        elif cont:
            if adv != Lin.k(1):
                probs.append(("lex:raw-advance", "a raw character does not advance by exactly one"))
            lo, hi = run.ctx.oct.bounds_var(c0.cp_var) if c0 is not None else (0, 0x10FFFF)
            excl = run.ctx.char_excl.get(c0.id, set()) if c0 is not None else set()
            raw = raw | (CharSet([(int(lo), int(hi))]) - CharSet.of("".join(excl)))
        elif err:
            pass
    return {"escapes": escapes, "raw": raw, "problems": probs, "info": info, "paths": len(runs), "state": name}


OVER_SUFFIXES = ("unbounded", "non-hex", ":accepted", ":follow", ":low-range", ":extra-digits")
UNDER_SUFFIXES = (":rejected", "pair-rejected", ":raises", "never-accepts")
VALUE_ONLY_SUFFIXES = ("value", "value-form", ":codepoint", "pair-arithmetic", ":hex-result", "loop:escape-output", "loop:raw-output")


def classify_problems(problems: List[Any]) -> Tuple[List[Any], List[Any], List[Any], List[Any]]:
    """(accepts too much, refuses too much, only the decoded value is wrong, anything else) — the last kind means
    the accepted language cannot be read off the decoder model."""
    over, under, value_only, other = [], [], [], []
    for p in problems:
        part, k, msg = p[0], p[1], p[2]
        if k == "raises" or k.endswith(UNDER_SUFFIXES) or (k == "string-from-codepoint" and str(msg).startswith("raises")):
            under.append(p)
        elif k.endswith(OVER_SUFFIXES):
            over.append(p)
        elif k.endswith(VALUE_ONLY_SUFFIXES) or (k == "string-from-codepoint"):
            value_only.append(p)
        else:
            other.append(p)
    return over, under, value_only, other
