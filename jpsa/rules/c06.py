"""C06 — the comparison table (RFC 9535 section 2.3.5.2.2).

R06.1  For every operator and every ordered pair of abstract comparands, every
       syntactic path of ComparisonExpression.evaluate (with _compare, _eq, _lt,
       Nothing.__eq__ and whatever they call inlined) returns the RFC value.
       Host `==` / `<` on document values are modelled per assumption A1; the
       world says how the two values relate (lt/eq/gt; for containers: equal as
       JSON, equal only to the host, different).
R06.4  Literal expressions evaluate to the value they store.
"""

from __future__ import annotations

from typing import Any
from typing import List
from typing import Optional
from typing import Tuple

from ..absval import Const
from ..absval import Sym
from ..harness import EXAMPLE
from ..harness import deep_of
from ..harness import expr_stub
from ..harness import make_node
from ..harness import make_nodelist
from ..harness import nothing
from ..harness import paths
from ..harness import rel_of
from ..model import AnalysisError
from ..model import Model
from ..protocol import Report

KINDS = ["null", "bool", "int", "float", "str", "list", "dict"]
OPS = ["==", "!=", "<", "<=", ">", ">="]
NUM = {"int", "float"}


def cat(k: str) -> str:
    return "num" if k in NUM else k


def expected(op: str, L: str, R: str, rel: Optional[str], deep: Optional[str]) -> bool:
    """RFC result. L/R are 'absent' or a JSON kind; rel is left-vs-right."""

    def eq() -> bool:
        if L == "absent" and R == "absent":
            return True
        if L == "absent" or R == "absent":
            return False
        if cat(L) != cat(R):
            return False
        if L == "null":
            return True
        if cat(L) in ("num", "str", "bool"):
            return rel == "eq"
        return deep == "rfc_eq"

    def lt(a: str, b: str, r: Optional[str]) -> bool:
        if (a in NUM and b in NUM) or (a == "str" and b == "str"):
            return r == "lt"
        return False

    inv = {"lt": "gt", "gt": "lt", "eq": "eq", None: None}[rel]
    if op == "==":
        return eq()
    if op == "!=":
        return not eq()
    if op == "<":
        return lt(L, R, rel)
    if op == ">":
        return lt(R, L, inv)
    if op == "<=":
        return lt(L, R, rel) or eq()
    if op == ">=":
        return lt(R, L, inv) or eq()
    raise AssertionError(op)


# operands that are literal *expressions* (instances of the library's own literal classes, as the parser builds them):
# whatever the comparison code does with the expression objects themselves (equality, hashing, folding) is exercised
LITERAL_CLASSES = {"null": "NullLiteral", "bool": "BooleanLiteral", "int": "IntegerLiteral", "float": "FloatLiteral", "str": "StringLiteral"}


def producers() -> List[Tuple[str, ...]]:
    out: List[Tuple[str, ...]] = [("nothing",), ("nl0",)]
    for k in KINDS:
        out.append(("value", k))
    for k in KINDS:
        out.append(("nl1", k))
    for k in LITERAL_CLASSES:
        out.append(("literal", k))
    return out


def abstract_kind(p: Tuple[str, ...]) -> str:
    return "absent" if p[0] in ("nothing", "nl0", "nothing-new") else p[1]


def key_kind(p: Tuple[str, ...]) -> str:
    if p[0] == "literal":
        return f"literal-{p[1]}"
    return {"nothing": "nothing", "nl0": "empty-nodelist", "nothing-new": "nothing-as-new-instance"}.get(p[0], p[-1])


def fresh_nothing_producers(model: Model) -> List[str]:
    """Built-in functions whose 'nothing' result is not the NOTHING singleton but another instance of Nothing.

    The comparison cells then also take such an instance as a comparand: 'nothing from a function' must behave
    as nothing whichever object represents it."""
    from ..absctx import Unsupported
    from ..absval import Inst

    ff = model.cls("function_extensions.filter_function.FilterFunction")
    ncls = model.cls("filter_expressions.Nothing")
    out: List[str] = []
    for ci in model.subclasses(ff, strict=True):
        call = ci.find_method("__call__")
        if call is None or "abstractmethod" in call.decorators:
            continue
        n_params = len(call.node.args.args) - 1
        if n_params < 1 or n_params > 2:
            continue
        shapes = ["nothing", "nl0", "nl1"] + KINDS
        import itertools

        for combo in itertools.product(shapes, repeat=n_params) if n_params == 1 else [(a, "str") for a in shapes]:

            def body(it: Any, combo=combo, ci=ci, call=call) -> Any:
                f = it.harness_inst(ci, "fn")
                args = []
                for i, c in enumerate(combo):
                    if c == "nothing":
                        args.append(nothing(it, model))
                    elif c == "nl0":
                        args.append(make_nodelist(it, model, [], f"a{i}"))
                    elif c == "nl1":
                        args.append(make_nodelist(it, model, [make_node(it, model, it.new_sym(f"v{i}"), f"a{i}")], f"a{i}"))
                    else:
                        args.append(it.new_sym(f"a{i}", [c]))
                r = it.call_function(call, [f] + args, {}, None, self_av=f)
                return r, nothing(it, model)

            from .. import harness as _h

            saved, _h.MONITOR = _h.MONITOR, None  # ill-typed calls are explored too; their exceptions are not findings
            try:
                runs = paths(model, body)
            except (Unsupported, AnalysisError):
                continue
            finally:
                _h.MONITOR = saved
            for run in runs:
                if run.kind == "raise":
                    continue
                r, glob = run.value
                if isinstance(r, Inst) and r.cls is ncls and r is not glob and ci.qualname not in out:
                    out.append(ci.qualname)
    return out


def install_induction_hooks(it: Any, model: Model) -> None:
    """Structural induction on the comparands: a re-entrant call of a comparison helper (one that is already on the
    stack) compares two *parts* of the comparands; by the induction hypothesis it returns the RFC answer for them,
    which is an unknown boolean here.  The call is recorded with its arguments."""
    TRUE, FALSE = Const(True), Const(False)

    def rec_hook(interp: Any, fi: Any, args: List[Any], kw: Any, node: Any) -> Any:
        if fi.qualname in interp.active and len(args) == 2 and not kw:
            calls = getattr(interp.ctx, "rec_calls", None)
            if calls is None:
                calls = interp.ctx.rec_calls = []  # type: ignore[attr-defined]
            out = interp.ctx.choose(("rec-eq", len(calls)), [True, False])
            calls.append((fi.qualname, args[0], args[1], out))
            return TRUE if out else FALSE
        return NotImplemented

    for f in model.module("filter_expressions").functions.values():
        if len(f.node.args.args) == 2 and f.qualname not in it.hooks:
            it.hooks[f.qualname] = rec_hook
    it.ctx.interp = it  # type: ignore[attr-defined]


def inductive_world(run: Any, L: str, ls: Any, rs: Any) -> Tuple[Optional[str], Optional[str]]:
    """For two arrays / two objects compared part by part: ('rfc_eq' | 'ne', None) = what the path has established
    about the comparands (assuming recursive calls answer correctly), or (None, problem).  (None, None) = the path
    shows no part-by-part comparison (host equality: the worlds of A1 apply).

    arrays are equal iff they have the same length and equal elements at every position; objects are equal iff they
    have the same names and equal values under every name (RFC 9535 2.3.5.2.2)."""
    from ..absval import Ev
    from ..absval import PyTuple
    from ..absval import Source
    from ..numeric import Lin

    ctx = run.ctx
    calls = list(getattr(ctx, "rec_calls", []) or [])

    def events(evs: Any) -> Any:
        for e in evs:
            if isinstance(e, Ev):
                yield e
                if e.kind == "foreach":
                    yield from events(e.body)

    quants = [e for e in events(ctx.log) if e.kind == "quantifier"]
    loops = [e for e in events(ctx.log) if e.kind == "foreach"]
    it = getattr(ctx, "interp", None)
    if it is None:
        return None, None
    la = Lin.var(it.host.len_var(("sym", ls.id), ls.label))
    lb = Lin.var(it.host.len_var(("sym", rs.id), rs.label))
    len_eq = ctx.oct.entails_le0(la - lb) and ctx.oct.entails_le0(lb - la)
    len_ne = ctx.oct.entails_ge1(la - lb) or ctx.oct.entails_ge1(lb - la)
    if len_ne:
        ctx.induction_facts = "the comparands have different sizes"  # type: ignore[attr-defined]
        return "ne", None
    if not calls and not quants and not loops:
        return None, None
    if loops and not quants:
        return None, "the comparands are walked by an explicit loop; only all(<pairwise comparison> for ...) is recognised"
    if len(quants) != 1:
        return None, f"{len(quants)} quantifiers over the comparands, expected one"
    q = quants[0]
    if len(q.info) > 3 and q.info[3] == "empty-source":
        # nothing to compare part by part: vacuously true for all(); right iff both comparands are known to be empty
        if q.info[0] != "all":
            return None, "the parts are combined with any(), not all()"
        if len_eq:
            ctx.induction_facts = "both comparands are empty"  # type: ignore[attr-defined]
            return "rfc_eq", None
        return None, "no parts to compare on one side, but the sizes of the two comparands are never compared (an empty array / object would equal any other)"
    which, passed, t = q.info[:3]
    if which != "all":
        return None, "the parts are combined with any(), not all()"
    if not passed:
        return None, "some parts are skipped by a condition of the generator expression"
    src = q.src
    tgt = q.elem.target
    if L == "list":
        ok = isinstance(src, Source) and src.view == "zip" and isinstance(src.base, tuple) and len(src.base) == 2 and all(isinstance(b, Source) and b.view == "elems" and not b.order for b in src.base) and {id(src.base[0].base), id(src.base[1].base)} == {id(ls), id(rs)}
        if not ok:
            return None, f"the elements compared are drawn from {src!r}, expected zip(left, right) in full"
        want_pair = {id(x) for x in tgt.items} if isinstance(tgt, PyTuple) else set()
    else:
        ok = isinstance(src, Source) and src.view == "items" and not src.order and (src.base is ls or src.base is rs)
        if not ok:
            return None, f"the members compared are drawn from {src!r}, expected the items of one comparand in full"
        other = rs if src.base is ls else ls
        key, val = tgt.items if isinstance(tgt, PyTuple) and len(tgt.items) == 2 else (None, None)
        present = ctx.world.get(("haskey", other.id, it.host.key_desc(key)))
        if present is None:
            return None, "a member of one object is compared without testing that the other object has that name (a missing member is not a null member)"
        if present is False:
            ctx.induction_facts = "a name of one object is missing in the other (so the objects differ), whatever the part-by-part comparison then compares"  # type: ignore[attr-defined]
            return "ne", None
        want_pair = {id(val), id(it.host.member(other, key))}
    if len(calls) != 1:
        return None, f"{len(calls)} recursive comparisons per part, expected one"
    _q, a, b, out = calls[0]
    if {id(a), id(b)} != want_pair:
        from ..harness import describe

        return None, f"the recursive comparison is applied to ({describe(a)!r}, {describe(b)!r}), which are not the two parts at the same position / under the same name"
    if not out:
        ctx.induction_facts = "the two parts at one position / under one name differ"  # type: ignore[attr-defined]
        return "ne", None
    if not len_eq:
        return None, "parts compare equal but the sizes of the two comparands are never compared (a prefix / a subset would compare equal)"
    return "rfc_eq", None


def witness(op: str, lp: Tuple[str, ...], rp: Tuple[str, ...], world: str) -> str:
    def side(p: Tuple[str, ...], name: str) -> Tuple[str, Optional[str]]:
        if p[0] == "nothing":
            return f"value(@.{name}_missing[*])", None
        if p[0] == "nothing-new":
            return f"<function returning a new Nothing()>(@.{name})", None
        if p[0] == "nl0":
            return f"@.{name}_missing", None
        if p[0] == "literal":
            return EXAMPLE[p[1]], None
        if p[0] == "value":
            return EXAMPLE[p[1]] if p[1] not in ("list", "dict") else f"value(@.{name}[?true==true])", EXAMPLE[p[1]]
        return f"@.{name}", EXAMPLE[p[1]]

    ls, lv = side(lp, "a")
    rs, rv = side(rp, "b")
    doc = []
    if lv is not None and "@.a" in ls:
        doc.append(f'"a":{lv}')
    if rv is not None and "@.b" in rs:
        doc.append(f'"b":{rv}')
    return f"query $[?{ls} {op} {rs}] on [{{{','.join(doc)}}}] (relation between the two values: {world})"


def check(model: Model, report: Report) -> None:
    report.rule("R06.1", "every path of ComparisonExpression.evaluate returns the RFC 9535 comparison result for the abstract cell")
    report.rule("R06.4", "literal expressions evaluate to their stored value")
    report.assumptions += [
        "A1: CPython semantics of ==, <, isinstance, len on JSON values (bool<:int; list/dict == recurse with host ==)",
        "numbers compare by mathematical value inside host ==/< (int vs float)",
    ]
    report.not_decided += [
        "numeric edge semantics inside host ==/< (NaN, infinities are not JSON)",
        "NodeList(many) comparands (not producible by a singular query)",
    ]
    ce = model.cls("filter_expressions.ComparisonExpression")
    ev = ce.find_method("evaluate")
    if ev is None:
        raise AnalysisError("anchor vanished: ComparisonExpression.evaluate")
    site = ev.qualname
    prods = producers()
    fresh = fresh_nothing_producers(model)
    if fresh:
        prods.append(("nothing-new",))
    report.extra["nothing_producers"] = {"singleton": True, "new_instances_from": fresh}
    thorough = report.tier == "thorough"
    touched: set = set()
    n_paths = 0
    for op in OPS:
        for lp in prods:
            for rp in prods:
                if not thorough:
                    # quick tier: 'value' x 'value', 'nl1' x 'nl1', and absent mixes
                    # (mixed value/nl1 producers only differ by the unwrapping, which
                    # each side exercises on its own)
                    if {lp[0], rp[0]} == {"value", "nl1"} and lp[-1] != rp[-1]:
                            continue
                    if "literal" in (lp[0], rp[0]) and (lp[0], rp[0]) != ("literal", "literal") and lp[-1] != rp[-1]:
                        continue  # literal vs value of another kind: the literal only differs from 'value' in its expression object

                holder: dict = {}

                def body(it: Any, lp=lp, rp=rp, op=op, holder=holder) -> Any:
                    def mk(p: Tuple[str, ...], name: str) -> Tuple[Any, Any]:
                        if p[0] == "nothing":
                            return nothing(it, model), None
                        if p[0] == "nothing-new":
                            return it.instantiate(model.cls("filter_expressions.Nothing"), [], {}, None), None
                        if p[0] == "nl0":
                            return make_nodelist(it, model, [], name), None
                        s = it.new_sym(name, [p[1]])
                        if p[0] == "value":
                            return s, s
                        return make_nodelist(it, model, [make_node(it, model, s, name)], name), s

                    def operand(p: Tuple[str, ...], name: str) -> Tuple[Any, Any]:
                        if p[0] == "literal":
                            s_ = it.new_sym(name, [p[1]])
                            lit_ = it.harness_inst(model.cls("filter_expressions." + LITERAL_CLASSES[p[1]]), name)
                            lit_.attrs["token"] = it.new_opaque(f"{name}-token")
                            lit_.attrs["value"] = s_
                            return lit_, s_
                        v_, s_ = mk(p, name)
                        return expr_stub(it, model, v_, name), s_

                    install_induction_hooks(it, model)
                    le_, ls = operand(lp, "left")
                    re_, rs = operand(rp, "right")
                    it.ctx.operand_syms = (ls, rs)  # type: ignore[attr-defined]
                    inst = it.harness_inst(ce, "cmp")
                    inst.attrs["token"] = it.new_opaque("token")
                    inst.attrs["left"] = le_
                    inst.attrs["right"] = re_
                    inst.attrs["operator"] = Const(op)
                    ctxo = it.new_opaque("context", model.cls("filter_expressions.FilterContext"))
                    r = it.call_function(ev, [inst, ctxo], {}, None, self_av=inst)
                    touched.update(it.touched)
                    return r

                runs = paths(model, body)
                n_paths += len(runs)
                L, R = abstract_kind(lp), abstract_kind(rp)
                cell = f"{op}:({key_kind(lp)},{key_kind(rp)})"
                bads = {}
                for run in runs:
                    ls, rs = getattr(run.ctx, "operand_syms", (None, None))
                    rel = rel_of(run.ctx, ls, rs) if (ls is not None and rs is not None) else None
                    deep = deep_of(run.ctx, ls, rs) if (ls is not None and rs is not None) else None
                    if deep is None and L == R and L in ("list", "dict") and isinstance(ls, Sym) and isinstance(rs, Sym) and run.kind != "raise":
                        deep, prob = inductive_world(run, L, ls, rs)
                        if prob:
                            bads.setdefault("part-by-part", (prob, "the RFC 9535 result for two " + ("arrays" if L == "list" else "objects"), run))
                            continue
                    rels = [rel] if rel is not None else ["lt", "eq", "gt"]
                    deeps = [deep] if deep is not None else ["rfc_eq", "host_eq_only", "ne"]
                    if ls is None or rs is None:
                        rels, deeps = [None], [None]
                    elif cat(L) != cat(R) or L in ("null",):
                        rels, deeps = rels[:1] if rel is not None else [None], [None]
                    elif L in ("list", "dict"):
                        rels = [None]
                    else:
                        deeps = [None]
                    for r_ in rels:
                        for d_ in deeps:
                            want = expected(op, L, R, r_, d_)
                            got = None
                            if run.kind == "raise":
                                got = f"raises {run.exc_name()}"
                            elif not (isinstance(run.value, Const) and isinstance(run.value.value, bool)):
                                got = f"returns non-boolean {run.value!r}"
                            elif run.value.value != want:
                                got = f"returns {run.value.value}"
                            if got:
                                world = d_ or r_ or "any"
                                bads.setdefault(world, (got, want, run))
                for world, (got, want, run) in sorted(bads.items()):
                    report.fail(
                        "R06.1",
                        site,
                        f"{cell}@{world}",
                        f"{op} on ({'/'.join(lp)}, {'/'.join(rp)}) {got}, RFC 9535 says {want}; "
                        + (f"on the path where {run.ctx.induction_facts} (comparands compared part by part; recursive calls assumed correct)" if getattr(run.ctx, "induction_facts", None) else witness(op, lp, rp, world)),
                        file=ev.file,
                        line=ev.line,
                        witness={"op": op, "left": lp, "right": rp, "world": world, "got": got, "expected": want,
                                 "assumptions": {str(k): str(v) for k, v in run.ctx.world.items()}},
                        what=f"{cell} producers={lp[0]},{rp[0]}",
                    )
                if not bads:
                    report.ok("R06.1", site, f"{cell} producers={lp[0]},{rp[0]}", detail={"paths": len(runs)})
    report.touched(*touched)
    report.extra["paths_explored"] = n_paths
    report.extra["exhaustive"] = True
    report.extra["explanation"] = (
        "C06: the comparison table is decided cell by cell: 6 operators x ordered pairs of comparand producers "
        "(Nothing, empty nodelist, literal/function value of each JSON kind, singleton nodelist of each kind); "
        "each cell enumerates every path of the interpreted evaluator under every order/equality world."
    )

    # R06.4 literal classes return their value
    lit = model.cls("filter_expressions.FilterExpressionLiteral")
    for ci in model.subclasses(lit, strict=False):
        m = ci.find_method("evaluate")
        if m is None or "abstractmethod" in m.decorators:
            continue

        def body2(it: Any, ci=ci, m=m) -> Any:
            inst = it.harness_inst(ci, "lit")
            s = it.new_sym("stored")
            inst.attrs["value"] = s
            inst.attrs["token"] = it.new_opaque("token")
            r = it.call_function(m, [inst, it.new_opaque("context")], {}, None, self_av=inst)
            return (r, s)

        okay = True
        for run in paths(model, body2):
            if run.kind != "return" or run.value[0] is not run.value[1]:
                okay = False
        if okay:
            report.ok("R06.4", f"filter_expressions.{ci.name}.evaluate", "returns stored value")
        else:
            report.fail("R06.4", f"filter_expressions.{ci.name}.evaluate", "literal-value", "literal does not evaluate to its stored value", file=m.file, line=m.line)


def _syms_of(run: Any) -> List[Sym]:
    out: List[Sym] = []
    seen = set()

    def walk(v: Any, depth: int = 0) -> None:
        if depth > 6 or id(v) in seen:
            return
        seen.add(id(v))
        if isinstance(v, Sym):
            out.append(v)
            return
        attrs = getattr(v, "attrs", None)
        if isinstance(attrs, dict):
            for x in attrs.values():
                walk(x, depth + 1)
        seq = getattr(v, "seq", None)
        if seq is not None:
            walk(seq, depth + 1)
        items = getattr(v, "items", None)
        if isinstance(items, (list, tuple)):
            for x in items:
                walk(x, depth + 1)

    it = run.interp
    for st in it.stubs.values():
        walk(st)
    return out
