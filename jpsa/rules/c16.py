"""C16 — lazy result iterators are independent under any interleaving or threading."""

from __future__ import annotations

import ast
from typing import Any

from .. import effects
from ..model import AnalysisError
from ..model import Model
from ..model import walk_own
from ..protocol import Report
from . import _filtersel
from .c14 import report_census

EVAL_MODULES = {"query", "segments", "selectors", "filter_expressions", "node", "serialize", "function_extensions.length", "function_extensions.count", "function_extensions.value", "function_extensions.match", "function_extensions.search", "function_extensions._pattern", "function_extensions.filter_function"}
FROZEN_PREFIXES = ("query.", "segments.", "selectors.", "filter_expressions.", "function_extensions.", "environment.JSONPathEnvironment", "parse.Parser")


def check(model: Model, report: Report) -> None:
    report.rule("R16.1", "between two next() calls only generator frames change: every write in evaluation code has a frame-fresh / per-call / under-construction receiver")
    report.rule("R16.2", "compiled objects are frozen: attribute stores on queries, segments, selectors, expressions, function objects, the environment and the parser happen only in their constructors")
    report.rule("R16.3", "the per-child FilterContext is created inside the child loop and never stored (trace rule) nor assigned to an attribute (syntactic)")
    report.rule("R16.4", "compile-time objects shared between threads (Parser, environment) are written only under construction")
    report.assumptions += ["CPython generator and GIL semantics (A1): two generators share nothing but the objects they reference"]
    report.not_decided += ["schedules are not enumerated: independence follows from the absence of shared writable state"]
    sites = report_census(model, report, "R16.1", only_modules=EVAL_MODULES | {"environment", "parse", "lex", "tokens"})
    # R16.2
    bad = False
    for w in sites:
        if w.kind in ("attr-store", "delete") and w.receiver == "self" and w.cls not in ("init",) and w.fn.cls is not None:
            q = w.fn.cls.qualname
            if q.startswith(FROZEN_PREFIXES) and not q.startswith("filter_expressions.FilterContext"):
                report.fail("R16.2", w.fn.qualname, f"late-store:{w.detail}", f"{q}.{w.detail} is assigned outside the constructor: compiled objects are shared by all iterators and threads", file=w.fn.file, line=w.line)
                bad = True
    if not bad:
        n = sum(1 for w in sites if w.cls == "init")
        report.ok("R16.2", "<package>", "all attribute stores on compiled objects are in constructors", detail={"constructor_stores": n})
    # R16.3
    _filtersel.check_filter_selector(model, report, "R16.3", nondet=False)
    fc = model.cls("filter_expressions.FilterContext")
    n_sites = 0
    for fi in model.functions.values():
        for n in walk_own(fi.node):
            if isinstance(n, (ast.Assign, ast.AnnAssign)) and n.value is not None:
                for c in ast.walk(n.value):
                    if isinstance(c, ast.Call) and model.resolve_expr_static(fi.module, c.func) == ("class", fc):
                        n_sites += 1
                        tg = n.targets if isinstance(n, ast.Assign) else [n.target]
                        for t in tg:
                            if not isinstance(t, ast.Name):
                                report.fail("R16.3", fi.qualname, "context-stored", f"a FilterContext is stored in {ast.unparse(t)}", file=fi.file, line=n.lineno)
    if n_sites == 0:
        report.not_decided.append("no FilterContext construction bound to a name was found (context may be passed inline)")
    else:
        report.ok("R16.3", "selectors.FilterSelector.resolve", "FilterContext instances are bound to locals only", detail={"sites": n_sites})
    # R16.4
    for q in ("parse.Parser", "environment.JSONPathEnvironment"):
        ci = model.cls(q)
        late = [w for w in sites if w.fn.cls is ci and w.cls not in ("init", "fresh", "exception", "memo")]
        memo = [w for w in sites if w.fn.cls is ci and w.cls == "memo"]
        if memo:
            report.ok("R16.4", q, "key-determined memo entries: single dict operations, atomic under the GIL (A1); a lost update only repeats a computation", detail={"sites": [w.key() for w in memo]})
        if late:
            for w in late:
                report.fail("R16.4", w.fn.qualname, f"shared-write:{w.key()}", f"{q} is shared by every compile()/find(); it is written in {w.fn.name}", file=w.fn.file, line=w.line)
        else:
            report.ok("R16.4", q, "written only under construction")
    for ci_, name_, w in effects.class_level_mutable_writes(model):
        report.fail("R16.4", w.fn.qualname, f"class-level-container-written:{ci_.name}.{name_}:{w.detail}", f"{ci_.name}.{name_} is one container shared by all instances (created in the class body, never rebound per instance); {w.kind} {w.receiver}.{w.detail} makes concurrent compilations / iterators interfere", file=w.fn.file, line=w.line)
    report.extra["explanation"] = "C16: write-effect analysis restricted to evaluation/compile code, frozen-after-construction, context escape."
    report.extra["exhaustive"] = True
