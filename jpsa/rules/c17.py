"""C17 — nondeterministic mode (clauses decided statically; see DESIGN 5/C17).

Decided: shuffles touch only fresh copies of object members (arrays keep index order in both modes);
parent is yielded before its children are expanded; each child is handled exactly once on either
branch of the coin; selectors stay contiguous per visited node; the three randomness sources exist and
are non-degenerate; no random.* call is reachable when the flag is off.
NOT decided: that the queue interleaving preserves relative order for every draw, multiset equality
with the deterministic result, and exhaustiveness (every permitted ordering is producible).
"""

from __future__ import annotations

from ..model import Model
from ..protocol import Report
from . import _segrules
from . import _selrules


def check(model: Model, report: Report) -> None:
    report.rule("R17.1", "object members are shuffled only on a fresh list copy under an isinstance(dict) guard; arrays iterate in index order in both modes; children are paired (value, key)")
    report.rule("R17.2", "nondeterministic visitor: dequeued node is yielded before its children are expanded; each child is yielded-now (and its children queued) or queued, exactly once")
    report.rule("R17.4", "selector results stay contiguous per visited node in both modes")
    report.rule("R17.5", "randomness sources: member shuffle, binary visit-now/later coin with both outcomes, interleaving draw")
    report.rule("R17.6", "no random.* call on any path with env.nondeterministic false")
    report.not_decided += [
        "queue interleaving preserves relative order for every outcome of random.sample",
        "multiset equality with the deterministic result",
        "exhaustiveness: every RFC-permitted ordering is produced by some outcome",
    ]
    _selrules.check_wildcard(model, report, "R17.1", nondet=True)
    _selrules.check_wildcard(model, report, "R17.6", nondet=False)
    _segrules.check_nondet_children(model, report, "R17.1")
    _segrules.check_nondet_visit(model, report, "R17.2", None, "R17.5")
    _segrules.check_descendant_nesting(model, report, "R17.4")
    try:
        from . import _filtersel

        _filtersel.check_filter_selector(model, report, "R17.1", nondet=True)
        _filtersel.check_filter_selector(model, report, "R17.6", nondet=False)
    except ImportError:
        report.not_decided.append("filter selector member shuffle (rule module missing)")
    report.extra["explanation"] = "C17: trace analysis of wildcard/filter selectors and both visitors in nondeterministic mode; generic work-queue iteration."
