"""C17 — nondeterministic mode (clauses decided statically; see DESIGN 5/C17).

Decided: shuffles touch only fresh copies of object members (arrays keep index order in both modes);
parent is yielded before its children are expanded; each child is handled exactly once on either
branch of the coin; selectors stay contiguous per visited node; the three randomness sources exist and
are non-degenerate; no random.* call is reachable when the flag is off.
NOT decided: that the queue interleaving preserves relative order for every draw, multiset equality
with the deterministic result, and exhaustiveness (every permitted ordering is producible).
"""

from __future__ import annotations

from ..model import Model
from ..protocol import Report
from . import _segrules
from . import _selrules


def check_merge_granularity(model: Model, report: Report, rule: str) -> None:
    """Exhaustiveness, a necessary condition: a random order-preserving merge into the work queue takes the children
    of ONE node per draw.  A list that accumulates the children of several siblings before a single draw keeps their
    relative order fixed, so orderings the RFC allows (a later sibling's child before an earlier sibling's child)
    can no longer be produced through that draw."""
    import ast

    from ..model import AnalysisError
    from ..model import walk_own

    ci = model.cls("segments.JSONPathRecursiveDescentSegment")
    fn = ci.find_method("_nondeterministic_visit")
    if fn is None:
        raise AnalysisError("anchor vanished: JSONPathRecursiveDescentSegment._nondeterministic_visit")
    parents: dict = {}
    for n in ast.walk(fn.node):
        for c in ast.iter_child_nodes(n):
            parents[c] = n

    def loops_of(n: ast.AST) -> list:
        out = []
        while n in parents:
            n = parents[n]
            if isinstance(n, (ast.For, ast.While)):
                out.append(n)
        return out

    draws = [n for n in walk_own(fn.node) if isinstance(n, ast.Call) and ast.unparse(n.func) in ("random.sample", "random.shuffle", "random.choices", "sample", "shuffle")]
    recognised = 0
    for d in draws:
        merged = {x.id for a in d.args for x in ast.walk(a) if isinstance(x, ast.Name)}
        d_loops = loops_of(d)
        for name in sorted(merged):
            writes = []
            for n in walk_own(fn.node):
                if isinstance(n, (ast.Assign, ast.AnnAssign)) and any(isinstance(t, ast.Name) and t.id == name for t in (n.targets if isinstance(n, ast.Assign) else [n.target])):
                    writes.append(n)
                elif isinstance(n, ast.AugAssign) and isinstance(n.target, ast.Name) and n.target.id == name:
                    writes.append(n)
                elif isinstance(n, ast.Call) and isinstance(n.func, ast.Attribute) and isinstance(n.func.value, ast.Name) and n.func.value.id == name and n.func.attr in ("extend", "append", "insert", "appendleft", "extendleft"):
                    writes.append(n)
            feeds = [w for w in writes if any(isinstance(c, ast.Call) and "children" in ast.unparse(c.func) for c in ast.walk(w))]
            if not feeds:
                continue  # not a list of children (e.g. the queue itself, rebuilt from the draw)
            for w in feeds:
                extra = [f for f in loops_of(w) if isinstance(f, ast.For) and f not in d_loops]
                if extra:
                    f = extra[0]
                    report.fail(rule, fn.qualname, f"merge-granularity:{name}", f"'{name}' collects the children of every {ast.unparse(f.target)} of the loop at line {f.lineno} and is merged into the queue by one draw after the loop (line {d.lineno}): the relative order of different siblings' children is then fixed, so RFC-permitted orderings that put a later sibling's child before an earlier sibling's child are never produced (the mode is not exhaustive)", file=fn.file, line=d.lineno)
                else:
                    recognised += 1
    # the population of a draw is sized with the CURRENT length of what it interleaves: `[iter(X)] * n` needs n == len(X)
    # at the draw; a length measured before a loop that rebinds X goes stale (entries beyond it are silently dropped)
    for n_ in walk_own(fn.node):
        if not (isinstance(n_, ast.BinOp) and isinstance(n_.op, ast.Mult)):
            continue
        lst, cnt = (n_.left, n_.right) if isinstance(n_.left, ast.List) else (n_.right, n_.left) if isinstance(n_.right, ast.List) else (None, None)
        if lst is None or len(lst.elts) != 1 or not (isinstance(lst.elts[0], ast.Call) and ast.unparse(lst.elts[0].func) == "iter" and lst.elts[0].args and isinstance(lst.elts[0].args[0], ast.Name)):
            continue
        xname = lst.elts[0].args[0].id
        if isinstance(cnt, ast.Call) and ast.unparse(cnt.func) == "len" and cnt.args and isinstance(cnt.args[0], ast.Name) and cnt.args[0].id == xname:
            continue
        if isinstance(cnt, ast.Name):
            loops_here = [f for f in loops_of(n_) if isinstance(f, (ast.For, ast.While))]
            x_rebound_in = [f for f in loops_here if any(isinstance(m, ast.Assign) and any(isinstance(t, ast.Name) and t.id == xname for t in m.targets) for m in ast.walk(f))]
            defs = [m for m in walk_own(fn.node) if isinstance(m, ast.Assign) and any(isinstance(t, ast.Name) and t.id == cnt.id for t in m.targets)]
            for f in x_rebound_in:
                outside = [m for m in defs if f not in loops_of(m)]
                if outside:
                    report.fail(rule, fn.qualname, f"stale-length:{cnt.id}", f"the draw at line {n_.lineno} takes {cnt.id} slots for '{xname}', but {cnt.id} is measured at line {outside[0].lineno}, outside the loop at line {f.lineno} that rebinds '{xname}': after the first rebuild the queue is longer than {cnt.id} and its tail is dropped from the result", file=fn.file, line=n_.lineno)
    if recognised:
        report.ok(rule, fn.qualname, "every interleaving draw merges the children of one node", detail={"draws": len(draws), "feeds": recognised})
    elif not any(f.rule == rule for f in report.findings):
        report.not_decided.append("merge granularity: no order-preserving draw over a list of children was recognised in _nondeterministic_visit")


def check(model: Model, report: Report) -> None:
    report.rule("R17.7", "exhaustiveness (necessary condition): each order-preserving random merge into the work queue takes the children of a single node; children of several siblings are never accumulated into one merged batch")
    report.rule("R17.1", "object members are shuffled only on a fresh list copy under an isinstance(dict) guard; arrays iterate in index order in both modes; children are paired (value, key)")
    report.rule("R17.2", "nondeterministic visitor: dequeued node is yielded before its children are expanded; each child is yielded-now (and its children queued) or queued, exactly once")
    report.rule("R17.4", "selector results stay contiguous per visited node in both modes")
    report.rule("R17.5", "randomness sources: member shuffle, binary visit-now/later coin with both outcomes, interleaving draw")
    report.rule("R17.6", "no random.* call on any path with env.nondeterministic false")
    report.not_decided += [
        "queue interleaving preserves relative order for every outcome of random.sample",
        "multiset equality with the deterministic result",
        "exhaustiveness as a whole: every RFC-permitted ordering is produced by some outcome (decided: the sources of randomness are non-degenerate, R17.5, and merges are per node, R17.7)",
    ]
    _selrules.check_wildcard(model, report, "R17.1", nondet=True)
    _selrules.check_wildcard(model, report, "R17.6", nondet=False)
    _segrules.check_nondet_children(model, report, "R17.1")
    _segrules.check_nondet_visit(model, report, "R17.2", None, "R17.5")
    _segrules.check_descendant_nesting(model, report, "R17.4")
    check_merge_granularity(model, report, "R17.7")
    try:
        from . import _filtersel

        _filtersel.check_filter_selector(model, report, "R17.1", nondet=True)
        _filtersel.check_filter_selector(model, report, "R17.6", nondet=False)
    except ImportError:
        report.not_decided.append("filter selector member shuffle (rule module missing)")
    report.extra["explanation"] = "C17: trace analysis of wildcard/filter selectors and both visitors in nondeterministic mode; generic work-queue iteration."
