"""C07 — index and slice arithmetic.

R07.3  IndexSelector.resolve over the four regions of (i, n): selects V[i] with location key i (i >= 0)
       or n + i (i < 0) exactly when -n <= i < n; nothing otherwise; nothing on non-arrays.  Decided
       for all integers by the octagon domain.
R07.5  SliceSelector.resolve: nothing when step == 0 (guard precedes slice.indices, which raises on 0);
       otherwise zip(range(*S.indices(len(V))), V[S]) with S the selector's own slice object and V the
       node's own value, children paired (element, index).  Host slice semantics = RFC (assumption A2).
R07.6  parse flow: for each of the 12 RFC slice shapes the parser builds slice(start, stop, step) with
       each component the integer of the token at that position, None when omitted.
R07.7  SliceSelector.__init__ stores (start, stop, step) positionally into slice().
"""

from __future__ import annotations

from typing import Any
from typing import List
from typing import Optional

from ..absctx import Unsupported
from ..absint import Interp
from ..absval import *  # noqa: F403
from ..harness import describe
from ..harness import make_stream
from ..harness import make_token
from ..harness import paths
from ..harness import real_env
from ..model import AnalysisError
from ..model import Model
from ..numeric import Lin
from ..protocol import Report
from . import _selrules

SHAPES: List[tuple] = []
for a in (True, False):
    for b in (True, False):
        for tail in ("none", "colon", "colon-step"):
            SHAPES.append((a, b, tail))


def shape_text(sh: tuple) -> str:
    a, b, tail = sh
    return ("a" if a else "") + ":" + ("b" if b else "") + {"none": "", "colon": ":", "colon-step": ":c"}[tail]


def slice_tokens(it: Interp, model: Model, sh: tuple, q: Any) -> tuple:
    a, b, tail = sh
    toks = []
    named = {}

    def index(label: str) -> Inst:
        t = make_token(it, model, "INDEX", label=label, query=q)
        # a well-formed index lexeme inside the configured range (other lexemes: C04 / C05)
        v = t.attrs["value"]
        iv = it.new_int(f"int({label})", -(2**53) + 1, 2**53 - 1)
        it.host.conversions[("int", v.id)] = iv
        it.ctx.world[("int", "of-str", v.id)] = "ok"
        named[label] = iv
        return t

    if a:
        toks.append(index("a"))
    toks.append(make_token(it, model, "COLON", Const(":"), "colon1", q))
    if b:
        toks.append(index("b"))
    if tail in ("colon", "colon-step"):
        toks.append(make_token(it, model, "COLON", Const(":"), "colon2", q))
    if tail == "colon-step":
        toks.append(index("c"))
    toks.append(make_token(it, model, "RBRACKET", Const("]"), "rbracket", q))
    toks.append(make_token(it, model, "EOF", Const(""), "eof", q))
    return toks, named


def check_parse_slice(model: Model, report: Report, rule: str) -> None:
    pci = model.cls("parse.Parser")
    fn = pci.find_method("parse_slice")
    if fn is None:
        raise AnalysisError("anchor vanished: Parser.parse_slice")
    for sh in SHAPES:

        def body(it: Interp, sh=sh) -> Any:
            env = real_env(it, model)
            parser = env.attrs.get("parser")
            if not isinstance(parser, Inst):
                raise AnalysisError("environment has no parser attribute")
            q = it.new_str("query")
            toks, named = slice_tokens(it, model, sh, q)
            st = make_stream(it, model, toks)
            r = it.call_function(fn, [parser, st], {}, None, self_av=parser)
            return r, named, toks, st

        cell = f"parse-slice:[{shape_text(sh)}]"
        try:
            runs = paths(model, body)
        except Unsupported as err:
            report.undecided(rule, fn.qualname, f"{cell}: {err}")
            continue
        good = True
        n_ok = 0
        for run in runs:
            prob = None
            if run.kind == "raise":
                lexeme_conditional = any(
                    isinstance(k, tuple) and ((k[0] == "strpred" and v is True) or (k[0] == "le0" and _about_len(run, k)))
                    for k, v in run.ctx.world.items()
                )
                if lexeme_conditional and run.exc_name() == "JSONPathSyntaxError":
                    continue  # rejection of particular lexemes is C03/C04's business
                if any(isinstance(k, tuple) and k[0] == "int-digit-limit" and v != "ok" for k, v in run.ctx.world.items()):
                    continue  # a component with thousands of digits is out of every index range: C05 / C13
                prob = f"valid slice shape is rejected with {run.exc_name()}"
            else:
                n_ok += 1
                r, named, toks, st = run.value
                sl = r.attrs.get("slice") if isinstance(r, Inst) else None
                if not (isinstance(r, Inst) and r.cls.name == "SliceSelector" and isinstance(sl, SliceV)):
                    prob = f"returns {describe(r)!r}, expected a SliceSelector"
                else:
                    a, b, tail = sh
                    want = {"start": named.get("a"), "stop": named.get("b"), "step": named.get("c")}
                    for comp, w in want.items():
                        got = getattr(sl, comp)
                        if w is None:
                            if not (isinstance(got, Const) and got.value is None):
                                prob = f"{comp} is {describe(got)!r}, expected None (omitted)"
                                break
                        elif not (isinstance(got, IntV) and got.lin == w.lin):
                            prob = f"{comp} is {describe(got)!r}, expected the integer of token '{ {'start':'a','stop':'b','step':'c'}[comp] }'"
                            break
            if prob:
                report.fail(rule, fn.qualname, cell, prob, file=fn.file, line=fn.line, what=cell)
                good = False
        if good and n_ok == 0:
            report.fail(rule, fn.qualname, cell, "no path accepts this valid slice shape", file=fn.file, line=fn.line, what=cell)
            good = False
        if good:
            report.ok(rule, fn.qualname, cell, detail={"paths": len(runs)})
    report.touched(fn.qualname)


def _about_len(run: Any, key: tuple) -> bool:
    """Is this linear atom about the length of a token lexeme?"""
    names = run.ctx.names
    try:
        vars_ = [v for v, _c in key[1][0]]
    except Exception:  # noqa: BLE001
        return False
    return any(str(names.get(v, "")).startswith("len(") and ".value" in str(names.get(v, "")) for v in vars_)


def check_slice_init(model: Model, report: Report, rule: str) -> None:
    ci = model.cls("selectors.SliceSelector")
    for comps in ([True, True, True], [False, False, False], [True, False, True]):

        def body(it: Interp, comps=comps) -> Any:
            env = real_env(it, model)
            tok = make_token(it, model, "INDEX", label="tok")
            vals = []
            for name, present in zip(("start", "stop", "step"), comps):
                vals.append(it.new_int(name, -(2**53) + 1, 2**53 - 1) if present else Const(None))
            kw = {"env": env, "token": tok, "start": vals[0], "stop": vals[1], "step": vals[2]}
            r = it.instantiate(ci, [], kw, None)
            return r, vals

        cell = f"slice-init:{''.join('x' if c else '-' for c in comps)}"
        try:
            runs = paths(model, body)
        except Unsupported as err:
            report.undecided(rule, "selectors.SliceSelector.__init__", f"{cell}: {err}")
            continue
        good = True
        for run in runs:
            prob = None
            if run.kind == "raise":
                prob = f"in-range components are rejected with {run.exc_name()}"
            else:
                r, vals = run.value
                sl = r.attrs.get("slice")
                if not isinstance(sl, SliceV):
                    prob = f"self.slice is {describe(sl)!r}, expected slice(start, stop, step)"
                else:
                    for comp, w in zip(("start", "stop", "step"), vals):
                        got = getattr(sl, comp)
                        same = (got is w) or (isinstance(got, IntV) and isinstance(w, IntV) and got.lin == w.lin) or (isinstance(got, Const) and isinstance(w, Const) and got.value == w.value)
                        if not same:
                            prob = f"slice.{comp} is {describe(got)!r}, expected the {comp} argument unchanged"
                            break
            if prob:
                fi = ci.find_method("__init__")
                report.fail(rule, "selectors.SliceSelector.__init__", cell, prob, file=fi.file if fi else "", line=fi.line if fi else 0)
                good = False
        if good:
            report.ok(rule, "selectors.SliceSelector.__init__", cell)


def check(model: Model, report: Report) -> None:
    report.rule("R07.3", "index selection and location normalisation over the four regions of (i, n)")
    report.rule("R07.5", "slice selection: zero-step guard; same slice object and same list for indices and elements; pairing")
    report.rule("R07.6", "slice parsing: token at each position reaches start/stop/step; omitted parts stay None")
    report.rule("R07.8", "index and slice tokens of whole-query shapes reach the selectors as the integers they spell (sign kept, order kept)")
    report.rule("R07.7", "SliceSelector stores its components positionally")
    report.assumptions += ["A2: slice(start, stop, step).indices(n) and list[slice] implement RFC 9535 2.3.4.2.2 for step != 0"]
    report.not_decided += ["assumption A2 itself (host slice semantics)"]
    _selrules.check_index(model, report, "R07.3")
    _selrules.check_slice(model, report, "R07.5")
    check_parse_slice(model, report, "R07.6")
    check_slice_init(model, report, "R07.7")
    from . import _shapes

    _shapes.check_query_trees(model, report, "R07.8")
    report.extra["explanation"] = "C07: index regions decided for all integers by linear forms + octagon; slice delegation shape; 12 slice token shapes through the interpreted parser."
