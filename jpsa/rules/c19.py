"""C19 — reported error positions are real positions in the query text."""

from __future__ import annotations

import ast
from typing import Any
from typing import Dict
from typing import List
from typing import Optional
from typing import Tuple

from ..absctx import Unsupported
from ..absint import Interp
from ..absval import *  # noqa: F403
from ..harness import describe
from ..harness import make_token
from ..harness import paths
from ..model import AnalysisError
from ..model import Model
from ..model import walk_own
from ..numeric import Lin
from ..protocol import Report


def _text_scan(it: Interp, v: Any, query: SymStr, index: IntV) -> Optional[Tuple[str, int]]:
    """If v = k + <query.count/rfind('\\n', 0, index)> return (method, k)."""
    if not isinstance(v, IntV) or len(v.lin.coefs) != 1:
        return None
    (var, c), = v.lin.coefs.items()
    org = it.host.int_origin.get(var)
    if org is None or c not in (1, -1):
        return None
    recv, name, args = org
    # receiver: the query itself with bounds (0, index), or the prefix query[:index] without bounds
    ok = False
    if recv is query and len(args) == 3:
        a0, a1, a2 = args
        ok = isinstance(a0, Const) and a0.value == "\n" and isinstance(a1, Const) and a1.value == 0 and isinstance(a2, IntV) and a2.lin == index.lin
    elif isinstance(recv, SymStr) and recv.origin and recv.origin[0] == "substr" and recv.origin[1] is query and len(args) == 1:
        _, _q, lo, hi = recv.origin
        ok = isinstance(args[0], Const) and args[0].value == "\n" and lo == Lin.k(0) and hi == index.lin
    if not ok:
        return ("wrong-text", 0)
    return (name if c == 1 else "-" + name, v.lin.const)


def check_position(model: Model, report: Report, rule: str) -> None:
    tci = model.cls("tokens.Token")
    fn = tci.find_method("position")
    if fn is None:
        raise AnalysisError("anchor vanished: Token.position")

    def body(it: Interp) -> Any:
        q = it.new_str("query")
        lexeme = it.new_str("lexeme")
        tok = make_token(it, model, "ERROR", lexeme, "tok", q)
        idx = tok.attrs["index"]
        it.ctx.assume_le0(idx.lin - Lin.var(q.len_var))
        r = it.call_function(fn, [tok], {}, None, self_av=tok)
        return r, q, idx, it

    key = "position:line=count(LF in query[:index])+1,column=index-rfind(LF)-1"
    try:
        runs = paths(model, body)
    except Unsupported as err:
        report.undecided(rule, fn.qualname, f"{key}: {err}")
        return
    bad = None
    for run in runs:
        if run.kind == "raise":
            bad = f"position() raises {run.exc_name()}"
            continue
        r, q, idx, it = run.value
        if not (isinstance(r, PyTuple) and len(r.items) == 2):
            bad = f"position() returns {describe(r)!r}, expected (line, column)"
            continue
        line, col = r.items
        ls = _text_scan(it, line, q, idx)
        if ls is None:
            bad = f"the line number {describe(line)!r} is not derived from the line breaks of the query text before the offset"
        elif ls[0] == "wrong-text":
            bad = "the line number is computed from another text than the query (or other bounds than [0, index)), so it is wrong as soon as a line break precedes the error"
        elif ls != ("count", 1):
            bad = f"the line number is {ls[0]} {ls[1]:+d}, expected count of LF in query[:index] + 1"
        # column = index - rfind - 1
        if bad is None:
            if not isinstance(col, IntV):
                bad = f"the column {describe(col)!r} is not computed from the offset"
            else:
                rest = col.lin - idx.lin
                cs = _text_scan(it, IntV(rest), q, idx)
                if cs is None:
                    bad = f"the column {describe(col)!r} is not index minus the position of the last line break"
                elif cs[0] == "wrong-text":
                    bad = "the column is computed from another text than the query, so it keeps counting from the start of the query after a line break"
                elif cs != ("-rfind", -1):
                    bad = f"the column is index {cs[0]} {cs[1]:+d}, expected index - rfind(LF before index) - 1"
    if bad:
        report.fail(rule, fn.qualname, "position-formula", bad, file=fn.file, line=fn.line)
    else:
        report.ok(rule, fn.qualname, key)
    report.touched(fn.qualname)


def check_no_stale_position(model: Model, report: Report, rule: str) -> None:
    """position() / __str__ run on every call, or are cached under a key that determines everything they read
    (effects.cache_key_problem: functools caches key a method on the instance through __eq__/__hash__)."""
    from .. import effects

    for cq, mname in (("tokens.Token", "position"), ("exceptions.JSONPathError", "__str__")):
        ci = model.cls(cq)
        fn = ci.find_method(mname)
        if fn is None:
            continue
        cached = effects.cache_decorators(fn)
        key = f"{ci.name}.{mname}:fresh-or-faithfully-cached"
        why = effects.cache_key_problem(model, fn) if cached else None
        if why:
            report.fail(rule, fn.qualname, f"{ci.name}.{mname}:cache-key", f"{ci.name}.{mname} is cached with @{cached[0]} and {why}, so a later error can be reported with the line/column computed for another query text", file=fn.file, line=fn.line)
        else:
            report.ok(rule, fn.qualname, key, detail={"cache": cached})


def check_str(model: Model, report: Report, rule: str) -> None:
    eci = model.cls("exceptions.JSONPathError")
    fn = eci.find_method("__str__")
    tci = model.cls("tokens.Token")
    pos = tci.find_method("position")
    if fn is None or pos is None:
        raise AnalysisError("anchor vanished: JSONPathError.__str__ / Token.position")
    for with_token in (True, False):

        def body(it: Interp, with_token=with_token) -> Any:
            e = it.harness_inst(eci, "error")
            msg = it.new_str("message")
            e.attrs["args"] = PyTuple((msg,))
            L, C = it.new_int("LINE"), it.new_int("COLUMN")
            if with_token:
                tok = make_token(it, model, "ERROR", label="tok")
                e.attrs["token"] = tok
                it.hooks[pos.qualname] = lambda interp, fi, args, kw, n: PyTuple((L, C))
            else:
                e.attrs["token"] = Const(None)
            return it.call_function(fn, [e], {}, None, self_av=e), msg, L, C

        key = f"str:{'with' if with_token else 'without'}-token"
        try:
            runs = paths(model, body)
        except Unsupported as err:
            report.undecided(rule, fn.qualname, f"{key}: {err}")
            continue
        bad = None
        for run in runs:
            if run.kind == "raise":
                bad = f"str(error) raises {run.exc_name()}"
                continue
            r, msg, L, C = run.value
            if not with_token:
                if r is not msg:
                    bad = f"str(error) without a token is {describe(r)!r}, expected the message"
                continue
            from ..harness import str_parts

            parts = str_parts(r) if isinstance(r, Term) else None
            if parts is None:
                bad = f"str(error) is {describe(r)!r}, expected message + ', line L, column C'"
                continue
            dyn = [p for p in parts if not isinstance(p, Const)]

            def is_str_of(p: Any, v: IntV) -> bool:
                return isinstance(p, Term) and p.op == "str" and isinstance(p.args[0], IntV) and p.args[0].lin == v.lin

            if len(dyn) != 3 or dyn[0] is not msg or not is_str_of(dyn[1], L) or not is_str_of(dyn[2], C):
                bad = f"str(error) renders {[describe(p) for p in parts]!r}: the pair returned by position() must be printed unchanged as line then column"
                continue
            consts = "".join(p.value for p in parts if isinstance(p, Const)).lower()
            if consts.find("line") == -1 or consts.find("column") == -1 or consts.find("line") > consts.find("column"):
                bad = f"the position suffix is {consts!r}, expected '..., line L, column C'"
        if bad:
            report.fail(rule, fn.qualname, key, bad, file=fn.file, line=fn.line)
        else:
            report.ok(rule, fn.qualname, key)
    report.touched(fn.qualname)


def check_token_sites(model: Model, report: Report, rule: str) -> None:
    """Every Token(...) built by the lexer carries (text of the query | message, an offset of the query, the query)."""
    lex = model.module("lex")
    tci = model.cls("tokens.Token")
    n = 0
    for fi in model.functions.values():
        if fi.module is not lex:
            continue
        lexer_names = {"self", "l", "lexer"}
        for node in walk_own(fi.node):
            if not (isinstance(node, ast.Call) and model.resolve_expr_static(lex, node.func) == ("class", tci)):
                continue
            n += 1
            args = list(node.args)
            kw = {k.arg: k.value for k in node.keywords}
            params = ["type_", "value", "index", "query", "message"]
            bound = {p: (args[i] if i < len(args) else kw.get(p)) for i, p in enumerate(params)}
            q, idx, val = bound["query"], bound["index"], bound["value"]
            site = fi.qualname
            key = f"token-site:{fi.name}:{ast.unparse(bound['type_']) if bound['type_'] is not None else '?'}"
            prob = None
            if not (isinstance(q, ast.Attribute) and q.attr == "query" and isinstance(q.value, ast.Name) and q.value.id in lexer_names):
                prob = f"the token's query is {ast.unparse(q) if q is not None else None}, expected the lexer's query text"
            else:
                owner = q.value.id
                # offset: lexer.pos / lexer.start / a local taken from the lexer's bracket stack / arithmetic +-1 thereof
                names = {x.id for x in ast.walk(idx) if isinstance(x, ast.Name)} if idx is not None else set()
                attrs = {x.attr for x in ast.walk(idx) if isinstance(x, ast.Attribute)} if idx is not None else set()
                if idx is None or isinstance(idx, ast.Constant):
                    prob = f"the token's index is the constant {ast.unparse(idx) if idx is not None else None}"
                elif attrs and not attrs <= {"pos", "start"}:
                    prob = f"the token's index {ast.unparse(idx)} is not an offset of the query"
                elif not attrs:
                    # a local: must come from the bracket stack (index component)
                    ok = False
                    for st in walk_own(fi.node):
                        if isinstance(st, ast.Assign) and isinstance(st.targets[0], ast.Tuple) and "bracket_stack" in ast.unparse(st.value):
                            tnames = [e.id for e in st.targets[0].elts if isinstance(e, ast.Name)]
                            if len(tnames) == 2 and tnames[1] in names:
                                ok = True
                    if not ok:
                        prob = f"the token's index {ast.unparse(idx)} cannot be traced to an offset of the query"
                # lexeme: query[a:b] with b the current position, or a message (ERROR tokens)
                if prob is None and isinstance(val, ast.Subscript):
                    if not (isinstance(val.value, ast.Attribute) and val.value.attr == "query"):
                        prob = f"the token's text {ast.unparse(val)} is not cut from the query"
                    elif isinstance(val.slice, ast.Slice) and idx is not None and val.slice.lower is not None and ast.unparse(val.slice.lower) != ast.unparse(idx):
                        prob = f"the token's text starts at {ast.unparse(val.slice.lower)} but its index is {ast.unparse(idx)}"
            if prob:
                report.fail(rule, site, key, prob, file=fi.file, line=node.lineno)
            else:
                report.ok(rule, site, key)
    if n < 4:
        raise AnalysisError(f"only {n} Token(...) construction sites found in lex.py (expected at least 4)")
    # tokens built anywhere else (parser, token stream, helpers): the only offsets of the query known there are the ones
    # the lexer recorded on existing tokens, so a new token must reuse one unchanged together with that token's query
    for fi in model.functions.values():
        if fi.module is lex or fi.module.short.startswith("utils."):
            continue
        for node in walk_own(fi.node):
            if not (isinstance(node, ast.Call) and model.resolve_expr_static(fi.module, node.func) == ("class", tci)):
                continue
            args = list(node.args)
            kw = {k.arg: k.value for k in node.keywords}
            params = ["type_", "value", "index", "query", "message"]
            bound = {p: (args[i] if i < len(args) else kw.get(p)) for i, p in enumerate(params)}
            idx, q = bound["index"], bound["query"]
            key = f"token-site:{fi.qualname}:{ast.unparse(bound['type_']) if bound['type_'] is not None else '?'}"

            def resolve_local(e: Any) -> Any:
                if isinstance(e, ast.Name):
                    defs = [st.value for st in walk_own(fi.node) if isinstance(st, ast.Assign) and any(isinstance(t, ast.Name) and t.id == e.id for t in st.targets)]
                    if len(defs) == 1:
                        return defs[0]
                return e

            idx_r = resolve_local(idx)
            sentinel = isinstance(idx_r, ast.UnaryOp) and isinstance(idx_r.op, ast.USub) and isinstance(idx_r.operand, ast.Constant) and isinstance(q, ast.Constant) and q.value == ""
            if sentinel:
                report.ok(rule, fi.qualname, key + " (end-of-stream sentinel without a query)")
            elif isinstance(idx_r, ast.Attribute) and idx_r.attr == "index" and isinstance(q, ast.Attribute) and q.attr == "query" and ast.unparse(q.value) == ast.unparse(idx_r.value):
                report.ok(rule, fi.qualname, key + f" (reuses {ast.unparse(idx_r)})")
            else:
                report.fail(rule, fi.qualname, key, f"a token is built outside the lexer with index {ast.unparse(idx_r) if idx_r is not None else None} and query {ast.unparse(q) if q is not None else None}: only offsets the lexer recorded are known to lie inside the query text; arithmetic on them (e.g. adding a position inside a decoded or rewritten literal) can point past the end of the query", file=fi.file, line=node.lineno)
    # bracket stack entries are (char, offset of that char)
    for fi in model.functions.values():
        if fi.module is not lex:
            continue
        for node in walk_own(fi.node):
            if isinstance(node, ast.Call) and isinstance(node.func, ast.Attribute) and node.func.attr == "append" and "bracket_stack" in ast.unparse(node.func.value) and node.args:
                a = node.args[0]
                okk = isinstance(a, ast.Tuple) and len(a.elts) == 2 and ast.unparse(a.elts[1]) in ("l.pos - 1", "l.pos", "self.pos - 1", "self.pos")
                if okk:
                    report.ok(rule, fi.qualname, f"bracket-stack-entry:{ast.unparse(a)}")
                else:
                    report.fail(rule, fi.qualname, f"bracket-stack-entry:{ast.unparse(a)}", f"bracket stack entry {ast.unparse(a)} does not record an offset of the query", file=fi.file, line=node.lineno)


def check_raise_sites(model: Model, report: Report, rule: str) -> None:
    base = model.cls("exceptions.JSONPathError")
    compile_modules = {"lex", "parse", "tokens", "environment", "selectors", "segments", "query"}
    n = 0
    for fi in model.functions.values():
        if fi.module.short not in compile_modules:
            continue
        # evaluation-time raises in resolve/evaluate are outside "compile() rejects a query"
        if fi.name in ("resolve", "evaluate", "_visit", "_nondeterministic_visit", "__call__"):
            continue
        for node in walk_own(fi.node):
            if not isinstance(node, ast.Raise) or node.exc is None or not isinstance(node.exc, ast.Call):
                continue
            r = model.resolve_expr_static(fi.module, node.exc.func)
            if not (r and r[0] == "class" and r[1].is_subclass_of(base)):
                continue
            n += 1
            kws = {k.arg for k in node.exc.keywords}
            key = f"raise:{r[1].name}:{_msg(node.exc)}"
            if "token" not in kws:
                report.fail(rule, fi.qualname, key, f"raise {r[1].name}(...) does not pass token=...; extra positional arguments end up in the message and error.token stays unset, so no position can be reported", file=fi.file, line=node.lineno)
            else:
                report.ok(rule, fi.qualname, key)
    if n < 20:
        raise AnalysisError(f"only {n} compile-time raise sites found (expected more than 20)")


def _msg(call: ast.Call) -> str:
    if call.args:
        a = call.args[0]
        if isinstance(a, ast.Constant):
            return str(a.value)[:40]
        if isinstance(a, ast.JoinedStr):
            return "".join(v.value if isinstance(v, ast.Constant) else "{}" for v in a.values)[:40]
        return ast.unparse(a)[:40]
    return ""


def check_error_classes(model: Model, report: Report, rule: str) -> None:
    """Every JSONPathError subclass keeps the token it is constructed with (so a position can be printed)."""
    base = model.cls("exceptions.JSONPathError")
    for ci in model.subclasses(base, strict=False):

        def body(it: Interp, ci=ci) -> Any:
            tok = make_token(it, model, "ERROR", label="tok")
            e = it.instantiate(ci, [Const("message")], {"token": tok}, None)
            return e, tok

        key = f"error-class:{ci.name}:keeps-token"
        try:
            runs = paths(model, body)
        except Unsupported as err:
            report.undecided(rule, ci.qualname, f"{key}: {err}")
            continue
        bad = None
        for run in runs:
            if run.kind == "raise":
                bad = f"{ci.name}(message, token=...) raises {run.exc_name()}"
                continue
            e, tok = run.value
            if e.attrs.get("token") is not tok:
                bad = f"{ci.name}(message, token=t) leaves error.token = {describe(e.attrs.get('token'))!r}: the error has no offset and str(error) prints no line/column"
        init = ci.find_method("__init__")
        if bad:
            report.fail(rule, ci.qualname, key, bad, file=init.file if init else "", line=init.line if init else 0)
        else:
            report.ok(rule, ci.qualname, key)


def check(model: Model, report: Report) -> None:
    report.rule("R19.1", "Token.position(): line = 1 + number of LF in query[0:index], column = index - (offset of the last LF before index) - 1, both read from the QUERY text")
    report.rule("R19.2", "every Token built by the lexer carries an offset of the query (pos/start or a recorded bracket offset), the query itself, and text cut from the query at that offset")
    report.rule("R19.3", "every compile-time raise of a JSONPathError subclass passes the token by keyword")
    report.rule("R19.5", "every JSONPathError subclass stores the token it is constructed with")
    report.rule("R19.4", "str(error) appends the (line, column) pair of position() unchanged")
    report.assumptions += ["A1: str.count/rfind with (sub, start, end) semantics; line breaks are LF"]
    report.not_decided += ["that the token chosen for an error is the most helpful one; only that its offset lies in the query and is rendered faithfully"]
    from . import _pipeline

    report.rule("R19.6", "the query a token refers to is the caller's text itself: tokenize() hands the unmodified string to the lexer, which stores it unchanged and starts at offset 0")
    _pipeline.check_tokenize_setup(model, report, "R19.6")
    check_position(model, report, "R19.1")
    report.rule("R19.7", "position() and str(error) are evaluated on the token at hand: uncached, or cached under a key (__eq__/__hash__) that covers every attribute they read")
    report.rule("R19.8", "the lexer's pointer stays inside the query: no step hands over with pos > len(query) to a state that then reports an error at that pointer")
    check_no_stale_position(model, report, "R19.7")
    check_token_sites(model, report, "R19.2")
    check_raise_sites(model, report, "R19.3")
    check_str(model, report, "R19.4")
    check_error_classes(model, report, "R19.5")
    from . import _lexstates

    _lexstates.check_pointer_in_range(model, report, "R19.8")
    report.extra["explanation"] = "C19: position formula compared as linear forms over text-scan terms whose receiver/bounds must be the query and [0,index); constructor-site and raise-site rules over the AST."
