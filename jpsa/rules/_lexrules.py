"""LEX: accepted lexeme languages per token position (regex ∩ parser predicates ∩ converter domain)
compared with the RFC 9535 terminals.  Shared by C03 (rfc-only divergences) and C04 (impl-only)."""

from __future__ import annotations

import ast
from typing import Any
from typing import Callable
from typing import Dict
from typing import List
from typing import Optional
from typing import Tuple

from ..absctx import Unsupported
from ..absint import Interp
from ..absval import *  # noqa: F403
from ..automata import Alt
from ..automata import Chars
from ..automata import CharSet
from ..automata import Divergence
from ..automata import Eps
from ..automata import Lang
from ..automata import Rep
from ..automata import Rx
from ..automata import Seq
from ..automata import category
from ..automata import common_partition
from ..automata import from_sre
from ..automata import lit
from ..automata import opt
from ..automata import plus
from ..automata import star
from ..harness import describe
from ..harness import make_stream
from ..harness import make_token
from ..harness import paths
from ..harness import real_env
from ..model import AnalysisError
from ..model import Model
from ..numeric import Lin
from ..oracle import rfc9535 as R
from ..protocol import Report

ANY = Chars(CharSet.any())
SIGMA_STAR = star(ANY)


# ------------------------------------------------------------ lexer regexes
def lexer_patterns(model: Model) -> Dict[str, str]:
    """Module-level regex constants of the lexer: every name bound to `re.compile(<constant expression>)`.

    The pattern expression is evaluated by the interpreter (constant folding only), so implicit concatenation,
    `+`, f-strings and shared module-level fragments are all fine."""
    from ..absctx import Ctx

    lex = model.module("lex")
    out: Dict[str, str] = {}
    it = Interp(model, Ctx([]))
    for name, expr in lex.assigns.items():
        if not (isinstance(expr, ast.Call) and ast.unparse(expr.func) in ("re.compile", "regex.compile") and expr.args):
            continue
        try:
            v = it.module_global(lex, name)
        except (Unsupported, AnalysisError):
            continue
        if isinstance(v, Term) and v.op == "re.compile" and v.args and isinstance(v.args[0], Const) and isinstance(v.args[0].value, str):
            if len(expr.args) > 1 or expr.keywords:
                raise AnalysisError(f"lex.{name}: regex flags are not modelled")
            out[name] = v.args[0].value
    return out


_TOKRE_CACHE: Dict[int, Dict[str, List[str]]] = {}


def token_regexes(model: Model) -> Dict[str, List[str]]:
    """TokenType name -> names of the regex constants whose match is emitted as that token.

    Read off the interpreted lexer states: on every path of one generic iteration that emits exactly one token whose
    text is what a regex constant just matched at the pointer, that constant recognises that token type (whatever
    the control flow around it looks like: if/elif ladders, guard clauses, match statements, helpers)."""
    if id(model) in _TOKRE_CACHE:
        return _TOKRE_CACHE[id(model)]
    from . import _lexstates

    pats = lexer_patterns(model)
    by_pattern: Dict[str, List[str]] = {}
    for name, p_ in pats.items():
        by_pattern.setdefault(p_, []).append(name)
    out: Dict[str, List[str]] = {}
    configs = [("lex_shorthand_selector", dict(filter_depth=0)), ("lex_descendant_segment", dict(filter_depth=0)),
               ("lex_inside_bracketed_segment", dict(filter_depth=0, bracket_top="[")),
               ("lex_inside_filter", dict(filter_depth=1, bracket_top="[")), ("lex_inside_filter", dict(filter_depth=1, bracket_top="(", in_function=1))]
    for state, cfg in configs:
        try:
            steps = _lexstates.lexer_iteration(model, state, **cfg)
        except (Unsupported, AnalysisError):
            continue
        for s_ in steps:
            if s_.error or s_.raised or len(s_.tokens) != 1:
                continue
            matched = [pt for pt, ok, off in s_.regex if ok and not _lexstates.pat_is_blank(pt)]
            if len(matched) != 1:
                continue
            ttype = s_.tokens[0][0]
            for name in by_pattern.get(matched[0], []):
                out.setdefault(ttype, [])
                if name not in out[ttype]:
                    out[ttype].append(name)
    _TOKRE_CACHE[id(model)] = out
    return out


# ------------------------------------------------------- converter domains
def _digitpart() -> Rx:
    d = Chars(category("digit"))
    return Seq(d, star(Seq(opt(lit("_")), d)))


def dom_int() -> Rx:
    ws = star(Chars(category("space")))
    return Seq(ws, opt(Chars(CharSet.of("+-"))), _digitpart(), ws)


def dom_float() -> Rx:
    ws = star(Chars(category("space")))
    dp = _digitpart()
    mant = Alt(Seq(dp, opt(Seq(lit("."), opt(dp)))), Seq(lit("."), dp))
    ex = opt(Seq(Chars(CharSet.of("eE")), opt(Chars(CharSet.of("+-"))), dp))

    def ci(word: str) -> Rx:
        return Seq(*[Chars(CharSet.of(c.lower() + c.upper())) for c in word])

    special = Alt(ci("inf"), ci("infinity"), ci("nan"))
    return Seq(ws, opt(Chars(CharSet.of("+-"))), Alt(Seq(mant, ex), special), ws)


# ---------------------------------------------------------- atom compilers
class AtomError(Exception):
    pass


def _stripped(origin: Any, value: SymStr) -> Optional[Tuple[str, CharSet]]:
    """origin is value.lstrip(<constant chars>) / value.rstrip(...): (side, the stripped character set)."""
    if isinstance(origin, Term) and origin.op == "strmeth" and origin.args[0] is value and origin.args[1] in ("lstrip", "rstrip"):
        a = origin.args[2]
        if len(a) == 1 and isinstance(a[0], Const) and isinstance(a[0].value, str) and a[0].value:
            return origin.args[1], CharSet.of(a[0].value)
    return None


def _strpart_atom(info: Any, value: SymStr) -> Rx:
    """Atoms about a piece of `value.partition(c)`: a conversion succeeding on it, or the piece being non-empty,
    expressed as a language of the lexeme.  With NS = strings without c:  head = the part before the first c (all of
    it if there is none), tail = the part after the first c ("" if there is none)."""
    recv = info["recv"]
    base, meth, sep, k = recv.args
    folded = None
    if isinstance(base, Term) and base.op == "strmeth" and base.args[0] is value and base.args[1] in ("lower", "upper", "casefold"):
        folded = base.args[1]
    elif base is not value:
        raise AtomError("partition of something else than the lexeme")
    if meth != "partition" or len(sep) != 1:
        raise AtomError("only partition() on a one-character separator is modelled")
    seps = sep
    if folded:
        # pieces of lexeme.lower(): the separator stands for both of its cases in the lexeme itself, provided the
        # folded separator can occur at all and the converter domain is indifferent to case (it has no letters)
        want = sep.lower() if folded in ("lower", "casefold") else sep.upper()
        if want != sep or not sep.isascii():
            raise AtomError("partition of a case-folded lexeme at a separator the folding removes")
        seps = sep.lower() + sep.upper() if sep.lower() != sep.upper() else sep
        if info["kind"] == "convert" and info["which"] != "int":
            raise AtomError("conversion of a piece of a case-folded lexeme other than int()")
    c = Chars(CharSet.of(seps))
    ns1 = Chars(CharSet.of(seps).negate())
    NS = star(ns1)
    if info["kind"] == "nonempty":
        if k == 0:
            return Seq(ns1, NS, opt(Seq(c, SIGMA_STAR)))
        if k == 1:
            return Seq(NS, c, SIGMA_STAR)
        return Seq(NS, c, Chars(CharSet([(0, 0x10FFFF)])), SIGMA_STAR)
    D = dom_int() if info["which"] == "int" else dom_float()
    # the converter domain must not contain the separator, so that D within NS is D itself
    if any(accepts_some_with(D, ch_) for ch_ in seps):
        raise AtomError(f"the domain of {info['which']}() contains the separator {sep!r}")
    if k == 0:
        return Seq(D, opt(Seq(c, SIGMA_STAR)))
    if k == 2:
        return Seq(NS, c, D)  # "" is in no converter domain, so a lexeme without the separator fails
    raise AtomError("conversion of the separator piece")


def accepts_some_with(rx: Rx, ch: str) -> bool:
    """Does the language of rx contain a string with the character ch?"""
    probe = Seq(SIGMA_STAR, Chars(CharSet.of(ch)), SIGMA_STAR)
    classes = common_partition([rx, probe])
    both = Lang.from_rx(rx, classes).product(Lang.from_rx(probe, classes), "and").minimize()
    return both.shortest() is not None


def atom_rx(run: Any, key: Any, value: SymStr) -> Rx:
    """Language (over the token's lexeme) of an atom being TRUE."""
    ctx = run.ctx
    info = ctx.atom_info.get(key)
    if info is not None and info["kind"] == "strpred" and _stripped(info["recv"], value) and info["name"] == "startswith" and _stripped(info["recv"], value)[0] == "lstrip":
        _side, cs = _stripped(info["recv"], value)
        a = info["args"][0] if len(info["args"]) == 1 else None
        consts = [a] if isinstance(a, Const) else list(a.items) if isinstance(a, PyTuple) else None
        if consts is None or not all(isinstance(c, Const) and isinstance(c.value, str) and c.value for c in consts):
            raise AtomError("startswith on a stripped lexeme with a non-constant or empty prefix")
        # the stripped text never starts with a stripped character
        alts = [lit(c.value) for c in consts if not cs.contains(ord(c.value[0]))]
        if not alts:
            return Chars(CharSet())
        return Seq(star(Chars(cs)), Alt(*alts) if len(alts) > 1 else alts[0], SIGMA_STAR)
    if info is not None and info["kind"] == "strpred":
        if info["recv"] is not value:
            raise AtomError(f"string predicate on {describe(info['recv'])!r}, not on the lexeme")
        args = info["args"]
        if len(args) != 1:
            raise AtomError(f"{info['name']} with {len(args)} arguments")
        a = args[0]
        consts = [a] if isinstance(a, Const) else list(a.items) if isinstance(a, PyTuple) else None
        if consts is None or not all(isinstance(c, Const) and isinstance(c.value, str) for c in consts):
            raise AtomError(f"{info['name']} with non-constant argument")
        alts = Alt(*[lit(c.value) if c.value else Eps() for c in consts])
        if info["name"] == "startswith":
            return Seq(alts, SIGMA_STAR)
        if info["name"] == "endswith":
            return Seq(SIGMA_STAR, alts)
        raise AtomError(f"string predicate {info['name']}")
    if info is not None and info["kind"] == "regex":
        if info["subject"] is not value or info["pos"] is not None:
            raise AtomError("regex applied to something else than the whole lexeme")
        pat = info["pattern"]
        if not (isinstance(pat, Const) and isinstance(pat.value, str)):
            raise AtomError("dynamic regex")
        return from_sre(pat.value, mode=info["mode"] if info["mode"] in ("match", "fullmatch") else "search")
    if info is not None and info["kind"] == "contains":
        if info["recv"] is not value:
            raise AtomError("substring test on something else than the lexeme")
        item = info["item"]
        if not isinstance(item, str) or not item:
            raise AtomError("substring test with a non-constant needle")
        return Seq(SIGMA_STAR, lit(item), SIGMA_STAR)
    if info is not None and info["kind"] in ("convert", "nonempty") and isinstance(info["recv"], Term) and info["recv"].op == "strpart":
        return _strpart_atom(info, value)
    if info is not None and info["kind"] == "convert":
        if info["recv"] is not value:
            raise AtomError("conversion of something else than the lexeme")
        return dom_int() if info["which"] == "int" else dom_float()
    if isinstance(key, tuple) and key[0] == "le0":
        (coefs, const) = key[1]
        if len(coefs) != 1:
            raise AtomError("length comparison between two symbolic quantities")
        (var, c), = coefs
        origin = ctx.len_origin.get(var)
        if origin is None:
            raise AtomError(f"comparison on {ctx.names.get(var)!r} is not about the lexeme")
        # c*len + const <= 0
        if c > 0:
            m = (-const) // c  # len <= m
            length_rx = lambda unit: Rep(unit, 0, m) if m >= 0 else None  # noqa: E731
        else:
            cc = -c
            m = (const + cc - 1) // cc  # len >= ceil(const / cc)
            length_rx = lambda unit: Rep(unit, max(m, 0), None)  # noqa: E731
        if origin is value:
            r = length_rx(ANY)
            return r if r is not None else Chars(CharSet())
        st = _stripped(origin, value)
        if st is not None and st[0] == "lstrip":
            # value = C* rest, rest empty or starting outside C; the atom bounds len(rest)
            cs = st[1]
            notc = Chars(cs.negate())
            if c > 0:
                m = (-const) // c  # len(rest) <= m
                if m < 0:
                    return Chars(CharSet())
                rest = Alt(Eps(), Seq(notc, Rep(ANY, 0, m - 1))) if m >= 1 else Eps()
            else:
                cc = -c
                m = (const + cc - 1) // cc  # len(rest) >= m
                rest = Seq(notc, Rep(ANY, max(m - 1, 0), None)) if m >= 1 else Alt(Eps(), Seq(notc, SIGMA_STAR))
            return Seq(star(Chars(cs)), rest)
        # value.split(sep)[0]
        if isinstance(origin, Term) and origin.op == "getitem" and isinstance(origin.args[1], Const) and origin.args[1].value == 0:
            base = origin.args[0]
            if isinstance(base, Term) and base.op == "strmeth" and base.args[0] is value and base.args[1] == "split" and len(base.args[2]) == 1 and isinstance(base.args[2][0], Const) and len(base.args[2][0].value) == 1:
                sep = base.args[2][0].value
                notsep = Chars(CharSet.of(sep).negate())
                r = length_rx(notsep)
                if r is None:
                    return Chars(CharSet())
                return Seq(r, opt(Seq(lit(sep), SIGMA_STAR)))
        # a piece of value.partition(c) (possibly of the case-folded value: folding keeps lengths for ASCII separators)
        if isinstance(origin, Term) and origin.op == "strpart":
            base, meth, sep, k = origin.args
            folded = isinstance(base, Term) and base.op == "strmeth" and base.args[0] is value and base.args[1] in ("lower", "upper", "casefold")
            if (base is value or folded) and meth == "partition" and len(sep) == 1 and sep.isascii():
                seps = sep.lower() + sep.upper() if folded and sep.lower() != sep.upper() else sep
                cset = Chars(CharSet.of(seps))
                notsep = Chars(CharSet.of(seps).negate())
                NS = star(notsep)
                if k == 0:
                    r = length_rx(notsep)
                    return Seq(r, opt(Seq(cset, SIGMA_STAR))) if r is not None else Chars(CharSet())
                if k == 2:
                    r = length_rx(ANY)
                    with_sep = Seq(NS, cset, r) if r is not None else None
                    # without the separator the tail is "": length 0
                    zero_ok = (c > 0 and const <= 0) or (c < 0 and const <= 0)
                    alts = [x for x in (with_sep, NS if zero_ok else None) if x is not None]
                    return Alt(*alts) if len(alts) > 1 else (alts[0] if alts else Chars(CharSet()))
        raise AtomError(f"length of {describe(origin)!r}")
    raise AtomError(f"atom {key!r}")


class SiteLanguage:
    def __init__(self) -> None:
        self.accepted: Optional[Lang] = None
        self.classes: List[CharSet] = []
        self.undecided: Optional[str] = None
        self.paths = 0
        self.crashes: List[str] = []


def site_language(model: Model, regex_names: List[str], patterns: Dict[str, str], run_site: Callable[[Interp, SymStr], Any], exclude_prefix_of: List[str] = (), extra_rx: List[Rx] = (), include_magnitude: bool = False) -> SiteLanguage:
    """Language of lexemes accepted at one consumption site."""
    out = SiteLanguage()
    holder: Dict[str, Any] = {}

    def body(it: Interp) -> Any:
        v = it.new_str("lexeme")
        holder["v"] = v
        it.ctx.lexeme_sym = v  # type: ignore[attr-defined]
        r = run_site(it, v)
        return r, v

    try:
        runs = paths(model, body, limit=3000)
    except Unsupported as err:
        out.undecided = str(err)
        return out
    out.paths = len(runs)
    # collect atoms per path
    per_path: List[Tuple[bool, List[Tuple[Any, Any]], Any]] = []
    rxs: Dict[Any, Rx] = {}
    try:
        for run in runs:
            v = getattr(run.ctx, "lexeme_sym", None)
            if v is not None:
                pass
            elif run.kind == "return":
                v = run.value[1]
            else:
                # recover the lexeme symbol: the SymStr named 'lexeme'
                for key, info in run.ctx.atom_info.items():
                    rv = info.get("recv") or info.get("subject")
                    if isinstance(rv, SymStr) and rv.label == "lexeme":
                        v = rv
                for var, org in run.ctx.len_origin.items():
                    if isinstance(org, SymStr) and org.label == "lexeme":
                        v = org
            accepted = run.kind == "return"
            crash = None
            if run.kind == "raise":
                isjp = isinstance(run.value, Inst) and any(c.name == "JSONPathError" for c in run.value.cls.mro())
                if not isjp:
                    crash = run.exc_name()
            lits: List[Tuple[Any, Any]] = []
            for key, val in run.ctx.world.items():
                if not isinstance(key, tuple):
                    continue
                if key in run.ctx.atom_info or key[0] == "le0":
                    if key[0] == "le0":
                        (coefs, _c) = key[1]
                        if not all(var in run.ctx.len_origin for var, _ in coefs):
                            continue  # not about the lexeme (e.g. integer range checks)
                    if v is None:
                        raise AtomError("cannot identify the lexeme on a path")
                    sig = _sig(run, key)
                    if sig not in rxs:
                        rxs[sig] = atom_rx(run, key, v)
                    truth = val
                    if run.ctx.atom_info.get(key, {}).get("kind") == "convert":
                        truth = val == "ok"
                    lits.append((sig, bool(truth)))
                elif key[0] in ("int-of-float", "int-digit-limit", "decimal-range", "pow-unbounded"):
                    continue  # magnitude, not lexical shape
            magnitude = any(isinstance(k, tuple) and k[0] in ("int-of-float", "int-digit-limit", "decimal-range", "pow-unbounded") and val != "ok" for k, val in run.ctx.world.items())
            per_path.append((accepted, lits, (run, crash if (include_magnitude or not magnitude) else None)))
    except AtomError as err:
        out.undecided = f"predicate outside the modelled idioms: {err}"
        return out
    base = [from_sre(patterns[n]) for n in regex_names]
    all_rx = base + list(rxs.values()) + [from_sre(patterns[n]) for n in exclude_prefix_of] + list(extra_rx) + [R.number, R.int_]
    classes = common_partition(all_rx)
    out.classes = classes
    tok = None
    for b in base:
        L = Lang.from_rx(b, classes)
        tok = L if tok is None else tok.product(L, "or")
    assert tok is not None
    for n in exclude_prefix_of:
        pref = Lang.from_rx(Seq(from_sre(patterns[n]), SIGMA_STAR), classes)
        tok = tok.product(pref, "minus")
    langs = {sig: Lang.from_rx(rx, classes) for sig, rx in rxs.items()}
    acc: Optional[Lang] = None
    for accepted, lits, _run in per_path:
        if not accepted:
            continue
        cur = tok
        for sig, truth in lits:
            cur = cur.product(langs[sig] if truth else langs[sig].complement(), "and")
        acc = cur if acc is None else acc.product(cur, "or")
    for accepted, lits, (_run, crash) in per_path:
        if crash is None:
            continue
        cur = tok
        for sig, truth in lits:
            cur = cur.product(langs[sig] if truth else langs[sig].complement(), "and")
        w = cur.shortest()
        if w is not None:
            mag = any(isinstance(k, tuple) and k[0] == "int-of-float" and val != "ok" for k, val in _run.ctx.world.items())
            digits = any(isinstance(k, tuple) and k[0] == "int-digit-limit" and val != "ok" for k, val in _run.ctx.world.items())
            decrange = any(isinstance(k, tuple) and k[0] == "decimal-range" and val != "ok" for k, val in _run.ctx.world.items())
            powbig = any(isinstance(k, tuple) and k[0] == "pow-unbounded" and val != "ok" for k, val in _run.ctx.world.items())
            if powbig:
                if cur.minimize().is_infinite():
                    out.crashes.append(f"{crash} (lexemes of the shape of {w!r} with an exponent of many digits: a power with an exponent that nothing bounds exhausts memory or does not return)")
            elif decrange:
                if cur.minimize().is_infinite():
                    out.crashes.append(f"{crash} (lexemes of the shape of {w!r} with an exponent of 19 or more digits: decimal.Decimal refuses them with InvalidOperation, which is not a ValueError)")
            elif digits:
                # only reachable if the lexemes taking this path can be longer than the interpreter's digit limit
                if cur.minimize().is_infinite():
                    out.crashes.append(f"{crash} (lexemes of the shape of {w!r} with more than 4300 digits: int() refuses them with a ValueError)")
            elif mag:
                out.crashes.append(f"{crash} (lexemes of the shape of {w!r} whose value is too large for a float, e.g. an exponent of 400)")
            else:
                out.crashes.append(f"{crash} (e.g. lexeme {w!r})")
    if acc is None:
        acc = Lang.from_rx(Chars(CharSet()), classes)
    out.accepted = acc.minimize()
    return out


def _sig(run: Any, key: Any) -> Any:
    info = run.ctx.atom_info.get(key)
    if info is None:
        (coefs, const) = key[1]
        return ("le0", tuple((describe(run.ctx.len_origin.get(v)), c) for v, c in coefs), const)
    if info["kind"] == "strpred":
        return ("strpred", info["name"], repr(info["args"]))
    if info["kind"] == "regex":
        return ("regex", info["mode"], repr(info["pattern"]))
    if info["kind"] == "contains":
        return ("contains", info["item"])
    if info["kind"] in ("convert", "nonempty") and isinstance(info.get("recv"), Term) and info["recv"].op == "strpart":
        _b, meth, sep, k = info["recv"].args
        return (info["kind"], info.get("which"), "strpart", meth, sep, k)
    if info["kind"] == "convert":
        return ("convert", info["which"])
    raise AtomError(f"atom of kind {info['kind']}")


def diverge(acc: Lang, rfc: Rx, classes: List[CharSet]) -> List[Divergence]:
    want = Lang.from_rx(rfc, classes).minimize()
    return acc.divergences(want)


def blank_recogniser_patterns(model: Model) -> List[str]:
    """The patterns Lexer.ignore_whitespace matches at the pointer (one per syntactic path that consumes input)."""
    lci = model.cls("lex.Lexer")
    fn = lci.find_method("ignore_whitespace")
    if fn is None:
        raise AnalysisError("anchor vanished: Lexer.ignore_whitespace")

    def body(it: Interp) -> Any:
        q = it.new_str("query")
        lx = it.instantiate(lci, [q], {}, None)
        p_ = it.new_int("pos", 0)
        it.ctx.assume_le0(p_.lin - Lin.var(q.len_var))
        lx.attrs["pos"] = p_
        lx.attrs["start"] = p_
        r = it.call_function(fn, [lx], {}, None, self_av=lx)
        return r, q, p_

    found: List[str] = []
    for run in paths(model, body):
        if run.kind == "raise":
            continue
        r, q, p_ = run.value
        for key, val in run.ctx.world.items():
            info = run.ctx.atom_info.get(key)
            if info and info["kind"] == "regex" and info["subject"] is q and val:
                pat = info["pattern"]
                if not (isinstance(pat, Const) and isinstance(pat.value, str)):
                    raise AnalysisError("ignore_whitespace applies a dynamic pattern")
                if not (isinstance(info["pos"], IntV) and info["pos"].lin == p_.lin and info["mode"] == "match"):
                    raise AnalysisError("ignore_whitespace does not match at the pointer")
                if pat.value not in found:
                    found.append(pat.value)
    if not found:
        raise AnalysisError("Lexer.ignore_whitespace never consumes anything: no blank-space recogniser found")
    return found


def number_literal_sites(model: Model, extra_rx: List[Rx] = (), _retry: bool = False) -> Tuple[Any, Any]:
    """Site languages of INT and FLOAT lexemes (token regex, parser predicates, converter domains), on one partition
    that also refines `extra_rx`."""
    pats = lexer_patterns(model)
    tokre = token_regexes(model)
    int_names, float_names = tokre.get("INT") or [], tokre.get("FLOAT") or []
    if not int_names or not float_names:
        raise AnalysisError("no regex is emitted as INT/FLOAT")
    si = site_language(model, int_names, pats, literal_site(model, "INT"), exclude_prefix_of=float_names, extra_rx=[from_sre(pats[n]) for n in float_names] + list(extra_rx))
    sf = site_language(model, float_names, pats, literal_site(model, "FLOAT"), extra_rx=[from_sre(pats[n]) for n in int_names] + list(extra_rx))
    if not (si.undecided or sf.undecided) and [c.iv for c in si.classes] != [c.iv for c in sf.classes] and not _retry:
        # the predicates of one site split characters the other site does not: refine both with each other's classes
        extra = [Chars(c) for c in si.classes if c.iv] + [Chars(c) for c in sf.classes if c.iv]
        return number_literal_sites(model, list(extra_rx) + extra, _retry=True)
    return si, sf


def number_literal_union(model: Model, extra_rx: List[Rx] = ()) -> Tuple[Optional[Lang], List[CharSet], Optional[str]]:
    """Language of number-literal lexemes the library reads (INT and FLOAT tokens through their regexes, the
    parser's predicates and the converter domains), on a partition that also refines `extra_rx`."""
    si, sf = number_literal_sites(model, extra_rx)
    if si.undecided or sf.undecided:
        return None, [], str(si.undecided or sf.undecided)
    if [c.iv for c in si.classes] != [c.iv for c in sf.classes]:
        return None, [], "INT and FLOAT site languages live on different partitions"
    return si.accepted.product(sf.accepted, "or").minimize(), si.classes, None


def lang_accepts(lang: Lang, text: str) -> bool:
    """Membership of a concrete string in a complete DFA over a partition."""
    st = lang.start
    for ch in text:
        cp = ord(ch)
        k = None
        for j, c in enumerate(lang.classes):
            if any(lo <= cp <= hi for lo, hi in c.iv):
                k = j
                break
        if k is None:
            return False
        st = lang.trans[st][k]
    return bool(lang.accepting[st])


# ------------------------------------------------------------- the layer
def _parser_and_stream(it: Interp, model: Model, toks: List[Inst]) -> Tuple[Inst, Inst]:
    env = real_env(it, model)
    parser = env.attrs["parser"]
    return parser, make_stream(it, model, toks)


def _tok(it: Interp, model: Model, t: str, v: Any, label: str, q: Any) -> Inst:
    return make_token(it, model, t, Const(v) if isinstance(v, str) else v, label, q)


def index_site(model: Model, position: str) -> Callable[[Interp, SymStr], Any]:
    def run(it: Interp, v: SymStr) -> Any:
        q = it.new_str("query")
        ix = _tok(it, model, "INDEX", v, "lexeme-token", q)
        pre = {"selector": [], "start": [], "stop": ["COLON"], "step": ["COLON", "COLON"]}[position]
        post = {"selector": [], "start": ["COLON"], "stop": [], "step": []}[position]
        toks = [_tok(it, model, "LBRACKET", "[", "lb", q)]
        toks += [_tok(it, model, t, ":", f"pre{k}", q) for k, t in enumerate(pre)]
        toks.append(ix)
        toks += [_tok(it, model, t, ":", f"post{k}", q) for k, t in enumerate(post)]
        toks += [_tok(it, model, "RBRACKET", "]", "rb", q), _tok(it, model, "EOF", "", "eof", q)]
        parser, st = _parser_and_stream(it, model, toks)
        fn = parser.cls.find_method("parse_bracketed_selection")
        if fn is None:
            raise AnalysisError("anchor vanished: Parser.parse_bracketed_selection")
        return it.call_function(fn, [parser, st], {}, None, self_av=parser)

    return run


def literal_site(model: Model, token_type: str) -> Callable[[Interp, SymStr], Any]:
    def run(it: Interp, v: SymStr) -> Any:
        from ..absint import hkey

        q = it.new_str("query")
        toks = [_tok(it, model, token_type, v, "lexeme-token", q), _tok(it, model, "RBRACKET", "]", "rb", q), _tok(it, model, "EOF", "", "eof", q)]
        parser, st = _parser_and_stream(it, model, toks)
        tm = parser.attrs.get("token_map")
        key = hkey(EnumV(model.cls("tokens.TokenType"), token_type))
        if not isinstance(tm, PyDict) or key not in tm.items:
            raise AnalysisError(f"token_map has no entry for {token_type}")
        return it.call(tm.items[key], [st], {})

    return run


def lexical_layer(model: Model, report: Report, side: str, rule_prefix: str, only: Any = None) -> None:
    """side = 'b-only' (RFC language not accepted: C03) or 'a-only' (accepted but not RFC: C04).
    only: restrict to some of L1..L6 (C01 uses the parts a filter-free query can contain)."""

    def want(tag: str) -> bool:
        return only is None or tag in only

    pats = lexer_patterns(model)
    tokre = token_regexes(model)
    lexq = "lex"

    def report_div(rule: str, site: str, what: str, divs: List[Divergence], n_classes: int) -> None:
        mine = [d for d in divs if d.side == side]
        if not mine:
            report.ok(rule, site, what, detail={"alphabet_classes": n_classes, "divergences_other_direction": len(divs)})
            return
        for d in mine:
            w = d.witness.encode("unicode_escape").decode()
            if side == "b-only":
                msg = f"{what}: RFC 9535 lexeme '{w}' is refused"
            else:
                msg = f"{what}: lexeme '{w}' is accepted but is not in the RFC 9535 grammar"
            report.fail(rule, site, f"{what}:{d.key()}", msg, what=what)

    def regex_only(rule: str, token: str, rfc: Rx, what: str) -> None:
        names = tokre.get(token)
        if not names:
            raise AnalysisError(f"no regex is emitted as {token}")
        rx = None
        for n in names:
            r = from_sre(pats[n])
            rx = r if rx is None else Alt(rx, r)
        classes = common_partition([rx, rfc])
        divs = Lang.from_rx(rx, classes).minimize().divergences(Lang.from_rx(rfc, classes).minimize())
        report_div(rule, f"{lexq}.{names[0]}", what, divs, len(classes))

    # L1 blank space: the recogniser is whatever Lexer.ignore_whitespace applies at the pointer (read off its
    # interpreted paths: regex literals and character-class scan loops alike), not a constant picked by name
    if want("L1"):
        ws_pats = blank_recogniser_patterns(model)
        rx = Alt(*[from_sre(p_) for p_ in ws_pats]) if len(ws_pats) > 1 else from_sre(ws_pats[0])
        classes = common_partition([rx, R.blank_run])
        report_div(rule_prefix + ".L1", f"{lexq}.Lexer.ignore_whitespace", "blank-space", Lang.from_rx(rx, classes).minimize().divergences(Lang.from_rx(R.blank_run, classes).minimize()), len(classes))
    # L2 shorthand names, L5 function names
    if want("L2"):
        regex_only(rule_prefix + ".L2", "PROPERTY", R.member_name_shorthand, "member-name-shorthand")
    if want("L5"):
        regex_only(rule_prefix + ".L5", "FUNCTION", R.function_name, "function-name")
    # L3 index / slice components
    idx_names = tokre.get("INDEX") or []
    if not idx_names:
        raise AnalysisError("no regex is emitted as INDEX")
    langs = {}
    for pos in ("selector", "start", "stop", "step") if want("L3") else ():
        sl = site_language(model, idx_names, pats, index_site(model, pos))
        site = "parse.Parser.parse_bracketed_selection" if pos == "selector" else "parse.Parser.parse_slice"
        what = f"index-lexeme:{pos}"
        if sl.undecided:
            report.undecided(rule_prefix + ".L3", site, f"{what}: {sl.undecided}")
            continue
        langs[pos] = sl
        report_div(rule_prefix + ".L3", site, what, diverge(sl.accepted, R.int_, sl.classes), len(sl.classes))
        for c in sorted(set(sl.crashes)):
            report.fail(rule_prefix + ".L3", site, f"{what}:crash:{c}", f"{what}: some lexemes make the parser raise {c} instead of a JSONPathError")
    # L4 number literals
    int_names, float_names = tokre.get("INT") or [], tokre.get("FLOAT") or []
    if not int_names or not float_names:
        raise AnalysisError("no regex is emitted as INT/FLOAT")
    site = "parse.Parser.parse_integer_literal"
    if want("L4"):
        si, sf = number_literal_sites(model)
    if not want("L4"):
        pass
    elif si.undecided or sf.undecided:
        report.undecided(rule_prefix + ".L4", site, f"number literals: {si.undecided or sf.undecided}")
    else:
        # same partition for both (built from the same set of regexes is not guaranteed): rebuild on a joint one
        classes = common_partition([from_sre(pats[n]) for n in int_names + float_names] + [R.number, dom_int(), dom_float()])
        # re-run on the joint partition is costly; instead compare each against the RFC restricted to its own regex
        union = None
        try:
            if [c.iv for c in si.classes] == [c.iv for c in sf.classes]:
                union = si.accepted.product(sf.accepted, "or").minimize()
        except Exception:  # noqa: BLE001
            union = None
        if union is None:
            report.undecided(rule_prefix + ".L4", site, "INT and FLOAT site languages live on different partitions")
        else:
            report_div(rule_prefix + ".L4", site, "number-literal", diverge(union, R.number, si.classes), len(si.classes))
        for c in sorted(set(si.crashes + sf.crashes)):
            report.fail(rule_prefix + ".L4", site, f"number-literal:crash:{c}", f"number literal: some lexemes make the parser raise {c} instead of a JSONPathError")
    # L6 string literal bodies: lexer state (one generic iteration) x decoder tables (abstract interpretation)
    if not want("L6"):
        return
    from . import _strings

    dm = _strings.extract_decoder(model)
    from . import c09

    dm.chains = {}  # type: ignore[attr-defined]
    for ttype, qq in (("SINGLE_QUOTE_STRING", "'"), ("DOUBLE_QUOTE_STRING", '"')):
        ch, _why = c09.normalisation_chain(model, ttype)
        if ch is not None:
            dm.chains[qq] = ch  # type: ignore[attr-defined]
    scalar = star(Chars(CharSet([(0, 0xD7FF), (0xE000, 0x10FFFF)])))
    for quote, qname in (("'", "single"), ('"', "double")):
        for ctxname in ("bracket", "filter"):
            what = f"string-literal:{qname}-quoted:{ctxname}"
            try:
                lx = _strings.analyse_lex_string(model, quote, ctxname)
            except Unsupported as err:
                report.undecided(rule_prefix + ".L6", "lex.lex_string_factory", f"{what}: {err}")
                continue
            site = f"lex.{lx['state']}"
            definite = [pp for pp in lx["problems"] if pp[0] in ("lex:escape-any", "lex:eof", "lex:escape-silent")]
            if definite and side == "a-only":
                for k, msg in definite:
                    report.fail(rule_prefix + ".L6", site, f"{what}:{k}", f"{what}: {msg}")
                continue
            # an accepted escape that does not consume its second character leaves that character to be scanned again:
            # after `\\` the closing quote is taken for an escaped one, so well-formed literals are refused
            refusing = [pp for pp in lx["problems"] if pp[0] in ("lex:escape-advance",)]
            if refusing and side == "b-only":
                for k, msg in refusing:
                    report.fail(rule_prefix + ".L6", site, f"{what}:{k}", f"{what}: {msg}; e.g. a literal ending in an escaped backslash is scanned past its closing quote")
                continue
            over, under, value_only, other = _strings.classify_problems(dm.problems)
            if under and side == "b-only":
                for part, k, msg, dfn in under:
                    report.fail(rule_prefix + ".L6", dfn.qualname, f"{what}:{k}", f"{what}: {msg}", file=dfn.file, line=dfn.line)
                continue
            if over and side == "a-only":
                for part, k, msg, dfn in over:
                    report.fail(rule_prefix + ".L6", dfn.qualname, f"{what}:{k}", f"{what}: {msg}", file=dfn.file, line=dfn.line)
                continue
            if lx["problems"] or other:
                # structure of the scanner/decoder itself is off: C09 reports the details
                rest = other
                report.undecided(rule_prefix + ".L6", site, f"{what}: the string scanner/decoder does not have the expected structure ({lx['problems'][0][1] if lx['problems'] else rest[0][2]})")
                continue
            # problems that only change the decoded value (C01/C08/C09) leave the accepted language as modelled
            raw_lex = lx["raw"]
            impl = dm.body_rx(lx["escapes"], quote)
            # the lexer's own raw set further restricts raw characters
            impl_rx = impl
            rfc = R.string_body(quote)
            classes = common_partition([impl_rx, rfc, scalar, Chars(raw_lex)])
            A = Lang.from_rx(impl_rx, classes)
            lexraw = Lang.from_rx(star(Alt(Chars(raw_lex), Seq(lit("\\"), ANY))), classes)
            S = Lang.from_rx(scalar, classes)
            A = A.product(lexraw, "and").product(S, "and").minimize()
            B = Lang.from_rx(rfc, classes).product(S, "and").minimize()
            report_div(rule_prefix + ".L6", site, what, A.divergences(B), len(classes))
    report.touched("parse.Parser.parse_bracketed_selection", "parse.Parser.parse_slice", "parse.Parser.parse_integer_literal", "parse.Parser.parse_float_literal")
