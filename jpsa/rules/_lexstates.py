"""One generic iteration of each lexer state function, by abstract interpretation on a symbolic
query: which lexemes produce which tokens, where blank space is skipped, what is an error."""

from __future__ import annotations

from typing import Any
from typing import Dict
from typing import List
from typing import Optional
from typing import Tuple

from ..absctx import Unsupported
from ..absint import Interp
from ..absval import *  # noqa: F403
from ..harness import describe
from ..harness import paths
from ..model import AnalysisError
from ..model import Model
from ..numeric import Lin


class Step:
    """One path through one iteration of a lexer state."""

    def __init__(self) -> None:
        self.prefix: str = ""  # characters fixed at pos, pos+1, ... (contiguous from pos)
        self.excluded: Dict[int, set] = {}  # offset -> characters known not to be there
        self.at_end: Optional[bool] = None  # pos == len(query)
        self.startswith: List[Tuple[str, bool]] = []  # (constant, truth) tested at pos
        self.regex: List[Tuple[str, bool, Any]] = []  # (pattern, matched, offset-form)
        self.tokens: List[Tuple[str, Any]] = []  # (type, value description)
        self.error: Optional[str] = None
        self.next_state: Optional[str] = None
        self.raised: Optional[str] = None
        self.consumed: Any = None
        self.filter_depth_delta: Any = None
        self.stack_ops: List[str] = []
        self.skipped_blank = False

    def show(self) -> Dict[str, Any]:
        return {k: v for k, v in self.__dict__.items() if v not in (None, [], {}, "", False)}


def lexer_iteration(model: Model, state: str, filter_depth: int = 0, in_function: bool = False, bracket_top: Optional[str] = None) -> List[Step]:
    lexmod = model.module("lex")
    lci = model.cls("lex.Lexer")
    if state not in lexmod.functions and state not in lexmod.assigns:
        raise AnalysisError(f"anchor vanished: lex.{state}")

    def body(it: Interp) -> Any:
        q = it.new_str("query")
        n = Lin.var(q.len_var)
        lx = it.instantiate(lci, [q], {}, None)
        p = it.new_int("pos", 0)
        it.ctx.assume_le0(p.lin - n)
        lx.attrs["pos"] = p
        lx.attrs["start"] = p
        lx.attrs["filter_depth"] = Const(filter_depth)
        if in_function:
            lx.attrs["func_call_stack"] = it.new_list([Const(1)])
        if bracket_top:
            lx.attrs["bracket_stack"] = it.new_list([PyTuple((Const(bracket_top), Const(0)))])
        st = it.module_global(lexmod, state)
        if isinstance(st, FuncV):
            it.hooks["__while_once__"] = {st.fi.qualname}
        r = it.call(st, [lx], {})
        return r, lx, p, q, it

    runs = paths(model, body, limit=6000)
    out: List[Step] = []
    for run in runs:
        s = Step()
        ctx = run.ctx
        if run.kind == "raise":
            s.raised = run.exc_name()
            out.append(s)
            continue
        r, lx, p, q, it = run.value
        # characters fixed relative to pos
        fixed: Dict[int, str] = {}
        for (sid, lkey), ch in it.host.chars.items():
            if sid != q.id:
                continue
            (coefs, const) = lkey
            pv = p.lin.vars()[0]
            if coefs == ((pv, 1),):
                off = const
                fx = ctx.char_fixed.get(ch.id)
                if fx is not None:
                    fixed[off] = fx
                ex = ctx.char_excl.get(ch.id)
                if ex:
                    s.excluded[off] = set(ex)
        k = 0
        pre = []
        while k in fixed:
            pre.append(fixed[k])
            k += 1
        s.prefix = "".join(pre)
        s.at_end = ctx.oct.entails_le0(Lin.var(q.len_var) - p.lin)
        for key, val in ctx.world.items():
            info = ctx.atom_info.get(key)
            if not info:
                continue
            if info["kind"] == "strpred" and info["recv"] is q and info["name"] == "startswith":
                a = info["args"]
                if a and isinstance(a[0], Const):
                    s.startswith.append((a[0].value, bool(val)))
            if info["kind"] == "regex" and info["subject"] is q:
                pat = info["pattern"]
                off = None
                if isinstance(info["pos"], IntV):
                    d = info["pos"].lin - p.lin
                    off = d.const if d.is_const() else d.show(ctx.names)
                s.regex.append((pat.value if isinstance(pat, Const) else describe(pat), bool(val), off))
        toks = lx.attrs["tokens"].items if isinstance(lx.attrs.get("tokens"), PyList) else []
        for t in toks:
            tt = t.attrs.get("type_")
            name = tt.member if isinstance(tt, EnumV) else describe(tt)
            if name == "ERROR":
                m = t.attrs.get("message")
                s.error = m.value if isinstance(m, Const) else describe(m)
            else:
                s.tokens.append((name, describe(t.attrs.get("value"))))
        if isinstance(r, FuncV):
            s.next_state = r.fi.name
            # closures produced by the string factory are named by their module-level alias
            for alias, expr in lexmod.assigns.items():
                try:
                    if it.module_global(lexmod, alias) is r:
                        s.next_state = alias
                except Exception:  # noqa: BLE001
                    pass
        elif isinstance(r, Term) and r.op == "loop-continues":
            s.next_state = state
        elif isinstance(r, Const) and r.value is None:
            s.next_state = None
        else:
            s.next_state = describe(r)
        newpos = lx.attrs.get("pos")
        if isinstance(newpos, IntV):
            d = newpos.lin - p.lin
            s.consumed = d.const if d.is_const() else d.show(ctx.names)
        elif isinstance(newpos, Const):
            s.consumed = f"={newpos.value}"
        fd = lx.attrs.get("filter_depth")
        if isinstance(fd, Const):
            s.filter_depth_delta = fd.value - filter_depth
        s.skipped_blank = any(pat_is_blank(pt) and m for pt, m, off in s.regex if off == 0)
        out.append(s)
    return out


def pat_is_blank(pattern: str) -> bool:
    from ..automata import Lang, common_partition, from_sre
    from ..oracle import rfc9535 as R

    try:
        rx = from_sre(pattern)
    except AnalysisError:
        return False
    classes = common_partition([rx, R.blank_run])
    return not Lang.from_rx(rx, classes).minimize().divergences(Lang.from_rx(R.blank_run, classes).minimize())


# ------------------------------------------------------------------ rules
EXPECTED_FILTER_TOKENS = {
    "==": "EQ", "!=": "NE", "<=": "LE", ">=": "GE", "<": "LT", ">": "GT",
    "&&": "AND", "||": "OR", "!": "NOT", "(": "LPAREN", ")": "RPAREN", ",": "COMMA",
    "$": "ROOT", "@": "CURRENT", "true": "TRUE", "false": "FALSE", "null": "NULL",
}
EXPECTED_BRACKET_TOKENS = {"]": "RBRACKET", "*": "WILD", "?": "FILTER", ",": "COMMA", ":": "COLON"}


def fixed_lexeme(s: Step) -> Optional[str]:
    if s.error or s.raised or not s.tokens:
        return None
    if isinstance(s.consumed, int):
        if 0 < s.consumed <= len(s.prefix):
            return s.prefix[: s.consumed]
        for const, truth in s.startswith:
            if truth and len(const) == s.consumed:
                return const
    return None


def token_table(model: Model, state: str, **kw: Any) -> Tuple[Dict[str, str], List[Step]]:
    steps = lexer_iteration(model, state, **kw)
    table: Dict[str, str] = {}
    for s in steps:
        lx = fixed_lexeme(s)
        if lx is not None and len(s.tokens) == 1:
            table[lx] = s.tokens[0][0]
    return table, steps


def check_token_tables(model: Model, report: Any, rule: str, side: str) -> None:
    """side 'b-only': RFC lexeme not tokenised as expected (C03); 'a-only': extra fixed lexemes accepted (C04)."""
    for state, expected, configs in (
        ("lex_inside_filter", EXPECTED_FILTER_TOKENS, [dict(filter_depth=1, bracket_top="["), dict(filter_depth=1, bracket_top="("), dict(filter_depth=1, bracket_top="(", in_function=True)]),
        ("lex_inside_bracketed_segment", EXPECTED_BRACKET_TOKENS, [dict(filter_depth=0, bracket_top="[")]),
    ):
        table: Dict[str, str] = {}
        all_steps: List[Step] = []
        try:
            for cfg in configs:
                t, steps = token_table(model, state, **cfg)
                table.update(t)
                all_steps += steps
        except Unsupported as err:
            report.undecided(rule, f"lex.{state}", str(err))
            continue
        site = f"lex.{state}"
        if side == "b-only":
            bad = False
            for lexeme, tok in expected.items():
                if table.get(lexeme) != tok:
                    report.fail(rule, site, f"token:{lexeme}", f"'{lexeme}' is tokenised as {table.get(lexeme)!r}, expected {tok}")
                    bad = True
            if not bad:
                report.ok(rule, site, "fixed lexemes produce their tokens", detail={"table": table})
        else:
            extra = {k: v for k, v in table.items() if k not in expected}
            bad = False
            for lexeme, tok in sorted(extra.items()):
                report.fail(rule, site, f"extra-token:{lexeme}", f"'{lexeme}' is accepted as token {tok} but is not an RFC 9535 lexeme in this position")
                bad = True
            # the path on which no test succeeded must be an error
            fall = [s for s in all_steps if not s.prefix and not s.tokens and not s.raised and not s.skipped_blank and all(not t for _c, t in s.startswith) and all(not m for _p, m, _o in s.regex)]
            silent = [s for s in fall if not s.error and s.next_state == state]
            if silent:
                report.fail(rule, site, "unknown-character-ignored", "a character that starts no token is skipped silently instead of being an error")
                bad = True
            # lone '=' (and any single-character prefix of a two-character operator that is not itself an operator)
            for s in all_steps:
                if s.prefix == "=" and 1 in s.excluded and "=" in s.excluded[1] and not s.error:
                    report.fail(rule, site, "lone-equals", "a single '=' is accepted")
                    bad = True
            if not bad:
                report.ok(rule, site, "no extra fixed lexemes; unknown characters are errors", detail={"extra": extra})


def first_chars(pattern: str) -> Any:
    from ..automata import DFA, CharSet, build, from_sre, partition

    nfa = build(from_sre(pattern))
    classes = partition(nfa)
    d = DFA(nfa, classes)
    alive = d.alive()
    out = CharSet()
    for c, t in enumerate(d.trans[0]):
        if t >= 0 and alive[t]:
            out = out | classes[c]
    return out


def outcome_for_char(steps: List[Step], ch: str) -> List[Step]:
    out = []
    for s in steps:
        if s.raised:
            continue
        if s.at_end:
            continue
        if s.prefix:
            if s.prefix[0] != ch:
                continue
        elif ch in s.excluded.get(0, ()):
            continue
        ok = True
        for pat, matched, off in s.regex:
            if off != 0:
                continue
            try:
                can = first_chars(pat).contains(ord(ch))
            except AnalysisError:
                continue
            if matched and not can:
                ok = False
            if not matched and can and pat_is_blank(pat):
                ok = False
        for const, truth in s.startswith:
            if truth and not const.startswith(ch):
                ok = False
        if ok:
            out.append(s)
    return out


BLANK_EXPECT = {
    "lex_root": "error",
    "lex_segment": "skip",
    "lex_inside_bracketed_segment": "skip",
    "lex_inside_filter": "skip",
    "lex_descendant_segment": "error",
    "lex_shorthand_selector": "error",
}


def check_blank_positions(model: Model, report: Any, rule: str, side: str) -> None:
    for state, want in BLANK_EXPECT.items():
        try:
            steps = lexer_iteration(model, state, filter_depth=1 if state == "lex_inside_filter" else 0, bracket_top="[" if "inside" in state else None)
        except Unsupported as err:
            report.undecided(rule, f"lex.{state}", str(err))
            continue
        site = f"lex.{state}"
        for ch, name in ((" ", "SP"), ("\t", "HT"), ("\n", "LF"), ("\r", "CR")):
            cand = outcome_for_char(steps, ch)
            skips = [s for s in cand if s.skipped_blank and not s.error] + [s for s in cand if not s.error and not s.skipped_blank and (s.tokens or s.next_state) and not s.prefix]
            skips = [s for s in cand if s.skipped_blank and not (s.error and "whitespace" in str(s.error) and state != "lex_segment")]
            errs = [s for s in cand if s.error or s.raised]
            got = "skip" if any(s.skipped_blank and (not s.error or state == "lex_segment") for s in cand) else ("error" if errs and len(errs) == len(cand) else "other")
            key = f"blank:{state}:{name}"
            if got == want:
                report.ok(rule, site, key)
            elif want == "skip" and side == "b-only":
                report.fail(rule, site, key, f"blank space ({name}) where the grammar allows it is not skipped in {state} (outcome: {got})")
            elif want == "error" and side == "a-only":
                report.fail(rule, site, key, f"blank space ({name}) is tolerated in {state} where the grammar forbids it (outcome: {got})")
            else:
                report.ok(rule, site, key + ":other-direction", nontrivial=False)
    # trailing blank after the last segment is an error; nothing but '$' may start a query
    if side == "a-only":
        try:
            steps = lexer_iteration(model, "lex_segment")
            trailing = [s for s in steps if s.skipped_blank and s.error and "trailing" in str(s.error)]
            eof_after_blank = [s for s in steps if s.skipped_blank and any(t[0] == "EOF" for t in s.tokens)]
            if eof_after_blank or not trailing:
                report.fail(rule, "lex.lex_segment", "trailing-blank", "blank space after the last segment is accepted")
            else:
                report.ok(rule, "lex.lex_segment", "trailing blank space is an error")
            steps = lexer_iteration(model, "lex_root")
            okroot = [s for s in steps if s.tokens and s.prefix != "$"]
            if okroot:
                report.fail(rule, "lex.lex_root", "root", f"a query may start with {okroot[0].prefix!r}")
            else:
                report.ok(rule, "lex.lex_root", "only '$' starts a query")
        except Unsupported as err:
            report.undecided(rule, "lex.lex_segment", str(err))
